"""C17 - copyright documents and license texts survive dump -> re-parse.

Deciding monitor M (boundary oracle, public API only):

* M.doc    a copyright document is BUILT through the public API (Header property
           setters, FilesParagraph.create / LicenseParagraph.create, property
           setters afterwards, add_files_paragraph / add_license_paragraph) from a
           generated *spec*; it is dumped, the dump is parsed back in strict mode
           (input as list of lines with / without line ends, as a text stream, as
           utf-8 byte lines) and every value of every paragraph of the re-parsed
           document is compared with the value THE GENERATOR wrote into the spec
           (never with a read-back of the built object); the paragraph sequence
           (kind and identity, in the order the built document reports) must be the
           same; dumping the re-parsed document must give the identical text.
* M.perm   PARSED starting points: the dump T of the built document (only when
           M.doc had nothing to say about it) is cut into its paragraphs at the
           empty separator lines, the non-header paragraphs are permuted (seeded,
           op['pos']) so that stand-alone License paragraphs also come BEFORE and
           BETWEEN Files paragraphs, and re-joined -> T2 (no formatting of the
           library is re-implemented: every paragraph is text the library wrote).
           Copyright(T2, strict=True) must expose the paragraphs in T2's order
           with the generator's values, dump() must be T2 byte for byte, and one
           more parse/dump cycle must give the same values and the same text.
* M.codec  parse_multiline_as_lines(format_multiline_lines(L)) == L (compared as
           '\\n'-joined text, so [] == ['']) for line lists L in which no line is
           whitespace-only or a lone '.'; same for the str-level pair and for
           License.from_str(License(s, t).to_str()); M.license-enc: for the ENCODED
           string s = License(syn, text).to_str() the library produced,
           License.from_str(s).to_str() == s, judged against the encoded string
           itself; the texts include ones whose non-empty lines all share a common
           leading indentation (blanks, tabs, mixed).

* M.list   LIST-VALUED FIELDS THROUGH THEIR TYPED GETTERS (Files: whitespace-separated
           patterns; Upstream-Contact / Files-Excluded / Files-Included: one entry per
           line).  Lists whose entries contain or END IN punctuation that a tolerant
           reader might treat as a separator or strip (trailing / leading / lone ',' and
           ';', trailing ':' '.' '\\', internal commas, quotes, brackets, full-width
           separators) are (a) given to a fresh object (FilesParagraph.create, Header() +
           setter) and read back, (b) assigned to one long-lived object again and again
           (list / tuple arguments) and read back twice, (c) written by the object's own
           dump() and read from a paragraph object constructed over the parsed text,
           (d) re-read from every object of the batch after all were created, (e) put
           into one document that is dumped and parsed back with strict=True and
           strict=False.  The TYPED value (sequence of entries) is compared with the list
           that was assigned - never the dumped text.  The same lists appear in the
           documents of M.doc (feat:punct-*).
* M.watch  NO STATE SHARED BETWEEN OBJECTS OF ONE FACTORY.  "Factory" documents carry
           2..5 stand-alone License paragraphs interleaved with Files paragraphs, with
           synopses / texts / whole licences / pattern lists recurring between them (also
           the very same License object handed to several create() calls), paragraphs and
           Header() objects that are created but never added (decoys), a header built as
           a stand-alone Header() and assigned, assignments made late (after everything
           was created and added, optionally after a first dump / re-parse).  With
           case['early'] every object is read right after its creation; after every
           later creation / assignment EVERY object created so far must still show its
           own values ('watched-*': an object that read correctly before changed;
           'created-*' / 'assigned-*': the object just created / assigned).  M.multi:
           2..4 such documents are built one after the other in ONE case, all kept
           alive, then every object of every document is re-read and every document is
           dumped and re-parsed; a finding a document does not show when built alone
           gets the suffix '/only-with-other-documents-built-in-the-same-process'.
* M.nonstrict  the dump of a document whose strict re-parse had no complaint is also
           parsed with strict=False: same paragraph kinds, same typed values, same
           re-dump.
* M.fmt    HEADER FORMAT VALUES OTHER THAN THE CANONICAL URL, URL-ISH HEADER VALUES.  The
           Format field is part of every header comparison (reference: the module's own
           CUR_FORMAT / model_fixup, never the library's constants).  Format values -
           unknown URLs, the known URL without final slash / with http:, near misses of
           it (doubled slash, query, fragment, upper-case scheme or host, other version,
           other host, decorations), the historical pre-1.0 DEP-5 URLs, non-URL strings -
           are given (a) at construction: Header(data) over a Deb822 object that carries
           Format (and possibly other raw / single-line fields, Format at any position) -
           Header has no format= parameter on the unchanged tree; (b) by assignment:
           before / between / after the other header fields, twice, late (after all
           paragraphs were added, optionally after a first dump / re-parse cycle), to a
           decoy Header that is never added; (c) as parsed input: the Format line of a
           dump that already round-tripped is replaced by 'Format: V' (or by the
           deprecated spelling 'Format-Specification: V') and the text is parsed with
           strict=True / False.  Reference (established on the unchanged tree): a value is
           rewritten only when a Header is CONSTRUCTED over data carrying it (so also by
           every parse), and only the spellings of the known format the documented fix-up
           covers (missing final '/', 'http:'); assignment rewrites nothing.  Hence:
           first dump shows the value last given; the strict / non-strict re-parse reads
           model_fixup of it and every other header field as written; the re-dump is the
           first dump byte for byte - with exactly the Format line fixed up when the first
           dump showed an assigned fixable spelling; M.second-round: the re-dump parses to
           the same values and dumps to itself again.  Source / Upstream-Name /
           Upstream-Contact / Disclaimer / Comment carry URL-ish values (with / without
           final slash, doubled slash, http / https / other schemes, query, fragment;
           multi-line raw values whose continuation lines have one or several leading
           blanks / a tab and trailing blanks).  What the library logs about formats is
           counted (recorded:log:*), never judged; anything it hands to the warnings module
           in these cases is recorded inside warnings.catch_warnings, never raised.

* M.allforms / M.raw   NON-NORMALISED UNICODE AND ODD CONTINUATION MARKERS (round 9).  (1) Valid Unicode that is not
           in normal form C or that NFKC / case folding would change - decomposed sequences (e + U+0301, A + U+030A,
           marks in non-canonical order), singletons (U+2126 OHM, U+212B ANGSTROM, U+212A KELVIN, U+0340/1, U+037E ...),
           CJK compatibility ideographs (U+F900.., U+2F800..), Hangul conjoining / compatibility / half-width jamo,
           ligatures, full-width letters, superscripts, invisible format characters, characters whose UTF-8 form holds
           the bytes 0x85 / 0xA0, astral characters - in every kind of text value (copyright texts, license synopses and
           texts, comments, disclaimers, Upstream-Name, list entries, patterns): "Unicode documents" are BUILT through
           the API like every other document, fed to the parser in one of TEN input forms (the four old ones plus: the
           dump as ONE str, as ONE utf-8 bytes object, byte lines without line ends, io.BytesIO, a real file opened
           'rb', a real file opened in text mode with encoding='utf-8') and then (M.allforms) in four MORE of those
           forms chosen by rotation; every value must come back code point for code point (plain ==, never a
           normalising comparison) and every re-dump must be the first dump.  The same vocabulary goes through the list
           getters (kind 'lists', wide=1: all ten forms), the multiline codec and License.to_str / from_str.  (2) RAW
           multi-line values whose continuation lines start with ONE TAB, several blanks, blank+tab, tab+blank, mixed
           runs (16 markers), with trailing blanks / tabs, inner tabs, an empty first line, '.' after an odd marker:
           in Copyright / Comment / Disclaimer / Source of the Unicode documents (through create() and the setters) and
           in kind 'rawdoc' - documents given as RAW FIELD TEXT, License text included: either the generator's own
           text ("Name: first line", continuation lines verbatim) parsed strict from one of the ten forms, or the same
           raw values put into Deb822 data objects over which Header / FilesParagraph / LicenseParagraph are
           constructed.  Established on the unchanged tree and modelled: the marker is PART of what the raw fields
           return (p['Copyright'] == p.copyright == the text after 'Copyright: ' with every continuation line verbatim,
           marker and trailing blanks included); a License whose continuation lines all start with the one structural
           blank decodes to (first line, lines minus that blank, lone '.' = empty line) - the module's own
           model_license; one whose continuation line starts with a TAB makes .license raise on the unchanged tree:
           what the getter does then is NOT demanded, only that it is the same before and after dump + re-parse.  Then:
           dump, strict re-parse from another form: every raw value (through the mapping interface) and every typed
           value (properties; Files = whitespace-separated, Upstream-Contact = one entry per line) equals what was
           written; the re-dump is the dump; one more round in a third form.  Fixed grid: every atom x a third of the
           forms and every odd marker x every form (raw:enumerated, exact floor), plus seeded documents.

* M.refuse   REFUSED ASSIGNMENTS LEAVE THE PARAGRAPH AS IT WAS (round 10).  The build histories also carry assignments
           the unchanged tree answers with an exception - fp.files = [] / () / None / '' / an exhausted iterator / a list
           with an empty, blank or blank-containing entry / with None or an int among the entries / an int; .copyright /
           .license = None on Files and License paragraphs; a str, a plain pair, a list, an int where a License object
           belongs; header.format = None / a multi-line str / an int; multi-line Upstream-Name; line-based lists with an
           empty, blank or multi-line entry; raw fields given a value that ends in a newline, has an empty line or an
           unindented continuation line, or is not a str; p['Files'] = ... / del p['License'] through the mapping
           interface - on paragraphs that are still free, on paragraphs already added, on decoys, on a free Header() and
           on the header of the document; before the first dump and between two complete dump / re-parse cycles.  The
           table (which property refuses which value) is the module's own (model_refuses), established on the unchanged
           tree.  WHETHER the assignment raises, and with which exception, is recorded, never judged.  Judged: right
           AFTER it every typed getter of that paragraph returns the generator's value, the field names / order and every
           raw field text (mapping interface) are what they were right before it, every other object created so far
           still shows its own values; the document's dump after refused assignments between two dumps is the dump
           before them; and the final dump / strict (non-strict) re-parse / re-dump of M.doc holds with the generator's
           values.  Pattern lists that REPEAT patterns (['debian/*', 'po/*.po', 'debian/*'], twice in a row, three
           times, the whole list twice) go through create(), assignment and late assignment: the files tuple is the list
           that was given.

Witnesses of state kept between objects are confirmed in a fresh interpreter (what
--replay does): the shrunk case, the case, the case built twice, the case after the
preceding documents of the process - first one that reproduces is the witness.

Auxiliary monitor K.codec: contract on copyright.format_multiline_lines itself -
on EVERY call made by any workload (also the internal ones from License.to_str)
the result decodes back to the argument when the argument is in the domain.

Domain guards (each an under-demand, see DESIGN.md "C17 / Guards"):
texts are '\\n'-joined line lists whose last line is non-blank; no text line is
whitespace-only or a lone '.'; no character that str.splitlines treats as a line
boundary other than '\\n'; synopsis / first lines / single-line values carry no
leading or trailing blanks (the Deb822 reader strips them from the line that
carries the field name); raw (unconverted) fields - Copyright, Comment, Source,
Disclaimer - are given in Deb822 value form (continuation lines start with a blank
or tab and contain a non-blank), because that is what their str API accepts.
"""
import io
import re

PROP = 'C17'
LEVEL = 'exploration'
RULE = ('Seeded specs of copyright documents: header (optional Upstream-Name, Upstream-Contact with 1 vs several '
        'entries, Source, Comment, Disclaimer, License, Copyright, Files-Excluded/-Included, set-then-clear), '
        '0..4 Files paragraphs (pattern lists incl. >80/>120 column lists, single patterns >80 characters, '
        'hyphenated patterns; raw multi-line copyright; license; optional comment; created via create() and/or '
        're-assigned through the property setters) and 0..3 stand-alone License paragraphs, added in random '
        'interleaving; texts contain empty lines, indentation, tabs, non-ASCII, trailing blanks after content, '
        'field-like / comment-like / dot lines.  A document is non-trivial when it has at least one Files or '
        'License paragraph and at least one multi-line text showing one of: empty line, leading indentation/tab, '
        'non-ASCII character, trailing blank.  Codec line lists: random lists over a hostile line alphabet plus '
        'ALL lists of length <= 4 over an 11-line alphabet; a list is non-trivial when it is in the stated domain, '
        'has >= 2 lines and contains an empty line or a line with leading or trailing blank.  PARSED starting '
        'points (perm:*): the dump of every built document with >= 2 non-header paragraphs is cut at its empty '
        'separator lines, the non-header paragraphs are permuted by the seeded per-paragraph rank op["pos"] '
        '(absent in old replay files: order of addition) and re-joined; classes counted: stand-alone License '
        'paragraph before the first Files paragraph, License paragraph between two Files paragraphs, Files '
        'paragraph after a License paragraph, Files paragraphs reordered among themselves, License-only and '
        'Files-only permutations; each is parsed strictly, compared value by value with the spec, dumped, parsed '
        'and dumped again (second cycle fed in the next input form).  Common-indentation texts (feat:common-indent, '
        'lic:common-indent*): about one text in eight is drawn from a class in which every non-empty line starts '
        'with the same run of blanks / tabs / blank+tab (some lines indented deeper, empty lines in between, '
        'optionally trailing blanks), and one raw value in five gives all continuation lines the same lead.  '
        'PUNCTUATED LIST ENTRIES (lists:*, feat:punct-*): entries of Files / Upstream-Contact / Files-Excluded / '
        'Files-Included lists that contain or end in separator-like punctuation - trailing comma ("data/table_a,b,"), '
        'leading comma, an entry that is only "," or ";", entries ending in ";" ":" "." "\\", internal commas / '
        'semicolons, quotes, brackets, full-width separators - at the only / first / middle / last position; ALL lists '
        'of 1..3 entries over a 13-entry alphabet for Files and all lists of 1..2 entries over a 13-entry alphabet for '
        'each line-based field (2925 lists) plus seeded batches of 16 lists; every list goes to a fresh object, to one '
        're-assigned long-lived object (read twice), through the paragraph dump and a paragraph-level re-parse, and '
        'every batch through one document dump + strict and non-strict parse; a list is non-trivial when at least one '
        'entry shows a punctuation class.  FACTORY DOCUMENTS (fact:*): 2..5 stand-alone License paragraphs (different '
        'and deliberately recurring synopses / texts / whole licences from a per-case pool, also synopses equal up to '
        'case, also the same License object handed to several create() calls) interleaved with 0..4 Files paragraphs, '
        '0..2 decoy paragraphs and 0..2 decoy Header() objects (created, never added), header in place or as a '
        'stand-alone Header() assigned to the document, 0..3 late assignments (license / files / comment / header '
        'fields) after all paragraphs were added - for about a third of those documents after a first complete dump / '
        're-parse cycle; early reads (read every object right after creation) in 60% of them and in half of the '
        'ordinary documents; non-strict re-parse for all of them and a quarter of the ordinary documents.  MULTI '
        'CASES (multi:*): 2..4 small factory documents sharing one value pool built in sequence in one case, all '
        'objects kept alive and re-read at the end.  HEADER FORMATS AND URL-ISH HEADER VALUES (fmt:*, feat:url-*): '
        'header documents (0..2 small paragraphs) whose Format is canonical (8%), one of the 3 spellings the documented '
        'fix-up covers (known URL without final slash, with http:, both), a near miss of the known URL (doubled / '
        'tripled final slash, query, fragment, upper-case scheme / host / path, other version, other host, port, missing '
        'or other scheme, decorations such as "<...>" or a trailing word), a historical pre-1.0 DEP-5 URL '
        '(dep.debian.net/deps/dep5 with and without slash / https / fragment, anonscm viewvc dep5.mdwn?..., svn wsvn, '
        'loggerhead, wiki Proposals/CopyrightFormat), an unknown URL (fixed list and composed scheme x host x path x '
        'final slash(es) x query x fragment), or a non-URL string ("x", "1.0", "http:", "//", "Format: y", non-ASCII '
        '...); given at construction (Header(data), other raw / single-line fields optionally in the data, Format at any '
        'position), by assignment (any position among the header assignments, twice, late, late after a first dump / '
        're-parse cycle, on a decoy Header), and as parsed input (Format line of the round-tripped dump replaced; also as '
        'Format-Specification); ALL 146 fixed values x 5 ways as header-only documents in every run (fmt:enumerated), plus '
        'seeded header documents, plus a non-default Format assigned in 8% of the ordinary and factory documents; every '
        'such document is dumped, parsed strict and non-strict, re-dumped, parsed and dumped a second time.  Source / '
        'Upstream-Name / Upstream-Contact / Disclaimer / Comment of the header documents carry URLs with and without '
        'final slash, http / https / other schemes, queries, fragments, inside single-line values, list entries and '
        'multi-line raw values whose continuation lines have 1..8 leading blanks or a tab and 0..3 trailing blanks.  A '
        'document that gives a Format other than the canonical URL is non-trivial.  NON-NORMALISED UNICODE / ODD '
        'CONTINUATION MARKERS (uni:*, raw:*, feat:uni-*, feat:marker-*, lists:uni-*, codec:uni-*, lic:uni-*): {ATOMS} atoms '
        '(decomposed sequences, singletons, CJK compatibility ideographs, Hangul jamo, ligatures / full-width / '
        'superscripts and other compatibility characters, case-fold-sensitive letters, invisible format characters, '
        'characters with 0x85 / 0xA0 in their UTF-8 form, astral characters) + {SPACED} words with inner Unicode blanks, alone '
        'on a line / at the start / end / inside of words; Unicode documents (0..3 Files, 0..2 License paragraphs, header '
        'fields; raw values with the 16 continuation markers " ", TAB, 2..16 blanks, blank+tab, tab+blank, mixed) built '
        'through the API, first fed in one of 10 input forms (keepends / noends / StringIO / byte lines / one str / one '
        'utf-8 bytes object / byte lines without ends / BytesIO / binary file / text file), then in 4 more forms by '
        'rotation; raw-text documents (kind rawdoc): header + 0..2 Files + 0..2 License paragraphs written field by '
        'field as raw text (License, Files, Upstream-Contact included; fields without a property too), parsed from the '
        'written text or assembled over data objects, dumped, re-parsed strict from a second form, re-dumped, and once '
        'more from a third form; fixed grid: every atom x a third of the forms + every odd marker x every form.  Such a '
        'document is non-trivial when it shows at least one non-normalised class or one odd marker.  REFUSED ASSIGNMENTS '
        '(refuse:*, repeat:*): ALL refused values of the fixed table (per property of FilesParagraph / LicenseParagraph / '
        'Header and for the mapping interface: None, empty list / tuple / iterator / str, lists with an empty / blank / '
        'blank-containing / multi-line / None / int entry first or after valid entries, str or int instead of a list, '
        'str / pair / list / tuple / int instead of a License, multi-line or int single-line values, raw values ending in '
        'a newline / with an empty line / with an unindented continuation line / not a str, item assignment and deletion '
        'of every restricted field name) x the stages free (before the paragraph is added / on an own Header() before it '
        'is handed over / on the header of the document), added (right after add_*_paragraph), late (document complete, '
        'before the dump), between (after one complete dump / re-parse cycle, before the final one) on one fixed small '
        'document (refuse:enumerated, exact), plus seeded ordinary (50%) and factory (50%) documents with 1..5 refused '
        'assignments on random targets (header, added paragraphs, decoys) and stages, values from the table or composed '
        '(a valid generated list with one refused entry at a random position; a valid raw value with a refused tail), 30% '
        'of them with a non-default Format; in these documents half of the Files pattern lists given to create(), 60% '
        'of those assigned and assigned late REPEAT patterns (again at the end, twice in a row, three times, the whole list '
        'twice, fixed lists such as ["debian/*", "po/*.po", "debian/*"]).  A document with a refused assignment is '
        'non-trivial.')
ASSUMPTIONS = [
    'domain: text lines never whitespace-only (unless empty) nor a lone "."; last line of a text non-blank; only \\n as '
    'line boundary (no \\r, \\v, \\f, \\x1c-\\x1e, \\x85, U+2028/9); first lines and single-line values without outer blanks',
    'raw fields (Copyright, Comment, Source, Disclaimer) are generated in Deb822 value form by the generator\'s own '
    'encoder (first line as is, following lines prefixed by blank(s)/tab, empty line written " ."), independent of the library',
    'expected paragraph ORDER is read from the built document (all_paragraphs(), by object identity); all VALUES '
    'come from the generated spec; the built document must contain every added paragraph exactly once',
    'python-apt absent: Deb822.iter_paragraphs uses the internal parser (the only one reachable from Copyright())',
    'permuted starting points are only derived from a dump about which M.doc had no complaint, and only when the dump '
    'ends in one newline and cutting it at "\\n\\n" gives exactly 1 + (number of paragraphs) non-empty pieces none of '
    'which starts or ends with a newline (no generated value contains an empty line: texts are encoded by the library, '
    'raw values carry a non-blank on every continuation line); otherwise nothing is demanded (perm:unsplittable); the '
    'header paragraph always stays first; a permutation equal to the built order is not run again (perm:identity)',
    'expected values of the permuted document are the spec values of the paragraph each piece was dumped from '
    '(piece k+1 of the dump belongs to the k-th paragraph all_paragraphs() reported, by identity); the expected text '
    'of its dump is T2 itself, because every piece is a paragraph dump the library produced and the built-order '
    're-dump of the same pieces was already byte-identical',
    'list entries: a Files pattern is any non-empty string without a character str.isspace() accepts and without the '
    'excluded line-boundary characters; punctuation (",", ";", ":", ".", "\\", quotes, brackets, full-width forms) is '
    'ordinary pattern content - the format separates patterns by whitespace only; whether a pattern is a VALID glob '
    '(lone trailing backslash) is not this property: files_pattern()/matches() are never called here; line-based '
    'entries are single lines without outer blanks (inner blanks and commas are content); only the SEQUENCE of '
    'entries is compared (list(got) == assigned), the container type (tuple) is not demanded',
    'a document whose dump strict-parses without complaint must parse identically with strict=False (strict only '
    'decides whether format errors raise; the texts here have none): demanded only after the strict cycle had no finding',
    'objects created by the same factory (FilesParagraph.create, LicenseParagraph.create, Header(), Copyright()) are '
    'independent: creating or assigning one never changes what another one returns or dumps, whether or not it was '
    'added to a document, also when the very same (immutable) License object or equal values were given to both; '
    'License paragraphs with equal synopsis, equal text or fully equal content are legal (the library has no uniqueness '
    'rule) and each stays a paragraph of its own; the caller never mutates a list after handing it over',
    'a "watched-*" key is only used for an object that read back correctly earlier in the same case; otherwise the '
    'difference is reported as an ordinary built-* conversion difference; an object already reported is not reported '
    'again by later watch passes',
    'a late assignment after a first dump must show in the second dump: dump() reflects the current values',
    'witness confirmation: up to 24 fresh-interpreter executions per shard; a finding that is not reproduced standalone '
    'is still a violation (it was observed) and says so in its message',
    'Format reference = the behaviour established on the unchanged tree (module constants CUR_FORMAT / model_fixup, '
    'independent of the library\'s): Header() starts with the canonical URL; header.format = v stores v unchanged for '
    'every single-line v; a Header CONSTRUCTED over data (Header(data), every parse) rewrites v to the canonical URL iff '
    'v + (final "/" if missing) with a leading "http:" replaced by "https:" IS the canonical URL, and leaves every other '
    'value exactly as it is (unknown URLs, doubled slashes, queries, fragments, upper-case spellings, historical DEP-5 '
    'URLs, non-URL strings); consequently the re-dump of a document whose first dump shows an ASSIGNED fixable spelling '
    'differs from the first dump in exactly the Format line (documented fix-up), and is a fixpoint from there; in every '
    'other case the re-dump is the first dump byte for byte',
    'Format values are non-empty single lines without outer blanks and without the excluded line-boundary characters '
    '(what the Deb822 reader returns for a first line); Format = None / multi-line values (rejected by the setter) and '
    'values with outer blanks are outside the domain and never generated; Header(format=...) does not exist on the '
    'unchanged tree (TypeError), construction with a format goes through Header(data)',
    'what the library LOGS about formats ("format not known", "Fixing Format URL", deprecated Format-Specification) is '
    'counted by a handler on its logger (recorded:log:*; no floor, no verdict); in documents that give a Format '
    'explicitly the whole check runs inside warnings.catch_warnings(record=True) with simplefilter("always"), so a '
    'warning the library might issue about a format is recorded (recorded:warnings-module:*), not raised under the '
    'warnings-as-errors ambient, and never judged',
    'parsed-format starting points are derived only from a dump that already round-tripped (strict, non-strict, second '
    'round) and only when its header paragraph shows exactly one line "Format: <value>" (else fmt:unsplittable, nothing '
    'demanded); the substituted line is "Format: V" - the text the library itself writes for a single-line V - and the '
    'expected dump is that text with model_fixup(V) in the Format line; for the deprecated spelling '
    '"Format-Specification: V" (documented to be rewritten as Format) only the values (Format reads model_fixup(V), all '
    'other fields as written) and the fixpoint of the FIRST dump are demanded - where the rewritten field is placed is '
    'not',
    'header fields given through the data object of Header(data) are raw / single-line fields only (Source, Disclaimer, '
    'Comment, Copyright, Upstream-Name), stored as data[name] = value exactly as the property setter would store them',
    'Unicode: every generated character is a valid scalar value (no surrogates, no noncharacters) outside the excluded '
    'line-boundary set; an atom never contains a character str.isspace() accepts (checked at import; the few "inner '
    'blank" words carry U+00A0 / U+2002 / U+2007 / U+2009 / U+202F / U+205F / U+3000 / U+1680 strictly inside and are '
    'never used in patterns), so the existing "no outer blanks" / "whitespace-separated" rules apply unchanged; values '
    'are compared with == on str (code point for code point) - no normalisation on either side; which normal forms a '
    'value violates is computed with the interpreter\'s unicodedata for the COUNTERS only',
    'input forms: a document may be given as list of str lines with / without ends, StringIO, list of utf-8 byte lines '
    'with / without ends, ONE str, ONE utf-8 bytes object, BytesIO, a file opened "rb", a file opened in text mode with '
    'encoding="utf-8" named explicitly (scratch files in /dev/shm or the temp dir, removed at exit); Copyright() is '
    'always called with its default encoding="utf-8"; texts contain only \\n line ends, so str.splitlines / '
    'bytes.splitlines / file iteration cut at the same places',
    'raw multi-line values: first line without outer blanks (may be empty), every continuation line = marker (first '
    'character blank or TAB, then any run of blanks / tabs) + at least one non-blank + optional trailing blanks / tabs; '
    'established on the unchanged tree: Deb822 stores and returns such a value verbatim and dump() writes it verbatim, '
    'so p[name] and the unconverted properties (.copyright .comment .disclaimer .source) must return exactly what was '
    'written - the marker is part of the value',
    'raw-text documents are written by the generator\'s own writer in the layout the library itself uses ("Name: v", '
    '"Name:" when the first line is empty, one empty line between paragraphs); whether the FIRST dump of a parsed '
    'document equals that text is counted (raw:dump-equals-the-parsed-text), not judged: judged are the values after '
    'every parse and dump(parse(dump)) == dump; for the data route Files paragraphs precede License paragraphs (the '
    'documented insertion rule of add_files_paragraph is not modelled here), Format is the canonical URL',
    'raw License text: decoded reference = model_license (documented: first line synopsis, each further line loses ONE '
    'leading blank, a lone "." is an empty line) whenever every continuation line starts with a blank; if one starts '
    'with a TAB the unchanged tree raises MachineReadableFormatError from .license (recorded as '
    'raw:recorded:license-getter-on-tab-marked-text:*): neither raising nor any particular value is demanded then, only '
    'the SAME outcome (value or exception type) before and after dump + strict re-parse, and the raw text itself',
    'typed values of raw list fields: Files = raw.split() (whitespace-separated, continuation lines included), '
    'Upstream-Contact / Files-Excluded / Files-Included = non-empty stripped lines; a field that was not written reads '
    'as None / empty sequence',
    'refused assignments: the table of what is refused (model_refuses) was established on the unchanged tree by probing '
    'every setter with every value class and is the module\'s own: Files cannot be cleared (None, empty list / tuple / '
    'iterator / str) and takes an iterable of non-empty str without whitespace; Copyright / License of a Files paragraph, '
    'License of a License paragraph and Format of a header cannot be None (the other properties can: clearing them is an '
    'ordinary assignment, not in the table); a License property takes a License object only; Format / Upstream-Name take '
    'a single-line str; the line-based lists take an iterable of str that are non-blank single lines after stripping '
    '(an EMPTY list clears the field: not in the table); raw fields take a str that does not end in a newline and whose '
    'further lines are non-empty and start with a blank or TAB; item assignment / deletion through the mapping interface '
    'is refused for the restricted field names of the class in any letter case (other names are accepted: not in the '
    'table); refused strings contain no whitespace other than blank / TAB / newline; a spec entry the table does not '
    'list is outside the domain (nothing demanded)',
    'a refused assignment is an assignment that did not happen: the statement quantifies over documents built from valid '
    'values, so after it the paragraph must hold exactly the values the generator gave it before - typed getters '
    'compared with the SPEC, raw field texts / field order compared with a snapshot taken through the mapping interface '
    'immediately before the assignment (taken only after the typed values were found equal to the spec); whether the '
    'assignment raises and the exception type are recorded (refuse:raised:*, refuse:recorded:accepted-without-exception), '
    'never judged: an assignment that is accepted AND changes nothing is silent, one that changes the paragraph is '
    'reported whether or not it raised; the refused value itself is never mutated or reused by the harness (an iterator '
    'token is a fresh iterator each time)',
    'between two dumps: the first complete dump / strict re-parse cycle must have no finding before the refused '
    'assignments are made; no other assignment is made between the two dump() calls that are compared',
    'repeated patterns: the format does not forbid naming a pattern twice and the statement says "the same pattern '
    'lists": a list with repetitions reads back element for element (no de-duplication, no re-ordering)',
    'License.from_str(s).to_str() == s is only demanded for s = License(synopsis, text).to_str() of an in-domain '
    'License whose decoded value was already equal to the generator\'s (so only what the stated inverse law implies '
    'for a pure to_str is demanded); never for hand-written encoded strings',
]
ANCHORS = [
    'debian.copyright:format_multiline_lines',
    'debian.copyright:parse_multiline_as_lines',
    'debian.copyright:format_multiline',
    'debian.copyright:parse_multiline',
    'debian.copyright:License.from_str',
    'debian.copyright:License.to_str',
    'debian.copyright:_SpaceSeparated.from_str',
    'debian.copyright:_SpaceSeparated.to_str',
    'debian.copyright:_LineBased.from_str',
    'debian.copyright:_LineBased.to_str',
    'debian.copyright:Copyright.__init__',
    'debian.copyright:Copyright.dump',
    'debian.copyright:Copyright.add_files_paragraph',
    'debian.copyright:Copyright.add_license_paragraph',
    'debian.copyright:FilesParagraph.__init__',
    'debian.copyright:FilesParagraph.create',
    'debian.copyright:LicenseParagraph.__init__',
    'debian.copyright:LicenseParagraph.create',
    'debian.copyright:Header.__init__',
    'debian.copyright:FilesParagraph.files',          # the generated RestrictedField getter (shared code object)
    'debian.deb822:RestrictedWrapper.__init__',
    'debian.deb822:RestrictedWrapper.dump',
    'debian.deb822:Deb822._internal_parser',
    'debian.deb822:Deb822._dump_format',
]
MUST_REACH = [
    'debian.copyright:format_multiline_lines',
    'debian.copyright:parse_multiline_as_lines',
    'debian.copyright:License.from_str',
    'debian.copyright:License.to_str',
    'debian.copyright:_SpaceSeparated.from_str',
    'debian.copyright:_SpaceSeparated.to_str',
    'debian.copyright:_LineBased.from_str',
    'debian.copyright:_LineBased.to_str',
    'debian.copyright:Copyright.__init__',
    'debian.copyright:Copyright.dump',
    'debian.copyright:FilesParagraph.create',
    'debian.copyright:LicenseParagraph.create',
    'debian.copyright:FilesParagraph.files',
    'debian.deb822:RestrictedWrapper.dump',
]

DOCS = {'quick': 8400, 'thorough': 540000}
CODEC = {'quick': 200000, 'thorough': 11200000}
LICENSES = {'quick': 30000, 'thorough': 1400000}
FACTORY = {'quick': 1600, 'thorough': 80000}
MULTI = {'quick': 320, 'thorough': 16000}
HEADERDOCS = {'quick': 1600, 'thorough': 84000}
FORMAT_IN_ORDINARY_DOCS = 0.08       # share of the ordinary / factory documents that also get a non-default Format
LISTS = {'quick': 20000, 'thorough': 1000000}
# round-9 extension (non-normalised Unicode, odd continuation markers): totals per tier
UNIDOCS = {'quick': 640, 'thorough': 42000}
# round-10 extension (refused assignments, repeated patterns): seeded documents per tier (+ the fixed grid in every run)
REFUSEDOCS = {'quick': 800, 'thorough': 42000}
RAWDOCS = {'quick': 720, 'thorough': 56000}
ULISTS = {'quick': 1600, 'thorough': 84000}
UCODEC = {'quick': 6000, 'thorough': 420000}
ULICENSES = {'quick': 2000, 'thorough': 112000}
LIST_FIELD_CYCLE = ('files', 'files', 'files', 'upstream_contact', 'files_excluded', 'files_included')
CODEC_BATCH = 250
LICENSE_BATCH = 100
LIST_BATCH = 16

# minimum-reach floors: 50% (rounded down to two digits) of the minimum measured on the unchanged tree - quick: min over
# VERIF_SEED 0-3, thorough: seed 0 - regenerated after the round-5 extension for EVERY counter and monitor.  The
# lists:* / feat:punct-* / fact:* / multi:* counters and M.list* / M.watch / M.multi* / M.nonstrict* monitors make a
# run that never reaches the punctuated-list or the factory / shared-state classes INCONCLUSIVE; the perm:* /
# lic:common-indent* / M.perm* / M.license-enc floors do the same for the round-3 classes.  The two complete
# sub-spaces (codec:enumerated, lists:enumerated) are floored at their exact size.  No floor on the four
# feat:punct-*-lone-comma/-semicolon document counters (a few dozen per quick run; the lists:*:lone-* counters carry it).
# Round-8 extension (header formats / URL-ish header values): ALL floors regenerated the same way after DOCS quick went
# from 10000 to 9600 (pays for the 1600 header documents + 715 enumerated ones).  New: fmt:* (documents, every way of
# giving a Format, every class of value, way x class, URL shapes of the value, rewritten at construction / when parsed /
# on re-parse of an assigned spelling), feat:url-<field>-* for Source / Upstream-Name / Upstream-Contact / Disclaimer /
# Comment, and the monitors M.fmt, M.fmt-parsed(-value), M.second-round(-value): a run that never exercises the class
# is INCONCLUSIVE.  fmt:enumerated is floored at its exact size (146 values x 5 ways).  No floor on a NEW counter whose
# minimum measured was below 60 (a few way x class cells in the quick tier), none on fmt:unsplittable (0 on the
# unchanged tree) and none on the recorded:* counters (what the library logs / warns is its business).
# Round-9 extension (non-normalised Unicode / odd continuation markers): ALL floors regenerated the same way (quick: min
# over VERIF_SEED 0-3, thorough: seed 0; 50% rounded down to two digits) after DOCS quick went from 9600 to 9000 (pays
# for 640 Unicode documents x 5 input forms, 674 enumerated + 720 seeded raw-text documents, 1600 Unicode lists, 6000
# Unicode codec lists, 2000 Unicode licences).  New: monitors M.allforms(-value), M.raw(-value); counters uni:documents,
# uni:first-input:<form>, feat:uni-<class> / feat:marker-<class> (fed by the Unicode documents only), raw:via:*,
# raw:parsed-from:<form> and raw:dump-reparsed-from:<form> for all ten forms, raw:uni-<class>, raw:marker-<class>,
# raw:marker-in-<field>, raw:license-raw-*, lists:unicode:<field>, lists:uni-<class>, codec:uni-<class>, lic:uni-<class>:
# a run that never exercises the class is INCONCLUSIVE.  raw:enumerated(:atom/:marker) is floored at its exact size.  No
# floor on a new counter whose minimum measured was below 60 (uni:first-input:<one of the four old forms> in the quick
# tier), none on the raw:recorded:* / raw:dump-equals-the-parsed-text counters (counted, not judged).
FLOORS = {
    'quick': {'nontrivial': 61000,
        'monitors': {'K.codec': 190000, 'M.allforms': 1200, 'M.allforms-value': 21000, 'M.codec': 68000,
                     'M.codec-str': 51000, 'M.doc': 6700, 'M.fmt': 1500, 'M.fmt-parsed': 1200,
                     'M.fmt-parsed-value': 34000, 'M.license': 16000, 'M.license-enc': 16000, 'M.list': 12000,
                     'M.list-doc': 13000, 'M.list-kept': 12000, 'M.list-reassigned': 12000, 'M.list-reparsed': 12000,
                     'M.multi': 160, 'M.multi-doc': 440, 'M.multi-value': 16000, 'M.nonstrict': 3200,
                     'M.nonstrict-value': 58000, 'M.para': 25000, 'M.perm': 3900, 'M.perm-fixpoint': 3900,
                     'M.perm-para': 19000, 'M.perm-value': 89000, 'M.raw': 690, 'M.raw-value': 50000,
                     'M.second-round': 1500, 'M.second-round-value': 23000, 'M.value': 120000, 'M.watch': 360000},
        'counters': {'codec:enumerated': 16105, 'codec:uni-astral': 430,
                     'codec:uni-casefold-differs-from-lower': 710, 'codec:uni-cjk-compatibility': 420,
                     'codec:uni-combining-mark': 970, 'codec:uni-hangul-jamo': 430,
                     'codec:uni-inner-unicode-blank': 490, 'codec:uni-invisible': 550,
                     'codec:uni-ligature-fullwidth-superscript': 560, 'codec:uni-nfkc-differs': 1500,
                     'codec:uni-not-nfc': 1500, 'codec:uni-not-nfd': 1400, 'codec:uni-singleton': 680,
                     'codec:uni-utf8-byte-0x85': 720, 'codec:uni-utf8-byte-0xa0': 630, 'fact:decoy-files': 300,
                     'fact:decoy-header': 630, 'fact:decoy-license': 300, 'fact:early-reads': 3400,
                     'fact:files-paragraphs>=2': 3300, 'fact:late-after-first-dump': 380,
                     'fact:late-assignment': 950, 'fact:late:comment': 390, 'fact:late:files': 76,
                     'fact:late:header': 580, 'fact:late:license': 390,
                     'fact:license-created-before-a-files-paragraph': 1600,
                     'fact:license-paragraphs-fully-equal': 410, 'fact:license-paragraphs-with-equal-synopsis': 800,
                     'fact:license-paragraphs-with-equal-text': 630,
                     'fact:license-paragraphs-with-synopsis-equal-ignoring-case': 71,
                     'fact:license-paragraphs:2': 1100, 'fact:license-paragraphs:3': 950,
                     'fact:license-paragraphs:4': 110, 'fact:license-paragraphs:5': 100,
                     'fact:license-paragraphs>=2': 2300, 'fact:own-header-object': 720,
                     'fact:reused-license-object': 980, 'feat:common-indent': 1900, 'feat:contact-multi': 1700,
                     'feat:contact-single': 1200, 'feat:empty-line': 5400, 'feat:files-added-after-license': 2600,
                     'feat:files-list>120': 1700, 'feat:files-list>80': 3000, 'feat:files-multi': 4600,
                     'feat:files-paragraph': 5200, 'feat:files-single': 2100, 'feat:header-license': 1400,
                     'feat:indent': 5700, 'feat:license-paragraph': 4200, 'feat:marker-blank+tab': 140,
                     'feat:marker-blanks>=2': 140, 'feat:marker-blanks>=4': 190,
                     'feat:marker-dot-after-odd-marker': 130, 'feat:marker-mixed-blanks-and-tabs': 220,
                     'feat:marker-on-last-line': 300, 'feat:marker-one-tab': 77, 'feat:marker-tab+blank': 150,
                     'feat:marker-tabs>=2': 87, 'feat:marker-with-empty-first-line': 190,
                     'feat:marker-with-inner-tab': 140, 'feat:marker-with-trailing-blank-or-tab': 280,
                     'feat:non-ascii': 6000, 'feat:pattern-hyphen': 4400, 'feat:pattern>80': 1500,
                     'feat:punct-files-at-first-entry': 1700, 'feat:punct-files-at-last-entry': 1600,
                     'feat:punct-files-at-middle-entry': 2300, 'feat:punct-files-at-only-entry': 470,
                     'feat:punct-files-fullwidth-separator': 200, 'feat:punct-files-internal-comma': 960,
                     'feat:punct-files-internal-semicolon': 75, 'feat:punct-files-leading-comma': 110,
                     'feat:punct-files-leading-other': 2500, 'feat:punct-files-leading-semicolon': 57,
                     'feat:punct-files-only-punctuation': 2000, 'feat:punct-files-quote': 210,
                     'feat:punct-files-trailing-backslash': 830, 'feat:punct-files-trailing-colon': 97,
                     'feat:punct-files-trailing-comma': 230, 'feat:punct-files-trailing-dot': 870,
                     'feat:punct-files-trailing-other': 1100, 'feat:punct-files-trailing-semicolon': 130,
                     'feat:punct-lines-at-first-entry': 1900, 'feat:punct-lines-at-last-entry': 1900,
                     'feat:punct-lines-at-middle-entry': 1300, 'feat:punct-lines-at-only-entry': 1300,
                     'feat:punct-lines-fullwidth-separator': 130, 'feat:punct-lines-internal-comma': 1300,
                     'feat:punct-lines-internal-semicolon': 250, 'feat:punct-lines-leading-comma': 150,
                     'feat:punct-lines-leading-other': 1400, 'feat:punct-lines-leading-semicolon': 50,
                     'feat:punct-lines-only-punctuation': 540, 'feat:punct-lines-quote': 360,
                     'feat:punct-lines-trailing-backslash': 210, 'feat:punct-lines-trailing-colon': 160,
                     'feat:punct-lines-trailing-comma': 340, 'feat:punct-lines-trailing-dot': 360,
                     'feat:punct-lines-trailing-other': 2500, 'feat:punct-lines-trailing-semicolon': 120,
                     'feat:reassigned': 4400, 'feat:set-then-clear': 1100, 'feat:tab': 4700,
                     'feat:trailing-blank': 5600, 'feat:uni-astral': 210,
                     'feat:uni-casefold-differs-from-lower': 270, 'feat:uni-cjk-compatibility': 220,
                     'feat:uni-combining-mark': 290, 'feat:uni-hangul-jamo': 230,
                     'feat:uni-inner-unicode-blank': 210, 'feat:uni-invisible': 240,
                     'feat:uni-ligature-fullwidth-superscript': 260, 'feat:uni-nfkc-differs': 310,
                     'feat:uni-not-nfc': 310, 'feat:uni-not-nfd': 310, 'feat:uni-singleton': 270,
                     'feat:uni-utf8-byte-0x85': 280, 'feat:uni-utf8-byte-0xa0': 260,
                     'feat:url-comment-fragment': 230, 'feat:url-comment-http': 280, 'feat:url-comment-https': 160,
                     'feat:url-comment-inner-lead>=2': 200, 'feat:url-comment-inner-trailing-blank': 170,
                     'feat:url-comment-multi-line': 280, 'feat:url-comment-no-trailing-slash': 270,
                     'feat:url-comment-other-scheme': 140, 'feat:url-comment-query': 370,
                     'feat:url-comment-trailing-slash': 240, 'feat:url-disclaimer-fragment': 230,
                     'feat:url-disclaimer-http': 270, 'feat:url-disclaimer-https': 170,
                     'feat:url-disclaimer-inner-lead>=2': 180, 'feat:url-disclaimer-inner-trailing-blank': 180,
                     'feat:url-disclaimer-multi-line': 270, 'feat:url-disclaimer-no-trailing-slash': 270,
                     'feat:url-disclaimer-other-scheme': 140, 'feat:url-disclaimer-query': 360,
                     'feat:url-disclaimer-trailing-slash': 240, 'feat:url-source-fragment': 410,
                     'feat:url-source-http': 340, 'feat:url-source-https': 910, 'feat:url-source-inner-lead>=2': 250,
                     'feat:url-source-inner-trailing-blank': 250, 'feat:url-source-multi-line': 340,
                     'feat:url-source-no-trailing-slash': 940, 'feat:url-source-other-scheme': 240,
                     'feat:url-source-query': 480, 'feat:url-source-trailing-slash': 430,
                     'feat:url-upstream-contact-fragment': 190, 'feat:url-upstream-contact-http': 340,
                     'feat:url-upstream-contact-https': 140, 'feat:url-upstream-contact-multi-line': 310,
                     'feat:url-upstream-contact-no-trailing-slash': 330,
                     'feat:url-upstream-contact-other-scheme': 110, 'feat:url-upstream-contact-query': 430,
                     'feat:url-upstream-contact-trailing-slash': 220, 'feat:url-upstream-name-fragment': 100,
                     'feat:url-upstream-name-http': 170, 'feat:url-upstream-name-https': 83,
                     'feat:url-upstream-name-no-trailing-slash': 170, 'feat:url-upstream-name-other-scheme': 53,
                     'feat:url-upstream-name-query': 240, 'feat:url-upstream-name-trailing-slash': 140,
                     'fmt:assign-late-after-first-dump:near-known': 46, 'fmt:assign-late:near-known': 37,
                     'fmt:assign:canonical': 67, 'fmt:assign:dep5-historical': 160, 'fmt:assign:fixable-known': 140,
                     'fmt:assign:near-known': 240, 'fmt:assign:non-url': 97, 'fmt:assign:unknown-url': 160,
                     'fmt:assigned-spelling-rewritten-on-reparse': 160, 'fmt:class:canonical': 200,
                     'fmt:class:dep5-historical': 470, 'fmt:class:fixable-known': 420, 'fmt:class:near-known': 700,
                     'fmt:class:non-url': 350, 'fmt:class:unknown-url': 470, 'fmt:data:dep5-historical': 53,
                     'fmt:data:fixable-known': 47, 'fmt:data:near-known': 93, 'fmt:data:non-url': 45,
                     'fmt:data:unknown-url': 51, 'fmt:decoy-header:dep5-historical': 37,
                     'fmt:decoy-header:fixable-known': 34, 'fmt:decoy-header:near-known': 58,
                     'fmt:decoy-header:unknown-url': 36, 'fmt:documents': 1500, 'fmt:enumerated': 730,
                     'fmt:how:assign': 850, 'fmt:how:assign-late': 140, 'fmt:how:assign-late-after-first-dump': 170,
                     'fmt:how:data': 330, 'fmt:how:decoy-header': 220, 'fmt:how:parsed': 730,
                     'fmt:how:parsed-format-specification': 300,
                     'fmt:parsed-format-specification:dep5-historical': 52,
                     'fmt:parsed-format-specification:fixable-known': 46,
                     'fmt:parsed-format-specification:near-known': 85, 'fmt:parsed-format-specification:non-url': 46,
                     'fmt:parsed-format-specification:unknown-url': 50, 'fmt:parsed:canonical': 64,
                     'fmt:parsed:dep5-historical': 140, 'fmt:parsed:fixable-known': 130,
                     'fmt:parsed:near-known': 220, 'fmt:parsed:non-url': 91, 'fmt:parsed:unknown-url': 150,
                     'fmt:rewritten-at-construction': 47, 'fmt:rewritten-when-parsed': 190, 'fmt:url:fragment': 300,
                     'fmt:url:http': 840, 'fmt:url:https': 900, 'fmt:url:no-trailing-slash': 830,
                     'fmt:url:other-scheme': 160, 'fmt:url:query': 470, 'fmt:url:trailing-slash': 1000,
                     'input:bytes': 1600, 'input:keepends': 1600, 'input:noends': 1500, 'input:stringio': 1600,
                     'lic:common-indent': 2000, 'lic:common-indent-mixed': 590, 'lic:common-indent-space': 1000,
                     'lic:common-indent-tab': 360, 'lic:common-indent-with-empty-line': 660, 'lic:uni-astral': 240,
                     'lic:uni-casefold-differs-from-lower': 420, 'lic:uni-cjk-compatibility': 290,
                     'lic:uni-combining-mark': 590, 'lic:uni-hangul-jamo': 290, 'lic:uni-inner-unicode-blank': 300,
                     'lic:uni-invisible': 320, 'lic:uni-ligature-fullwidth-superscript': 460,
                     'lic:uni-nfkc-differs': 820, 'lic:uni-not-nfc': 820, 'lic:uni-not-nfd': 750,
                     'lic:uni-singleton': 420, 'lic:uni-utf8-byte-0x85': 420, 'lic:uni-utf8-byte-0xa0': 360,
                     'lists:enumerated': 2925, 'lists:files': 6600, 'lists:files:at-first-entry': 3600,
                     'lists:files:at-last-entry': 3600, 'lists:files:at-middle-entry': 3100,
                     'lists:files:at-only-entry': 880, 'lists:files:fullwidth-separator': 790,
                     'lists:files:internal-comma': 1600, 'lists:files:internal-semicolon': 270,
                     'lists:files:leading-comma': 630, 'lists:files:leading-other': 2300,
                     'lists:files:leading-semicolon': 200, 'lists:files:lone-comma': 330,
                     'lists:files:lone-semicolon': 330, 'lists:files:only-punctuation': 2400,
                     'lists:files:quote': 760, 'lists:files:trailing-backslash': 820,
                     'lists:files:trailing-colon': 570, 'lists:files:trailing-comma': 1300,
                     'lists:files:trailing-dot': 1000, 'lists:files:trailing-other': 2100,
                     'lists:files:trailing-semicolon': 700, 'lists:files_excluded': 1800,
                     'lists:files_included': 1800, 'lists:lines:at-first-entry': 3000,
                     'lists:lines:at-last-entry': 3000, 'lists:lines:at-middle-entry': 1500,
                     'lists:lines:at-only-entry': 1600, 'lists:lines:fullwidth-separator': 530,
                     'lists:lines:internal-comma': 2400, 'lists:lines:internal-semicolon': 940,
                     'lists:lines:leading-comma': 380, 'lists:lines:leading-other': 1600,
                     'lists:lines:leading-semicolon': 190, 'lists:lines:lone-comma': 67,
                     'lists:lines:lone-semicolon': 56, 'lists:lines:only-punctuation': 470, 'lists:lines:quote': 790,
                     'lists:lines:trailing-backslash': 310, 'lists:lines:trailing-colon': 410,
                     'lists:lines:trailing-comma': 1000, 'lists:lines:trailing-dot': 500,
                     'lists:lines:trailing-other': 2400, 'lists:lines:trailing-semicolon': 570,
                     'lists:uni-astral': 84, 'lists:uni-casefold-differs-from-lower': 150,
                     'lists:uni-cjk-compatibility': 85, 'lists:uni-combining-mark': 210, 'lists:uni-hangul-jamo': 87,
                     'lists:uni-invisible': 100, 'lists:uni-ligature-fullwidth-superscript': 120,
                     'lists:uni-nfkc-differs': 400, 'lists:uni-not-nfc': 430, 'lists:uni-not-nfd': 390,
                     'lists:uni-singleton': 130, 'lists:uni-utf8-byte-0x85': 140, 'lists:uni-utf8-byte-0xa0': 130,
                     'lists:unicode:files': 410, 'lists:unicode:files_excluded': 120,
                     'lists:unicode:files_included': 120, 'lists:unicode:upstream_contact': 120,
                     'lists:upstream_contact': 1800, 'multi:doc-with-license-paragraphs>=2': 320, 'multi:docs:2': 58,
                     'multi:docs:3': 64, 'multi:docs:4': 30, 'multi:equal-license-in-two-documents': 140,
                     'multi:reused-license-object': 400, 'perm-input:bytes': 950, 'perm-input:keepends': 950,
                     'perm-input:noends': 950, 'perm-input:stringio': 950, 'perm:all-licenses-before-all-files': 880,
                     'perm:files-after-license': 2600, 'perm:files-reordered-among-themselves': 2200,
                     'perm:license-before-first-files': 1700, 'perm:license-between-files': 1300,
                     'perm:licenses-reordered-among-themselves': 1500, 'raw:dump-reparsed-from:binary-file': 59,
                     'raw:dump-reparsed-from:bytes': 73, 'raw:dump-reparsed-from:bytes-doc': 69,
                     'raw:dump-reparsed-from:bytes-noends': 69, 'raw:dump-reparsed-from:bytesio': 64,
                     'raw:dump-reparsed-from:keepends': 64, 'raw:dump-reparsed-from:noends': 64,
                     'raw:dump-reparsed-from:str-doc': 73, 'raw:dump-reparsed-from:stringio': 53,
                     'raw:dump-reparsed-from:text-file': 70, 'raw:enumerated': 674, 'raw:enumerated:atom': 524,
                     'raw:enumerated:marker': 150, 'raw:license-raw-decodable': 580,
                     'raw:license-raw-tab-or-other-marker': 340, 'raw:marker-blank+tab': 500,
                     'raw:marker-blanks>=2': 540, 'raw:marker-blanks>=4': 540,
                     'raw:marker-dot-after-odd-marker': 520, 'raw:marker-in-comment': 540,
                     'raw:marker-in-copyright': 580, 'raw:marker-in-disclaimer': 330, 'raw:marker-in-files': 160,
                     'raw:marker-in-license': 640, 'raw:marker-in-source': 200,
                     'raw:marker-in-upstream-contact': 130, 'raw:marker-in-x-note': 130,
                     'raw:marker-in-x-origin': 170, 'raw:marker-mixed-blanks-and-tabs': 600,
                     'raw:marker-on-last-line': 690, 'raw:marker-one-tab': 290, 'raw:marker-tab+blank': 440,
                     'raw:marker-tabs>=2': 280, 'raw:marker-with-empty-first-line': 540,
                     'raw:marker-with-inner-tab': 310, 'raw:marker-with-trailing-blank-or-tab': 680,
                     'raw:parsed-from:binary-file': 35, 'raw:parsed-from:bytes': 33, 'raw:parsed-from:bytes-doc': 35,
                     'raw:parsed-from:bytes-noends': 33, 'raw:parsed-from:bytesio': 34,
                     'raw:parsed-from:keepends': 33, 'raw:parsed-from:noends': 35, 'raw:parsed-from:str-doc': 36,
                     'raw:parsed-from:stringio': 35, 'raw:parsed-from:text-file': 37, 'raw:uni-astral': 340,
                     'raw:uni-casefold-differs-from-lower': 470, 'raw:uni-cjk-compatibility': 370,
                     'raw:uni-combining-mark': 550, 'raw:uni-hangul-jamo': 370, 'raw:uni-inner-unicode-blank': 360,
                     'raw:uni-invisible': 390, 'raw:uni-ligature-fullwidth-superscript': 440,
                     'raw:uni-nfkc-differs': 650, 'raw:uni-not-nfc': 650, 'raw:uni-not-nfd': 640,
                     'raw:uni-singleton': 460, 'raw:uni-utf8-byte-0x85': 470, 'raw:uni-utf8-byte-0xa0': 440,
                     'raw:via:data': 310, 'raw:via:text': 370, 'uni:documents': 320,
                     'uni:first-input:binary-file': 37, 'uni:first-input:bytes-doc': 36,
                     'uni:first-input:bytes-noends': 44, 'uni:first-input:bytesio': 36,
                     'uni:first-input:str-doc': 39, 'uni:first-input:text-file': 39}},
    'thorough': {'nontrivial': 2500000,
        'monitors': {'K.codec': 10000000, 'M.allforms': 84000, 'M.allforms-value': 1400000, 'M.codec': 3700000,
                     'M.codec-str': 2700000, 'M.doc': 380000, 'M.fmt': 67000, 'M.fmt-parsed': 59000,
                     'M.fmt-parsed-value': 1800000, 'M.license': 750000, 'M.license-enc': 750000, 'M.list': 540000,
                     'M.list-doc': 570000, 'M.list-kept': 540000, 'M.list-reassigned': 540000,
                     'M.list-reparsed': 540000, 'M.multi': 7900, 'M.multi-doc': 22000, 'M.multi-value': 800000,
                     'M.nonstrict': 160000, 'M.nonstrict-value': 3100000, 'M.para': 1500000, 'M.perm': 240000,
                     'M.perm-fixpoint': 240000, 'M.perm-para': 1100000, 'M.perm-value': 5300000, 'M.raw': 28000,
                     'M.raw-value': 2000000, 'M.second-round': 67000, 'M.second-round-value': 1000000,
                     'M.value': 7400000, 'M.watch': 19000000},
        'counters': {'codec:enumerated': 16105, 'codec:uni-astral': 32000,
                     'codec:uni-casefold-differs-from-lower': 51000, 'codec:uni-cjk-compatibility': 32000,
                     'codec:uni-combining-mark': 70000, 'codec:uni-hangul-jamo': 32000,
                     'codec:uni-inner-unicode-blank': 37000, 'codec:uni-invisible': 40000,
                     'codec:uni-ligature-fullwidth-superscript': 41000, 'codec:uni-nfkc-differs': 110000,
                     'codec:uni-not-nfc': 100000, 'codec:uni-not-nfd': 100000, 'codec:uni-singleton': 49000,
                     'codec:uni-utf8-byte-0x85': 51000, 'codec:uni-utf8-byte-0xa0': 47000, 'fact:decoy-files': 15000,
                     'fact:decoy-header': 32000, 'fact:decoy-license': 15000, 'fact:early-reads': 190000,
                     'fact:files-paragraphs>=2': 190000, 'fact:late-after-first-dump': 18000,
                     'fact:late-assignment': 46000, 'fact:late:comment': 20000, 'fact:late:files': 4000,
                     'fact:late:header': 27000, 'fact:late:license': 20000,
                     'fact:license-created-before-a-files-paragraph': 98000,
                     'fact:license-paragraphs-fully-equal': 21000,
                     'fact:license-paragraphs-with-equal-synopsis': 42000,
                     'fact:license-paragraphs-with-equal-text': 33000,
                     'fact:license-paragraphs-with-synopsis-equal-ignoring-case': 3800,
                     'fact:license-paragraphs:2': 67000, 'fact:license-paragraphs:3': 57000,
                     'fact:license-paragraphs:4': 5600, 'fact:license-paragraphs:5': 5700,
                     'fact:license-paragraphs>=2': 130000, 'fact:own-header-object': 31000,
                     'fact:reused-license-object': 50000, 'feat:common-indent': 110000, 'feat:contact-multi': 100000,
                     'feat:contact-single': 73000, 'feat:empty-line': 320000,
                     'feat:files-added-after-license': 160000, 'feat:files-list>120': 110000,
                     'feat:files-list>80': 180000, 'feat:files-multi': 270000, 'feat:files-paragraph': 310000,
                     'feat:files-single': 120000, 'feat:header-license': 86000, 'feat:indent': 340000,
                     'feat:license-paragraph': 250000, 'feat:marker-blank+tab': 10000,
                     'feat:marker-blanks>=2': 10000, 'feat:marker-blanks>=4': 13000,
                     'feat:marker-dot-after-odd-marker': 9400, 'feat:marker-mixed-blanks-and-tabs': 15000,
                     'feat:marker-on-last-line': 20000, 'feat:marker-one-tab': 6100, 'feat:marker-tab+blank': 10000,
                     'feat:marker-tabs>=2': 6000, 'feat:marker-with-empty-first-line': 13000,
                     'feat:marker-with-inner-tab': 10000, 'feat:marker-with-trailing-blank-or-tab': 19000,
                     'feat:non-ascii': 360000, 'feat:pattern-hyphen': 270000, 'feat:pattern>80': 97000,
                     'feat:punct-files-at-first-entry': 100000, 'feat:punct-files-at-last-entry': 94000,
                     'feat:punct-files-at-middle-entry': 140000, 'feat:punct-files-at-only-entry': 27000,
                     'feat:punct-files-fullwidth-separator': 11000, 'feat:punct-files-internal-comma': 58000,
                     'feat:punct-files-internal-semicolon': 4100, 'feat:punct-files-leading-comma': 6000,
                     'feat:punct-files-leading-other': 150000, 'feat:punct-files-leading-semicolon': 3100,
                     'feat:punct-files-only-punctuation': 120000, 'feat:punct-files-quote': 10000,
                     'feat:punct-files-trailing-backslash': 51000, 'feat:punct-files-trailing-colon': 5200,
                     'feat:punct-files-trailing-comma': 12000, 'feat:punct-files-trailing-dot': 53000,
                     'feat:punct-files-trailing-other': 70000, 'feat:punct-files-trailing-semicolon': 7000,
                     'feat:punct-lines-at-first-entry': 110000, 'feat:punct-lines-at-last-entry': 110000,
                     'feat:punct-lines-at-middle-entry': 83000, 'feat:punct-lines-at-only-entry': 79000,
                     'feat:punct-lines-fullwidth-separator': 7200, 'feat:punct-lines-internal-comma': 80000,
                     'feat:punct-lines-internal-semicolon': 13000, 'feat:punct-lines-leading-comma': 9300,
                     'feat:punct-lines-leading-other': 86000, 'feat:punct-lines-leading-semicolon': 2700,
                     'feat:punct-lines-only-punctuation': 33000, 'feat:punct-lines-quote': 22000,
                     'feat:punct-lines-trailing-backslash': 12000, 'feat:punct-lines-trailing-colon': 9800,
                     'feat:punct-lines-trailing-comma': 19000, 'feat:punct-lines-trailing-dot': 21000,
                     'feat:punct-lines-trailing-other': 150000, 'feat:punct-lines-trailing-semicolon': 6900,
                     'feat:reassigned': 260000, 'feat:set-then-clear': 70000, 'feat:tab': 280000,
                     'feat:trailing-blank': 340000, 'feat:uni-astral': 14000,
                     'feat:uni-casefold-differs-from-lower': 18000, 'feat:uni-cjk-compatibility': 15000,
                     'feat:uni-combining-mark': 19000, 'feat:uni-hangul-jamo': 15000,
                     'feat:uni-inner-unicode-blank': 15000, 'feat:uni-invisible': 16000,
                     'feat:uni-ligature-fullwidth-superscript': 17000, 'feat:uni-nfkc-differs': 20000,
                     'feat:uni-not-nfc': 20000, 'feat:uni-not-nfd': 20000, 'feat:uni-singleton': 18000,
                     'feat:uni-utf8-byte-0x85': 18000, 'feat:uni-utf8-byte-0xa0': 17000,
                     'feat:url-comment-fragment': 12000, 'feat:url-comment-http': 16000,
                     'feat:url-comment-https': 9300, 'feat:url-comment-inner-lead>=2': 11000,
                     'feat:url-comment-inner-trailing-blank': 10000, 'feat:url-comment-multi-line': 16000,
                     'feat:url-comment-no-trailing-slash': 16000, 'feat:url-comment-other-scheme': 7700,
                     'feat:url-comment-query': 21000, 'feat:url-comment-trailing-slash': 13000,
                     'feat:url-disclaimer-fragment': 12000, 'feat:url-disclaimer-http': 15000,
                     'feat:url-disclaimer-https': 9400, 'feat:url-disclaimer-inner-lead>=2': 10000,
                     'feat:url-disclaimer-inner-trailing-blank': 9700, 'feat:url-disclaimer-multi-line': 15000,
                     'feat:url-disclaimer-no-trailing-slash': 15000, 'feat:url-disclaimer-other-scheme': 7700,
                     'feat:url-disclaimer-query': 20000, 'feat:url-disclaimer-trailing-slash': 13000,
                     'feat:url-source-fragment': 21000, 'feat:url-source-http': 19000,
                     'feat:url-source-https': 53000, 'feat:url-source-inner-lead>=2': 14000,
                     'feat:url-source-inner-trailing-blank': 13000, 'feat:url-source-multi-line': 19000,
                     'feat:url-source-no-trailing-slash': 55000, 'feat:url-source-other-scheme': 13000,
                     'feat:url-source-query': 26000, 'feat:url-source-trailing-slash': 22000,
                     'feat:url-upstream-contact-fragment': 11000, 'feat:url-upstream-contact-http': 21000,
                     'feat:url-upstream-contact-https': 7900, 'feat:url-upstream-contact-multi-line': 19000,
                     'feat:url-upstream-contact-no-trailing-slash': 20000,
                     'feat:url-upstream-contact-other-scheme': 6400, 'feat:url-upstream-contact-query': 25000,
                     'feat:url-upstream-contact-trailing-slash': 12000, 'feat:url-upstream-name-fragment': 6600,
                     'feat:url-upstream-name-http': 11000, 'feat:url-upstream-name-https': 4700,
                     'feat:url-upstream-name-no-trailing-slash': 10000, 'feat:url-upstream-name-other-scheme': 3000,
                     'feat:url-upstream-name-query': 15000, 'feat:url-upstream-name-trailing-slash': 8100,
                     'fmt:assign-late-after-first-dump:canonical': 560,
                     'fmt:assign-late-after-first-dump:dep5-historical': 1300,
                     'fmt:assign-late-after-first-dump:fixable-known': 1200,
                     'fmt:assign-late-after-first-dump:near-known': 1800,
                     'fmt:assign-late-after-first-dump:non-url': 690,
                     'fmt:assign-late-after-first-dump:unknown-url': 1300, 'fmt:assign-late:canonical': 550,
                     'fmt:assign-late:dep5-historical': 1300, 'fmt:assign-late:fixable-known': 1200,
                     'fmt:assign-late:near-known': 1800, 'fmt:assign-late:non-url': 670,
                     'fmt:assign-late:unknown-url': 1300, 'fmt:assign:canonical': 3800,
                     'fmt:assign:dep5-historical': 8900, 'fmt:assign:fixable-known': 8600,
                     'fmt:assign:near-known': 12000, 'fmt:assign:non-url': 4600, 'fmt:assign:unknown-url': 8900,
                     'fmt:assigned-spelling-rewritten-on-reparse': 9700, 'fmt:class:canonical': 11000,
                     'fmt:class:dep5-historical': 24000, 'fmt:class:fixable-known': 23000,
                     'fmt:class:near-known': 31000, 'fmt:class:non-url': 13000, 'fmt:class:unknown-url': 24000,
                     'fmt:data:canonical': 1100, 'fmt:data:dep5-historical': 2600, 'fmt:data:fixable-known': 2500,
                     'fmt:data:near-known': 3600, 'fmt:data:non-url': 1300, 'fmt:data:unknown-url': 2700,
                     'fmt:decoy-header:canonical': 990, 'fmt:decoy-header:dep5-historical': 2400,
                     'fmt:decoy-header:fixable-known': 2200, 'fmt:decoy-header:near-known': 3300,
                     'fmt:decoy-header:non-url': 1100, 'fmt:decoy-header:unknown-url': 2300, 'fmt:documents': 67000,
                     'fmt:enumerated': 730, 'fmt:how:assign': 43000, 'fmt:how:assign-late': 6900,
                     'fmt:how:assign-late-after-first-dump': 7000, 'fmt:how:data': 14000,
                     'fmt:how:decoy-header': 12000, 'fmt:how:parsed': 37000,
                     'fmt:how:parsed-format-specification': 13000, 'fmt:parsed-format-specification:canonical': 1000,
                     'fmt:parsed-format-specification:dep5-historical': 2500,
                     'fmt:parsed-format-specification:fixable-known': 2400,
                     'fmt:parsed-format-specification:near-known': 3500,
                     'fmt:parsed-format-specification:non-url': 1300,
                     'fmt:parsed-format-specification:unknown-url': 2500, 'fmt:parsed:canonical': 3600,
                     'fmt:parsed:dep5-historical': 8300, 'fmt:parsed:fixable-known': 7900,
                     'fmt:parsed:near-known': 11000, 'fmt:parsed:non-url': 4400, 'fmt:parsed:unknown-url': 8500,
                     'fmt:rewritten-at-construction': 2500, 'fmt:rewritten-when-parsed': 10000,
                     'fmt:url:fragment': 15000, 'fmt:url:http': 42000, 'fmt:url:https': 43000,
                     'fmt:url:no-trailing-slash': 41000, 'fmt:url:other-scheme': 8400, 'fmt:url:query': 24000,
                     'fmt:url:trailing-slash': 48000, 'input:bytes': 91000, 'input:keepends': 91000,
                     'input:noends': 91000, 'input:stringio': 91000, 'lic:common-indent': 94000,
                     'lic:common-indent-mixed': 28000, 'lic:common-indent-space': 48000,
                     'lic:common-indent-tab': 17000, 'lic:common-indent-with-empty-line': 32000,
                     'lic:uni-astral': 14000, 'lic:uni-casefold-differs-from-lower': 25000,
                     'lic:uni-cjk-compatibility': 17000, 'lic:uni-combining-mark': 33000,
                     'lic:uni-hangul-jamo': 17000, 'lic:uni-inner-unicode-blank': 17000, 'lic:uni-invisible': 18000,
                     'lic:uni-ligature-fullwidth-superscript': 26000, 'lic:uni-nfkc-differs': 46000,
                     'lic:uni-not-nfc': 46000, 'lic:uni-not-nfd': 42000, 'lic:uni-singleton': 24000,
                     'lic:uni-utf8-byte-0x85': 25000, 'lic:uni-utf8-byte-0xa0': 21000, 'lists:enumerated': 2925,
                     'lists:files': 270000, 'lists:files:at-first-entry': 130000,
                     'lists:files:at-last-entry': 130000, 'lists:files:at-middle-entry': 100000,
                     'lists:files:at-only-entry': 44000, 'lists:files:fullwidth-separator': 40000,
                     'lists:files:internal-comma': 59000, 'lists:files:internal-semicolon': 14000,
                     'lists:files:leading-comma': 20000, 'lists:files:leading-other': 110000,
                     'lists:files:leading-semicolon': 10000, 'lists:files:lone-comma': 4500,
                     'lists:files:lone-semicolon': 4500, 'lists:files:only-punctuation': 83000,
                     'lists:files:quote': 39000, 'lists:files:trailing-backslash': 30000,
                     'lists:files:trailing-colon': 17000, 'lists:files:trailing-comma': 46000,
                     'lists:files:trailing-dot': 37000, 'lists:files:trailing-other': 100000,
                     'lists:files:trailing-semicolon': 24000, 'lists:files_excluded': 90000,
                     'lists:files_included': 90000, 'lists:lines:at-first-entry': 140000,
                     'lists:lines:at-last-entry': 140000, 'lists:lines:at-middle-entry': 79000,
                     'lists:lines:at-only-entry': 83000, 'lists:lines:fullwidth-separator': 27000,
                     'lists:lines:internal-comma': 110000, 'lists:lines:internal-semicolon': 46000,
                     'lists:lines:leading-comma': 17000, 'lists:lines:leading-other': 85000,
                     'lists:lines:leading-semicolon': 10000, 'lists:lines:lone-comma': 1700,
                     'lists:lines:lone-semicolon': 1000, 'lists:lines:only-punctuation': 21000,
                     'lists:lines:quote': 40000, 'lists:lines:trailing-backslash': 13000,
                     'lists:lines:trailing-colon': 19000, 'lists:lines:trailing-comma': 49000,
                     'lists:lines:trailing-dot': 25000, 'lists:lines:trailing-other': 120000,
                     'lists:lines:trailing-semicolon': 26000, 'lists:uni-astral': 4700,
                     'lists:uni-casefold-differs-from-lower': 8100, 'lists:uni-cjk-compatibility': 4800,
                     'lists:uni-combining-mark': 12000, 'lists:uni-hangul-jamo': 4700,
                     'lists:uni-inner-unicode-blank': 1000, 'lists:uni-invisible': 6200,
                     'lists:uni-ligature-fullwidth-superscript': 6200, 'lists:uni-nfkc-differs': 21000,
                     'lists:uni-not-nfc': 22000, 'lists:uni-not-nfd': 20000, 'lists:uni-singleton': 7700,
                     'lists:uni-utf8-byte-0x85': 8000, 'lists:uni-utf8-byte-0xa0': 6800,
                     'lists:unicode:files': 21000, 'lists:unicode:files_excluded': 6900,
                     'lists:unicode:files_included': 6900, 'lists:unicode:upstream_contact': 6900,
                     'lists:upstream_contact': 90000, 'multi:doc-with-license-paragraphs>=2': 16000,
                     'multi:docs:2': 3200, 'multi:docs:3': 3200, 'multi:docs:4': 1500,
                     'multi:equal-license-in-two-documents': 7200, 'multi:reused-license-object': 22000,
                     'perm-input:bytes': 57000, 'perm-input:keepends': 57000, 'perm-input:noends': 57000,
                     'perm-input:stringio': 58000, 'perm:all-licenses-before-all-files': 54000,
                     'perm:files-after-license': 160000, 'perm:files-reordered-among-themselves': 130000,
                     'perm:license-before-first-files': 100000, 'perm:license-between-files': 80000,
                     'perm:licenses-reordered-among-themselves': 93000, 'raw:dump-reparsed-from:binary-file': 2800,
                     'raw:dump-reparsed-from:bytes': 2800, 'raw:dump-reparsed-from:bytes-doc': 2800,
                     'raw:dump-reparsed-from:bytes-noends': 2700, 'raw:dump-reparsed-from:bytesio': 2800,
                     'raw:dump-reparsed-from:keepends': 2900, 'raw:dump-reparsed-from:noends': 2800,
                     'raw:dump-reparsed-from:str-doc': 2800, 'raw:dump-reparsed-from:stringio': 2800,
                     'raw:dump-reparsed-from:text-file': 2800, 'raw:enumerated': 674, 'raw:enumerated:atom': 524,
                     'raw:enumerated:marker': 150, 'raw:license-raw-decodable': 24000,
                     'raw:license-raw-tab-or-other-marker': 14000, 'raw:marker-blank+tab': 22000,
                     'raw:marker-blanks>=2': 23000, 'raw:marker-blanks>=4': 23000,
                     'raw:marker-dot-after-odd-marker': 20000, 'raw:marker-in-comment': 22000,
                     'raw:marker-in-copyright': 23000, 'raw:marker-in-disclaimer': 13000,
                     'raw:marker-in-files': 6300, 'raw:marker-in-license': 26000, 'raw:marker-in-source': 8300,
                     'raw:marker-in-upstream-contact': 5600, 'raw:marker-in-x-note': 5600,
                     'raw:marker-in-x-origin': 7500, 'raw:marker-mixed-blanks-and-tabs': 26000,
                     'raw:marker-on-last-line': 28000, 'raw:marker-one-tab': 13000, 'raw:marker-tab+blank': 19000,
                     'raw:marker-tabs>=2': 13000, 'raw:marker-with-empty-first-line': 22000,
                     'raw:marker-with-inner-tab': 15000, 'raw:marker-with-trailing-blank-or-tab': 27000,
                     'raw:parsed-from:binary-file': 1600, 'raw:parsed-from:bytes': 1600,
                     'raw:parsed-from:bytes-doc': 1600, 'raw:parsed-from:bytes-noends': 1600,
                     'raw:parsed-from:bytesio': 1600, 'raw:parsed-from:keepends': 1600,
                     'raw:parsed-from:noends': 1600, 'raw:parsed-from:str-doc': 1600,
                     'raw:parsed-from:stringio': 1600, 'raw:parsed-from:text-file': 1700, 'raw:uni-astral': 17000,
                     'raw:uni-casefold-differs-from-lower': 22000, 'raw:uni-cjk-compatibility': 18000,
                     'raw:uni-combining-mark': 25000, 'raw:uni-hangul-jamo': 18000,
                     'raw:uni-inner-unicode-blank': 19000, 'raw:uni-invisible': 20000,
                     'raw:uni-ligature-fullwidth-superscript': 21000, 'raw:uni-nfkc-differs': 27000,
                     'raw:uni-not-nfc': 27000, 'raw:uni-not-nfd': 27000, 'raw:uni-singleton': 22000,
                     'raw:uni-utf8-byte-0x85': 22000, 'raw:uni-utf8-byte-0xa0': 21000, 'raw:via:data': 11000,
                     'raw:via:text': 16000, 'uni:documents': 21000, 'uni:first-input:binary-file': 2900,
                     'uni:first-input:bytes': 800, 'uni:first-input:bytes-doc': 2900,
                     'uni:first-input:bytes-noends': 2900, 'uni:first-input:bytesio': 2800,
                     'uni:first-input:keepends': 860, 'uni:first-input:noends': 830, 'uni:first-input:str-doc': 2900,
                     'uni:first-input:stringio': 870, 'uni:first-input:text-file': 2900}},
}

# Round-10 extension (refused assignments / repeated patterns): the older floors were NOT regenerated (DOCS quick went
# from 9000 to 8400, 7% below what they were measured with - they sit at 50%); the floors below are NEW and were
# produced the same way (quick: min over VERIF_SEED 0-3, thorough: seed 0; 50% rounded down to two digits).  Monitors
# M.refuse (refused assignments judged) / M.refuse-value (typed + raw values compared after them); counters refuse:stage:*,
# refuse:target:*, refuse:raised:<exception>, refuse:property:<class>.<property>, refuse:value:<class of value>,
# repeat:<create|assigned>:*: a run that never makes a refused assignment (or never repeats a pattern) is INCONCLUSIVE.
# refuse:enumerated is floored at its exact size (every refused value x every stage).  No floor on a per-cell counter
# refuse:<class>.<property>:<value> / repeat:assigned-late:* whose minimum was below 60 (the grid carries them), none on
# refuse:recorded:* (whether an assignment raised is recorded, not judged).
# Thorough: measured with 56000 seeded refusal documents, then REFUSEDOCS thorough was set to 42000 (and DOCS thorough
# 560000 -> 540000) to keep the tier inside its time budget; the thorough floors below are 37.5% of the measured values
# (= 50% of three quarters), every per-cell counter included (all were above 60).
_R10_FLOORS = {
    'quick': {'monitors': {'M.refuse': 1400, 'M.refuse-value': 13000},
        'counters': {
                     'refuse:F.[]:item-del': 31, 'refuse:F.[]:item-set': 31, 'refuse:H.[]:item-del': 33,
                     'refuse:H.[]:item-set': 36, 'refuse:H.format:multi-line-str': 35,
                     'refuse:H.upstream_name:multi-line-str': 31, 'refuse:L.[]:item-del': 41,
                     'refuse:L.[]:item-set': 44, 'refuse:L.license:str-instead-of-license': 43,
                     'refuse:document-dumped-before-and-after': 300, 'refuse:documents': 790, 'refuse:enumerated': 796,
                     'refuse:property:F.[]': 63, 'refuse:property:F.comment': 61, 'refuse:property:F.copyright': 61,
                     'refuse:property:F.files': 170, 'refuse:property:F.license': 56, 'refuse:property:H.[]': 69,
                     'refuse:property:H.comment': 41, 'refuse:property:H.copyright': 49,
                     'refuse:property:H.disclaimer': 44, 'refuse:property:H.files_excluded': 57,
                     'refuse:property:H.files_included': 56, 'refuse:property:H.format': 69,
                     'refuse:property:H.license': 40, 'refuse:property:H.source': 49,
                     'refuse:property:H.upstream_contact': 58, 'refuse:property:H.upstream_name': 35,
                     'refuse:property:L.[]': 94, 'refuse:property:L.comment': 89, 'refuse:property:L.license': 150,
                     'refuse:raised:AttributeError': 360, 'refuse:raised:MachineReadableFormatError': 340,
                     'refuse:raised:RestrictedFieldError': 230, 'refuse:raised:TypeError': 130,
                     'refuse:raised:ValueError': 300, 'refuse:stage:added': 190, 'refuse:stage:between': 370,
                     'refuse:stage:free': 430, 'refuse:stage:late': 390, 'refuse:target:added-files-paragraph': 300,
                     'refuse:target:added-license-paragraph': 230, 'refuse:target:free-files-paragraph': 100,
                     'refuse:target:free-header': 83, 'refuse:target:free-license-paragraph': 76,
                     'refuse:target:header-of-document': 530, 'refuse:value:blank-only-entry': 24,
                     'refuse:value:blank-only-entry-after-valid-entries': 27, 'refuse:value:empty-entry': 33,
                     'refuse:value:empty-entry-after-valid-entries': 40, 'refuse:value:empty-iter': 4,
                     'refuse:value:empty-list': 5, 'refuse:value:entry-with-blank': 23,
                     'refuse:value:entry-with-blank-after-valid-entries': 24, 'refuse:value:entry-with-newline': 20,
                     'refuse:value:entry-with-newline-after-valid-entries': 23, 'refuse:value:int': 98,
                     'refuse:value:int-entry': 13, 'refuse:value:item-del': 110, 'refuse:value:item-set': 110,
                     'refuse:value:list-instead-of-license': 38, 'refuse:value:list-instead-of-str': 36,
                     'refuse:value:multi-line-str': 73, 'refuse:value:none': 53, 'refuse:value:none-entry': 30,
                     'refuse:value:pair-instead-of-license': 34, 'refuse:value:raw-ends-in-newline': 100,
                     'refuse:value:raw-unindented-continuation': 100, 'refuse:value:raw-with-empty-line': 95,
                     'refuse:value:str-instead-of-license': 71, 'refuse:value:str-instead-of-list': 30,
                     'refuse:value:tuple-instead-of-license': 36, 'refuse:value:tuple-instead-of-str': 38,
                     'repeat:assigned:all-patterns-equal': 44, 'repeat:assigned:pattern-three-times-or-more': 41,
                     'repeat:assigned:repeated-pattern': 240, 'repeat:assigned:repeated-pattern-adjacent': 130,
                     'repeat:assigned:repeated-pattern-apart': 130, 'repeat:create:all-patterns-equal': 120,
                     'repeat:create:pattern-three-times-or-more': 150, 'repeat:create:repeated-pattern': 1700,
                     'repeat:create:repeated-pattern-adjacent': 670, 'repeat:create:repeated-pattern-apart': 1200}},
    'thorough': {'monitors': {'M.refuse': 54000, 'M.refuse-value': 460000},
        'counters': {
                     'refuse:F.[]:item-del': 1200, 'refuse:F.[]:item-set': 1200, 'refuse:F.comment:int': 190,
                     'refuse:F.comment:list-instead-of-str': 200, 'refuse:F.comment:raw-ends-in-newline': 650,
                     'refuse:F.comment:raw-unindented-continuation': 610, 'refuse:F.comment:raw-with-empty-line': 620,
                     'refuse:F.comment:tuple-instead-of-str': 200, 'refuse:F.copyright:int': 190,
                     'refuse:F.copyright:list-instead-of-str': 180, 'refuse:F.copyright:none': 190,
                     'refuse:F.copyright:raw-ends-in-newline': 600,
                     'refuse:F.copyright:raw-unindented-continuation': 590,
                     'refuse:F.copyright:raw-with-empty-line': 580, 'refuse:F.copyright:tuple-instead-of-str': 190,
                     'refuse:F.files:blank-only-entry': 370, 'refuse:F.files:blank-only-entry-after-valid-entries': 600,
                     'refuse:F.files:empty-entry': 540, 'refuse:F.files:empty-entry-after-valid-entries': 790,
                     'refuse:F.files:empty-iter': 190, 'refuse:F.files:empty-list': 190,
                     'refuse:F.files:empty-str': 190, 'refuse:F.files:empty-tuple': 190,
                     'refuse:F.files:entry-with-blank': 910,
                     'refuse:F.files:entry-with-blank-after-valid-entries': 1200,
                     'refuse:F.files:entry-with-newline': 370,
                     'refuse:F.files:entry-with-newline-after-valid-entries': 420, 'refuse:F.files:int': 170,
                     'refuse:F.files:int-entry': 190, 'refuse:F.files:none': 210, 'refuse:F.files:none-entry': 400,
                     'refuse:F.files:str-instead-of-list': 400, 'refuse:F.license:int': 360,
                     'refuse:F.license:list-instead-of-license': 350, 'refuse:F.license:none': 360,
                     'refuse:F.license:pair-instead-of-license': 360, 'refuse:F.license:str-instead-of-license': 700,
                     'refuse:F.license:tuple-instead-of-license': 360, 'refuse:H.[]:item-del': 860,
                     'refuse:H.[]:item-set': 850, 'refuse:H.comment:int': 140,
                     'refuse:H.comment:list-instead-of-str': 140, 'refuse:H.comment:raw-ends-in-newline': 430,
                     'refuse:H.comment:raw-unindented-continuation': 450, 'refuse:H.comment:raw-with-empty-line': 430,
                     'refuse:H.comment:tuple-instead-of-str': 140, 'refuse:H.copyright:int': 150,
                     'refuse:H.copyright:list-instead-of-str': 130, 'refuse:H.copyright:raw-ends-in-newline': 430,
                     'refuse:H.copyright:raw-unindented-continuation': 440,
                     'refuse:H.copyright:raw-with-empty-line': 420, 'refuse:H.copyright:tuple-instead-of-str': 140,
                     'refuse:H.disclaimer:int': 140, 'refuse:H.disclaimer:list-instead-of-str': 130,
                     'refuse:H.disclaimer:raw-ends-in-newline': 420,
                     'refuse:H.disclaimer:raw-unindented-continuation': 450,
                     'refuse:H.disclaimer:raw-with-empty-line': 430, 'refuse:H.disclaimer:tuple-instead-of-str': 120,
                     'refuse:H.files_excluded:blank-only-entry': 190,
                     'refuse:H.files_excluded:blank-only-entry-after-valid-entries': 270,
                     'refuse:H.files_excluded:empty-entry': 220,
                     'refuse:H.files_excluded:empty-entry-after-valid-entries': 240,
                     'refuse:H.files_excluded:entry-with-newline': 110,
                     'refuse:H.files_excluded:entry-with-newline-after-valid-entries': 180,
                     'refuse:H.files_excluded:int': 83, 'refuse:H.files_excluded:int-entry': 74,
                     'refuse:H.files_excluded:none-entry': 160, 'refuse:H.files_excluded:str-instead-of-list': 150,
                     'refuse:H.files_included:blank-only-entry': 190,
                     'refuse:H.files_included:blank-only-entry-after-valid-entries': 280,
                     'refuse:H.files_included:empty-entry': 210,
                     'refuse:H.files_included:empty-entry-after-valid-entries': 270,
                     'refuse:H.files_included:entry-with-newline': 130,
                     'refuse:H.files_included:entry-with-newline-after-valid-entries': 190,
                     'refuse:H.files_included:int': 85, 'refuse:H.files_included:int-entry': 90,
                     'refuse:H.files_included:none-entry': 160, 'refuse:H.files_included:str-instead-of-list': 160,
                     'refuse:H.format:int': 690, 'refuse:H.format:multi-line-str': 2100, 'refuse:H.format:none': 690,
                     'refuse:H.license:int': 280, 'refuse:H.license:list-instead-of-license': 290,
                     'refuse:H.license:pair-instead-of-license': 320, 'refuse:H.license:str-instead-of-license': 590,
                     'refuse:H.license:tuple-instead-of-license': 280, 'refuse:H.source:int': 140,
                     'refuse:H.source:list-instead-of-str': 130, 'refuse:H.source:raw-ends-in-newline': 440,
                     'refuse:H.source:raw-unindented-continuation': 450, 'refuse:H.source:raw-with-empty-line': 420,
                     'refuse:H.source:tuple-instead-of-str': 140, 'refuse:H.upstream_contact:blank-only-entry': 180,
                     'refuse:H.upstream_contact:blank-only-entry-after-valid-entries': 280,
                     'refuse:H.upstream_contact:empty-entry': 220,
                     'refuse:H.upstream_contact:empty-entry-after-valid-entries': 250,
                     'refuse:H.upstream_contact:entry-with-newline': 130,
                     'refuse:H.upstream_contact:entry-with-newline-after-valid-entries': 180,
                     'refuse:H.upstream_contact:int': 84, 'refuse:H.upstream_contact:int-entry': 78,
                     'refuse:H.upstream_contact:none-entry': 140, 'refuse:H.upstream_contact:str-instead-of-list': 160,
                     'refuse:H.upstream_name:int': 320, 'refuse:H.upstream_name:multi-line-str': 1300,
                     'refuse:L.[]:item-del': 1900, 'refuse:L.[]:item-set': 1900, 'refuse:L.comment:int': 320,
                     'refuse:L.comment:list-instead-of-str': 330, 'refuse:L.comment:raw-ends-in-newline': 980,
                     'refuse:L.comment:raw-unindented-continuation': 1000, 'refuse:L.comment:raw-with-empty-line': 980,
                     'refuse:L.comment:tuple-instead-of-str': 320, 'refuse:L.license:int': 1100,
                     'refuse:L.license:list-instead-of-license': 1100, 'refuse:L.license:none': 1100,
                     'refuse:L.license:pair-instead-of-license': 1000, 'refuse:L.license:str-instead-of-license': 2200,
                     'refuse:L.license:tuple-instead-of-license': 1100,
                     'refuse:document-dumped-before-and-after': 11000, 'refuse:documents': 21000,
                     'refuse:enumerated': 796, 'refuse:property:F.[]': 2500, 'refuse:property:F.comment': 2500,
                     'refuse:property:F.copyright': 2500, 'refuse:property:F.files': 7400,
                     'refuse:property:F.license': 2500, 'refuse:property:H.[]': 1700, 'refuse:property:H.comment': 1700,
                     'refuse:property:H.copyright': 1700, 'refuse:property:H.disclaimer': 1700,
                     'refuse:property:H.files_excluded': 1700, 'refuse:property:H.files_included': 1800,
                     'refuse:property:H.format': 3500, 'refuse:property:H.license': 1700,
                     'refuse:property:H.source': 1700, 'refuse:property:H.upstream_contact': 1700,
                     'refuse:property:H.upstream_name': 1700, 'refuse:property:L.[]': 3800,
                     'refuse:property:L.comment': 3900, 'refuse:property:L.license': 7700,
                     'refuse:raised:AttributeError': 15000, 'refuse:raised:MachineReadableFormatError': 13000,
                     'refuse:raised:RestrictedFieldError': 8100, 'refuse:raised:TypeError': 5400,
                     'refuse:raised:ValueError': 11000, 'refuse:stage:added': 8200, 'refuse:stage:between': 15000,
                     'refuse:stage:free': 15000, 'refuse:stage:late': 15000,
                     'refuse:target:added-files-paragraph': 12000, 'refuse:target:added-license-paragraph': 10000,
                     'refuse:target:decoy-files-paragraph': 1400, 'refuse:target:decoy-license-paragraph': 1300,
                     'refuse:target:free-files-paragraph': 4000, 'refuse:target:free-header': 1600,
                     'refuse:target:free-license-paragraph': 3500, 'refuse:target:header-of-document': 19000,
                     'refuse:value:blank-only-entry': 950, 'refuse:value:blank-only-entry-after-valid-entries': 1400,
                     'refuse:value:empty-entry': 1200, 'refuse:value:empty-entry-after-valid-entries': 1500,
                     'refuse:value:empty-iter': 190, 'refuse:value:empty-list': 190, 'refuse:value:empty-str': 190,
                     'refuse:value:empty-tuple': 190, 'refuse:value:entry-with-blank': 910,
                     'refuse:value:entry-with-blank-after-valid-entries': 1200, 'refuse:value:entry-with-newline': 760,
                     'refuse:value:entry-with-newline-after-valid-entries': 980, 'refuse:value:int': 4500,
                     'refuse:value:int-entry': 440, 'refuse:value:item-del': 4000, 'refuse:value:item-set': 4000,
                     'refuse:value:list-instead-of-license': 1700, 'refuse:value:list-instead-of-str': 1200,
                     'refuse:value:multi-line-str': 3500, 'refuse:value:none': 2500, 'refuse:value:none-entry': 870,
                     'refuse:value:pair-instead-of-license': 1700, 'refuse:value:raw-ends-in-newline': 3900,
                     'refuse:value:raw-unindented-continuation': 4000, 'refuse:value:raw-with-empty-line': 3900,
                     'refuse:value:str-instead-of-license': 3500, 'refuse:value:str-instead-of-list': 880,
                     'refuse:value:tuple-instead-of-license': 1700, 'refuse:value:tuple-instead-of-str': 1200,
                     'repeat:assigned-late:all-patterns-equal': 140,
                     'repeat:assigned-late:pattern-three-times-or-more': 100,
                     'repeat:assigned-late:repeated-pattern': 670,
                     'repeat:assigned-late:repeated-pattern-adjacent': 400,
                     'repeat:assigned-late:repeated-pattern-apart': 320, 'repeat:assigned:all-patterns-equal': 2300,
                     'repeat:assigned:pattern-three-times-or-more': 2200, 'repeat:assigned:repeated-pattern': 12000,
                     'repeat:assigned:repeated-pattern-adjacent': 7600, 'repeat:assigned:repeated-pattern-apart': 7100,
                     'repeat:create:all-patterns-equal': 6300, 'repeat:create:pattern-three-times-or-more': 7700,
                     'repeat:create:repeated-pattern': 66000, 'repeat:create:repeated-pattern-adjacent': 34000,
                     'repeat:create:repeated-pattern-apart': 42000}},
}
for _tier in _R10_FLOORS:
    FLOORS[_tier]['monitors'].update(_R10_FLOORS[_tier]['monitors'])
    FLOORS[_tier]['counters'].update(_R10_FLOORS[_tier]['counters'])

# round 11 (kind 'handout': long texts + caller-changed helper results): ~50% of the minimum over quick seeds 0-3; the
# thorough workload is 58 times the quick one, its floors are the quick ones x 25
_R11_QUICK = {
    'monitors': {'M.handout': 120, 'M.handout.doc': 200, 'M.handout.helper': 450, 'M.handout.kept': 330,
                 'M.handout.value': 6600},
    'counters': {'handout:mutations': 280, 'handout:reparses': 50, 'handout:helper:parse_lines': 160,
                 'handout:helper:parse': 50, 'handout:helper:format': 35, 'handout:helper:format_lines': 34,
                 'handout:helper:lic_from_str': 45, 'handout:helper:lic_roundtrip': 45, 'handout:helper:lic_to_str': 35,
                 'handout:mut:append': 26, 'handout:mut:clear': 26, 'handout:mut:del0': 26, 'handout:mut:extend': 26,
                 'handout:mut:insert': 26, 'handout:mut:pop': 26, 'handout:mut:reverse': 26, 'handout:mut:setitem': 26,
                 'handout:mut:slice': 26, 'handout:mut:sort': 26, 'handout:mut:upper': 26,
                 'handout:text-size:2k': 125, 'handout:text-size:4k': 165, 'handout:text-size:16k': 70,
                 'handout:used-text:2k': 70, 'handout:used-text:4k': 85, 'handout:used-text:16k': 33,
                 'handout:doc-size:4k': 60, 'handout:doc-size:16k': 85, 'handout:doc-size:64k+': 34}}
for _grp in ('monitors', 'counters'):
    FLOORS['quick'][_grp].update(_R11_QUICK[_grp])
    FLOORS['thorough'][_grp].update(dict((k, v * 25) for k, v in _R11_QUICK[_grp].items()))

# ---------------------------------------------------------------------------
# domain predicates (shared by generator, shrinker and replay)

# characters str.splitlines() treats as line boundaries (besides \n), plus NUL-ish trouble makers
_BAD_CHARS = set('\r\x0b\x0c\x1c\x1d\x1e\x85\u2028\u2029\x00')


def _clean(s):
    if not isinstance(s, str):
        return False
    for ch in s:
        if ch in _BAD_CHARS or 0xD800 <= ord(ch) <= 0xDFFF:
            return False
    return True


def _ws_only(line):
    return line != '' and line.strip() == ''


def codec_domain(lines):
    """The stated precondition: no line is whitespace-only or a lone '.'
    (and every element really is one line)."""
    for l in lines:
        if not _clean(l) or '\n' in l:
            return False
        if _ws_only(l) or l == '.':
            return False
    return True


def text_ok(text):
    """Free-form text (License.text): \\n-joined lines, last line non-blank."""
    if not _clean(text):
        return False
    if text == '':
        return True
    lines = text.split('\n')
    if lines[-1].strip() == '':
        return False
    return all(not _ws_only(l) and l != '.' for l in lines)


def single_ok(s, allow_empty=False):
    """Single-line value as the reader returns it (no outer blanks)."""
    if not _clean(s) or '\n' in s:
        return False
    if s != s.strip():
        return False
    return allow_empty or s != ''


def raw_ok(v):
    """Raw Deb822 value for an unconverted field: first line without outer
    blanks (may be empty), continuation lines start with ' ' or TAB and contain
    a non-blank character."""
    if not _clean(v):
        return False
    lines = v.split('\n')
    if lines[0] != lines[0].strip():
        return False
    for l in lines[1:]:
        if not l or l[0] not in ' \t' or l.strip() == '':
            return False
    return True


def license_ok(lic):
    return (isinstance(lic, list) and len(lic) == 2 and single_ok(lic[0], allow_empty=True)
            and text_ok(lic[1]))


def pattern_ok(p):
    return _clean(p) and p != '' and '\n' not in p and not any(ch.isspace() for ch in p)


def patterns_ok(ps):
    return isinstance(ps, list) and len(ps) >= 1 and all(pattern_ok(p) for p in ps)


def linelist_ok(vs):
    return isinstance(vs, list) and len(vs) >= 1 and all(single_ok(v) for v in vs)


# ---------------------------------------------------------------------------
# header Format values: the module's OWN reference (never the library's constants)

CUR_FORMAT = 'https://www.debian.org/doc/packaging-manuals/copyright-format/1.0/'
MODEL_KNOWN_FORMATS = frozenset([CUR_FORMAT])


def model_fixup(v):
    """What the unchanged tree does to a Format value when a Header object is
    CONSTRUCTED over data carrying it (Header(data), and therefore every parse):
    the documented fix-up of KNOWN formats only - a missing final '/' is added
    and a leading 'http:' becomes 'https:', and only if the result is a known
    format is the value rewritten to it; every other value is kept as it is.
    Assignment (header.format = v) rewrites nothing."""
    if v == CUR_FORMAT:
        return v
    f = v if v.endswith('/') else v + '/'
    if f.startswith('http:'):
        f = 'https:' + f[5:]
    return f if f in MODEL_KNOWN_FORMATS else v


def swap_format_line(text, cur, new_line):
    """`text` (a dump) with the line 'Format: <cur>' of its header paragraph (the
    lines before the first empty line) replaced by new_line; None unless that
    paragraph has exactly one such line."""
    lines = text.split('\n')
    try:
        end = lines.index('')
    except ValueError:
        end = len(lines)
    want = 'Format: ' + cur
    at = [i for i in range(end) if lines[i] == want]
    if len(at) != 1:
        return None
    lines[at[0]] = new_line
    return '\n'.join(lines)


# Deb822 field names of the header fields that may be put into the data object a Header is constructed over
DATA_FIELD_NAMES = {'upstream_name': 'Upstream-Name', 'source': 'Source', 'disclaimer': 'Disclaimer',
                    'comment': 'Comment', 'copyright': 'Copyright'}
PARSED_STYLES = ('format', 'format-specification')

HEADER_FIELDS = {
    # attr: (validator for non-None values, kind)
    'format': (single_ok, 'format'),
    'upstream_name': (single_ok, 'single'),
    'upstream_contact': (linelist_ok, 'lines'),
    'source': (raw_ok, 'raw'),
    'disclaimer': (raw_ok, 'raw'),
    'comment': (raw_ok, 'raw'),
    'license': (license_ok, 'license'),
    'copyright': (raw_ok, 'raw'),
    'files_excluded': (linelist_ok, 'lines'),
    'files_included': (linelist_ok, 'lines'),
}
FILES_FIELDS = {'files': (patterns_ok, 'patterns', False), 'copyright': (raw_ok, 'raw', False),
                'license': (license_ok, 'license', False), 'comment': (raw_ok, 'raw', True)}
LICENSE_FIELDS = {'license': (license_ok, 'license', False), 'comment': (raw_ok, 'raw', True)}
INPUTS = ('keepends', 'noends', 'stringio', 'bytes')
# round-9 extension: the other ways a document reaches the parser - as ONE str / ONE utf-8 bytes object, as byte lines
# without line ends, as a binary stream, as a real file opened in binary / in text mode (encoding given explicitly).
# The older workloads keep drawing from (and rotating within) INPUTS, so their seeded streams are unchanged.
MORE_INPUTS = ('str-doc', 'bytes-doc', 'bytes-noends', 'bytesio', 'binary-file', 'text-file')
ALL_INPUTS = INPUTS + MORE_INPUTS
BYTE_INPUTS = ('bytes', 'bytes-doc', 'bytes-noends', 'bytesio', 'binary-file')
ALLFORMS_OFFSETS = (1, 3, 5, 8)


# ---------------------------------------------------------------------------
# round-10 extension: REFUSED assignments (values a typed setter / the mapping interface rejects with an exception).
# The table below is the module's OWN statement of what the unchanged tree refuses (established by probing every
# setter with every value class; nothing here calls the library).  A refusal is spelled [stage, attr, token]:
#   stage  'free'    right after the paragraph was created and assigned (before it is added to the document; for the
#                    header: after the header assignments, before an own Header() is handed to the document)
#          'added'   right after the paragraph was added to the document (a decoy is never added: still free)
#          'late'    after every paragraph was created / added and the late assignments were made (before the final dump)
#          'between' after a complete dump / strict re-parse cycle of the document, before the final one
#   attr   a property name, or '[]' for the mapping interface (p[name] = v / del p[name])
#   token  [form, payload]: JSON spelling of the refused value
REFUSE_STAGES = ('free', 'added', 'late', 'between')
REFUSE_FORMS = ('none', 'list', 'tuple', 'iter', 'str', 'int', 'list+none', 'list+int', 'pair', 'item-set', 'item-del')
RESTRICTED_NAMES = {
    'F': ('Files', 'Copyright', 'License', 'Comment'),
    'L': ('License', 'Comment', 'Files'),
    'H': ('Format', 'Upstream-Name', 'Upstream-Contact', 'Source', 'Disclaimer', 'Comment', 'License', 'Copyright',
          'Files-Excluded', 'Files-Included'),
}


def _table_of(t):
    return HEADER_FIELDS if t == 'H' else FILES_FIELDS if t == 'F' else LICENSE_FIELDS if t == 'L' else None


def _allow_none(t, attr):
    if t == 'H':
        return attr != 'format'
    return _table_of(t)[attr][2]


def _payload_str_ok(s):
    """Strings inside refused values: clean characters; the only whitespace is blank, TAB, newline."""
    return _clean(s) and all(ch in ' \t\n' or not ch.isspace() for ch in s)


def token_ok(tok):
    if not isinstance(tok, list) or len(tok) != 2 or tok[0] not in REFUSE_FORMS:
        return False
    form, payload = tok
    if form == 'none':
        return payload is None
    if form == 'int':
        return isinstance(payload, int) and not isinstance(payload, bool)
    if form in ('str', 'item-del'):
        return isinstance(payload, str) and _payload_str_ok(payload)
    if form == 'item-set':
        return isinstance(payload, list) and len(payload) == 2 and all(isinstance(x, str) and _payload_str_ok(x) for x in payload)
    if form == 'pair':
        return isinstance(payload, list) and len(payload) == 2 and all(isinstance(x, str) and _payload_str_ok(x) for x in payload)
    return isinstance(payload, list) and all(isinstance(x, str) and _payload_str_ok(x) for x in payload)


def _has_ws(s):
    return any(ch in ' \t\n' for ch in s)


def model_refuses(t, attr, tok):
    """True when the unchanged tree answers this assignment with an exception (and changes nothing)."""
    form, payload = tok
    if attr == '[]':
        if form == 'item-set':
            return payload[0].lower() in [n.lower() for n in RESTRICTED_NAMES[t]]
        if form == 'item-del':
            return payload.lower() in [n.lower() for n in RESTRICTED_NAMES[t]]
        return False
    table = _table_of(t)
    if table is None or attr not in table or form in ('item-set', 'item-del'):
        return False
    kind = table[attr][1]
    if form == 'none':
        return not _allow_none(t, attr)
    if kind == 'patterns':
        # whitespace-separated list: an empty list cannot be written (the field cannot be cleared), an entry may not be
        # empty nor contain whitespace, the argument must be an iterable of str
        if form in ('list', 'tuple', 'iter'):
            return len(payload) == 0 or any(e == '' or _has_ws(e) for e in payload)
        if form == 'str':               # iterated character by character
            return payload == '' or _has_ws(payload)
        return form in ('list+none', 'list+int', 'int')
    if kind == 'lines':
        # one entry per line: an entry may not be blank nor span lines (after stripping); an EMPTY list clears the field
        if form in ('list', 'tuple', 'iter'):
            return any(e.strip() == '' or '\n' in e.strip() for e in payload)
        if form == 'str':
            return any(ch in ' \t\n' for ch in payload)
        return form in ('list+none', 'list+int', 'int')
    if kind == 'license':
        return form in ('str', 'int', 'list', 'tuple', 'pair', 'iter')          # anything that is not a License object
    if kind in ('single', 'format'):
        if form == 'str':
            return '\n' in payload
        return form == 'int'
    if kind == 'raw':
        if form == 'str':
            if payload.endswith('\n'):
                return True
            return any(l == '' or l[0] not in ' \t' for l in payload.split('\n')[1:])
        return form in ('int', 'list', 'tuple')
    return False


def token_value(tok):
    form, payload = tok
    if form == 'list':
        return list(payload)
    if form == 'tuple' or form == 'pair':
        return tuple(payload)
    if form == 'iter':
        return iter(list(payload))
    if form == 'list+none':
        return list(payload) + [None]
    if form == 'list+int':
        return list(payload) + [7]
    return payload              # none / str / int


def refuse_class(t, attr, tok):
    """Counter name of one refused value."""
    form, payload = tok
    if attr == '[]':
        return form
    kind = _table_of(t)[attr][1]
    if form == 'none':
        return 'none'
    if form in ('int', 'list+none', 'list+int'):
        return {'int': 'int', 'list+none': 'none-entry', 'list+int': 'int-entry'}[form]
    if kind in ('patterns', 'lines'):
        if form == 'str':
            return 'empty-str' if payload == '' else 'str-instead-of-list'
        if not payload:
            return 'empty-%s' % form
        bad = [i for i, e in enumerate(payload) if e.strip() == '' or (_has_ws(e) if kind == 'patterns' else '\n' in e.strip())]
        e = payload[bad[0]]
        what = ('empty-entry' if e == '' else 'blank-only-entry' if e.strip() == '' else
                'entry-with-newline' if '\n' in e else 'entry-with-blank')
        return what + ('-after-valid-entries' if bad[0] > 0 else '')
    if kind == 'license':
        return '%s-instead-of-license' % form
    if kind in ('single', 'format'):
        return 'multi-line-str'
    if form != 'str':
        return '%s-instead-of-str' % form
    if payload.endswith('\n'):
        return 'raw-ends-in-newline'
    if any(l == '' for l in payload.split('\n')[1:]):
        return 'raw-with-empty-line'
    return 'raw-unindented-continuation'


def refusals_ok(t, entries, decoy=False):
    if not isinstance(entries, list):
        return False
    for e in entries:
        if not isinstance(e, list) or len(e) != 3:
            return False
        stage, attr, tok = e
        if stage not in REFUSE_STAGES or (t == 'H' and stage == 'added'):
            return False
        if not isinstance(attr, str) or not token_ok(tok) or not model_refuses(t, attr, tok):
            return False
    return True


def all_refusals(case):
    """[(t, decoy, stage, attr, token)] of a spec."""
    res = [('H', False, s, a, k) for s, a, k in case.get('hrefuse', [])]
    for op in case.get('ops', []):
        for s, a, k in op.get('refuse', []):
            res.append((op['t'], bool(op.get('decoy')), s, a, k))
    return res


def _rot(mode, k):
    """The input form k steps after `mode`: within INPUTS for the four original forms (what the module always
    did), within ALL_INPUTS for the newer ones."""
    table = INPUTS if mode in INPUTS else ALL_INPUTS
    return table[(table.index(mode) + k) % len(table)]


def _flag_ok(v):
    return v in (0, 1, True, False, None)


def _assignments_ok(assignments):
    for attr, val in assignments:
        if attr not in HEADER_FIELDS:
            return False
        if val is None and attr == 'format':
            return False                 # Format cannot be cleared (allow_none=False): not a value of the domain
        if val is not None and not HEADER_FIELDS[attr][0](val):
            return False
    return True


def _hdata_ok(hd):
    if hd is None:
        return True
    if not isinstance(hd, dict) or not single_ok(hd.get('format')):
        return False
    pos = hd.get('pos', 0)
    if not isinstance(pos, int) or isinstance(pos, bool) or pos < 0:
        return False
    seen = set()
    for attr, val in hd.get('fields', []):
        if attr not in DATA_FIELD_NAMES or attr in seen or val is None or not HEADER_FIELDS[attr][0](val):
            return False
        seen.add(attr)
    return True


def _fmt_parsed_ok(entries):
    for v, style in entries:
        if not single_ok(v) or style not in PARSED_STYLES:
            return False
    return True


def real_ops(case):
    """The ops whose paragraph is added to the document (a 'decoy' paragraph is
    created through the same factory but never added)."""
    return [op for op in case.get('ops', []) if not op.get('decoy')]


def spec_in_domain(case):
    try:
        if case.get('input') not in ALL_INPUTS:
            return False
        if not _assignments_ok(case.get('header', [])):
            return False
        for assignments in case.get('hdecoys', []):
            if not _assignments_ok(assignments):
                return False
        if case.get('hdr') not in (None, 'own'):
            return False
        for flag in ('early', 'nonstrict', 'late_after_dump', 'second_round', 'allforms'):
            if not _flag_ok(case.get(flag)):
                return False
        if not _hdata_ok(case.get('hdata')) or not _fmt_parsed_ok(case.get('fmt_parsed', [])):
            return False
        if not refusals_ok('H', case.get('hrefuse', [])):
            return False
        for op in case.get('ops', []):
            table = FILES_FIELDS if op['t'] == 'F' else LICENSE_FIELDS if op['t'] == 'L' else None
            if table is None:
                return False
            if not refusals_ok(op['t'], op.get('refuse', [])):
                return False
            if op['t'] == 'F':
                if not (patterns_ok(op['files']) and raw_ok(op['copyright']) and license_ok(op['license'])):
                    return False
            else:
                if not license_ok(op['license']):
                    return False
            if 'pos' in op and (not isinstance(op['pos'], int) or isinstance(op['pos'], bool)):
                return False
            if not _flag_ok(op.get('decoy')) or not _flag_ok(op.get('reuse')):
                return False
            for attr, val in op.get('then', []):
                if attr not in table:
                    return False
                validator, _kind, allow_none = table[attr]
                if val is None:
                    if not allow_none:
                        return False
                elif not validator(val):
                    return False
        real = real_ops(case)
        for target, attr, val in case.get('late', []):
            if target == 'H':
                if not _assignments_ok([[attr, val]]):
                    return False
                continue
            if not isinstance(target, int) or isinstance(target, bool) or not 0 <= target < len(real):
                return False
            table = FILES_FIELDS if real[target]['t'] == 'F' else LICENSE_FIELDS
            if attr not in table:
                return False
            validator, _kind, allow_none = table[attr]
            if val is None:
                if not allow_none:
                    return False
            elif not validator(val):
                return False
        return True
    except (KeyError, TypeError, AttributeError, ValueError):
        return False


def multi_in_domain(case):
    docs = case.get('docs')
    return isinstance(docs, list) and 1 <= len(docs) <= 8 and all(
        isinstance(d, dict) and d.get('kind') == 'doc' and spec_in_domain(d) for d in docs)


LIST_FIELDS = {'files': 'patterns', 'upstream_contact': 'lines', 'files_excluded': 'lines', 'files_included': 'lines'}


def lists_in_domain(case):
    kind = LIST_FIELDS.get(case.get('field'))
    lists = case.get('lists')
    if kind is None or not isinstance(lists, list) or not lists:
        return False
    ok = patterns_ok if kind == 'patterns' else linelist_ok
    return all(ok(l) for l in lists)


# ---------------------------------------------------------------------------
# generators

WORDS = ['the', 'Software', 'is', 'provided', '"AS IS",', 'WITHOUT', 'WARRANTY', 'of', 'any', 'kind,', 'Copyright',
         '(C)', '2001-2014', 'Permission', 'hereby', 'granted,', 'free', 'charge,', 'to', 'person', 'obtaining', 'a',
         'copy', 'été', 'naïve', 'Ünïcödé', '©', '日本語',
         'Ωmega', '“quoted”', 'no\u00a0break', 'License:', 'Files:', 'Copyright:', '*', '#', '#x',
         'a:b', 'http://example.org/x?y=1', '<a@b.example>', '-----BEGIN', '.', '..', ',', '--', '-', '1.', 'x.',
         'GPL-2+', 'François', 'Müller', '\U0001f600']
FIXED_LINES = ['granted,  ', '-- ', 'granted, ', 'to deal in the Software without restriction,\t', '..', '. .', ' .',
               '. ', '.x', '...', ' ..', '#', '# comment-like', 'License: GPL-2+', 'Files: *', 'Comment:',
               'Format: x', '-----BEGIN PGP SIGNATURE-----', '-----END PGP SIGNATURE-----', ':', ': x', 'x:',
               '\u00a0', 'x \u00a0', '\u00a0x', '\t.', '.\t']
SYNOPSES = ['GPL-2+', 'MIT', 'Apache-2.0 or GPL-2', 'X', 'GPL-2+ with OpenSSL exception', 'Expat', '', '',
            'é-License', 'BSD-3-clause and/or Artistic', 'LGPL-2.1+, and MIT', 'public-domain', 'a:b', '#1',
            'GPL-2+ or Artistic-2.0, and BSD-3-clause', '.', '..', 'other-日本']
PATTERN_ATOMS = ['*', '?', 'debian/*', 'src/*.c', 'foo-bar/baz-*.h', '\\*', '\\?', '\\\\', 'é/*', 'a:b', '#x',
                 '.', '..', '-', '--', 'lib/x86_64-linux-gnu/*', 'po/*.po', 'doc/fdl-1.3.texi', 'm4/ax_*.m4',
                 'third-party/some-vendored-library-1.2.3/*', 'include/very_long_directory_name_without_hyphens/*',
                 'COPYING', 'src/a-b-c-d-e-f-g', 'tests/data/non-ascii-日本語/*', '*.[ch]', 'x,y',
                 '-leading-hyphen', 'trailing-hyphen-']
SEGMENTS = ['src', 'lib', 'third-party', 'some-vendored-library', 'include', 'x86_64-linux-gnu', 'very_long_name',
            'a-b', 'tests', 'data', 'non-free', 'contrib', 'python3-dist-packages', 'été', 'v1.2.3-rc1', '*',
            'foo?', 'node_modules', 'left-pad', 'is-even']


def gen_content(r, lo=1, hi=7):
    return ' '.join(r.choice(WORDS) for _ in range(r.randint(lo, hi)))


def gen_text_line(r):
    """One line of free-form text in the domain (not whitespace-only, not '.')."""
    while True:
        k = r.random()
        if k < 0.16:
            line = ''
        elif k < 0.28:
            line = ' ' * r.randint(1, 8) + gen_content(r, 1, 5)
        elif k < 0.34:
            line = '\t' * r.randint(1, 2) + gen_content(r, 1, 4)
        elif k < 0.46:
            line = gen_content(r, 1, 5) + r.choice([' ', '  ', '   ', '\t', ' \t', '\u00a0 '])
        elif k < 0.58:
            line = r.choice(FIXED_LINES)
        elif k < 0.62:
            line = ' ' * r.randint(1, 3) + gen_content(r, 1, 3) + ' ' * r.randint(1, 2)
        else:
            line = gen_content(r)
        if line == '' or (line.strip() != '' and line != '.'):
            return line


COMMON_INDENTS = [' ', '  ', '   ', '    ', '        ', '\t', '\t\t', ' \t', '\t ', '  \t']


def gen_common_indent_text(r):
    """A text in which every non-empty line starts with the same run of blanks /
    tabs (the class a dedenting or indentation-normalising codec destroys)."""
    indent = r.choice(COMMON_INDENTS)
    n = r.choice([2, 2, 3, 3, 4, 5, 6, 9, 20])
    lines = []
    for i in range(n):
        k = r.random()
        if k < 0.15 and 0 < i < n - 1:
            lines.append('')
            continue
        deeper = r.choice(['', '', '', ' ', '  ', '\t', '    '])
        tail = r.choice(['', '', '', '', ' ', '  ', '\t'])
        lines.append(indent + deeper + gen_content(r, 1, 5) + tail)
    return '\n'.join(lines)


def common_indent(lines):
    """The common leading blank/tab run of the non-empty lines ('' if none or if
    fewer than two non-empty lines)."""
    body = [l for l in lines if l != '']
    if len(body) < 2:
        return ''
    lead = body[0][:len(body[0]) - len(body[0].lstrip(' \t'))]
    for l in body[1:]:
        i = 0
        while i < len(lead) and i < len(l) and l[i] == lead[i]:
            i += 1
        lead = lead[:i]
        if not lead:
            return ''
    return lead


def gen_text(r, maxlines=9):
    k = r.random()
    if k < 0.12:
        return ''
    if k < 0.25:
        return gen_common_indent_text(r)
    if k < 0.30:
        n = r.randint(15, 40)
    else:
        n = r.randint(1, maxlines)
    lines = [gen_text_line(r) for _ in range(n)]
    while lines and lines[-1].strip() == '':
        lines.pop()
    return '\n'.join(lines)


def gen_single(r):
    while True:
        s = gen_content(r, 1, 4).strip()
        if s:
            return s


def gen_license(r):
    return [r.choice(SYNOPSES), gen_text(r)]


def encode_raw(first, rest, r=None):
    """The generator's own Deb822 value encoder for raw fields: first line as
    is; following lines get a blank (or, with r, blanks / a tab) in front, an
    empty line is written ' .'."""
    out = [first]
    common = None
    if r is not None and r.random() < 0.2:       # every continuation line gets the same lead
        common = r.choice([' ', '  ', '    ', '\t', ' \t', '           '])
    for l in rest:
        if l == '':
            out.append(' .')
        else:
            lead = ' '
            if common is not None:
                lead = common
            elif r is not None:
                lead = r.choice([' ', ' ', ' ', '  ', '\t', '           '])
            out.append(lead + l)
    return '\n'.join(out)


def gen_raw(r, maxlines=5, copyright_like=False):
    """Raw multi-line value in Deb822 form."""
    n = r.randint(1, maxlines)
    lines = []
    for _ in range(n):
        if copyright_like and r.random() < 0.6:
            l = '%d%s %s' % (r.randint(1990, 2024), r.choice(['', '-2014', ', 2016']), gen_content(r, 1, 3))
            if r.random() < 0.2:
                l += r.choice([' ', '  ', '\t'])
        else:
            l = gen_text_line(r)
        lines.append(l.lstrip(' \t') if l.strip() else l)
    # lines here are "logical" lines; continuation lines get their lead from encode_raw
    rest = [l for l in lines[1:]]
    first = lines[0].strip()
    if r.random() < 0.15:
        rest = lines
        first = ''
    return encode_raw(first, rest, r)


def gen_long_pattern(r, minlen, hyphens):
    segs = []
    while len('/'.join(segs)) < minlen:
        s = r.choice(SEGMENTS)
        if not hyphens:
            s = s.replace('-', '_')
        segs.append(s)
    return '/'.join(segs)


def gen_patterns(r):
    k = r.random()
    if k < 0.45:
        return [r.choice(PATTERN_ATOMS) for _ in range(r.randint(1, 5))]
    if k < 0.60:       # joined length beyond 80..120 columns
        target = r.choice([70, 81, 90, 100, 119, 121, 130, 160, 240])
        ps = []
        while len(' '.join(ps)) < target:
            ps.append(r.choice(PATTERN_ATOMS) if r.random() < 0.7 else gen_long_pattern(r, r.randint(10, 40), True))
        return ps
    if k < 0.72:       # one pattern longer than 80 characters
        return [gen_long_pattern(r, r.choice([81, 90, 121, 150]), r.random() < 0.6)]
    if k < 0.84:       # long pattern among others
        ps = [r.choice(PATTERN_ATOMS) for _ in range(r.randint(1, 4))]
        ps.insert(r.randint(0, len(ps)), gen_long_pattern(r, r.choice([60, 81, 100]), r.random() < 0.7))
        return ps
    # hyphen-rich short lists
    return [gen_long_pattern(r, r.randint(5, 30), True) for _ in range(r.randint(1, 6))]


def gen_linelist(r, kind):
    n = r.choice([1, 1, 2, 3, 4])
    if kind == 'contact':
        return ['%s <%s@example.org>' % (gen_single(r), r.choice(['a', 'b-c', 'd.e'])) if r.random() < 0.7
                else gen_single(r) for _ in range(n)]
    return [r.choice(PATTERN_ATOMS) for _ in range(n)]


def gen_header_value(r, attr):
    kind = HEADER_FIELDS[attr][1]
    if kind == 'single':
        return gen_single(r)
    if kind == 'lines':
        return gen_linelist(r, 'contact' if attr == 'upstream_contact' else 'patterns')
    if kind == 'license':
        return gen_license(r)
    if attr == 'source' and r.random() < 0.6:
        return 'https://example.org/' + r.choice(SEGMENTS).replace('*', 'x').replace('?', 'y')
    return gen_raw(r, 4, copyright_like=(attr == 'copyright'))


# the header fields gen_doc draws from, in the order it always used (the Format field has its own generators below)
GEN_HEADER_ATTRS = ('upstream_name', 'upstream_contact', 'source', 'disclaimer', 'comment', 'license', 'copyright',
                    'files_excluded', 'files_included')


def gen_doc(r):
    header = []
    attrs = [a for a in GEN_HEADER_ATTRS if r.random() < (0.5 if a in ('upstream_name', 'upstream_contact') else 0.22)]
    r.shuffle(attrs)
    for a in attrs:
        header.append([a, gen_header_value(r, a)])
        k = r.random()
        if k < 0.06:
            header.append([a, None])                       # set then clear
        elif k < 0.12:
            header.append([a, gen_header_value(r, a)])     # set twice
    ops = []
    nf = r.choice([0, 1, 1, 2, 2, 3, 4])
    nl = r.choice([0, 0, 1, 1, 2, 3])
    kinds = ['F'] * nf + ['L'] * nl
    r.shuffle(kinds)
    for t in kinds:
        if t == 'F':
            op = {'t': 'F', 'files': gen_patterns(r), 'copyright': gen_raw(r, 4, copyright_like=True),
                  'license': gen_license(r), 'then': []}
            table = FILES_FIELDS
        else:
            op = {'t': 'L', 'license': gen_license(r), 'then': []}
            table = LICENSE_FIELDS
        for attr in table:
            p = 0.3 if attr == 'comment' else 0.1
            if r.random() < p:
                kind = table[attr][1]
                if kind == 'patterns':
                    v = gen_patterns(r)
                elif kind == 'license':
                    v = gen_license(r)
                else:
                    v = gen_raw(r, 4, copyright_like=(attr == 'copyright'))
                op['then'].append([attr, v])
                if attr == 'comment' and r.random() < 0.15:
                    op['then'].append([attr, None])
        ops.append(op)
    # rank of each paragraph in the PERMUTED text derived from the dump (drawn last, so that the specs themselves
    # are the ones the module always generated); ties are broken by the order of addition
    for op in ops:
        op['pos'] = r.randrange(1000)
    return {'kind': 'doc', 'input': r.choice(INPUTS), 'header': header, 'ops': ops}


# ---------------------------------------------------------------------------
# list entries with separator-like punctuation (the class a "tolerant" list reader splits at or strips)

PUNCT_TAILS = [',', ';', ':', '.', '\\', ',', ';', ':', '.', '\\', ',,', '.,', ';.', '!', '?', ')', ']', '}', '"', "'",
               '|', '&', '=', '-', '+', '/', '\u3001', '\uff0c', '\uff1b', '\uff1a', '\u3002']
PUNCT_HEADS = [',', ',', ';', ':', '.', '\\', '(', '[', '{', '"', "'", '-', '!', '#', '=', '|', '\uff0c']
PUNCT_LONE = [',', ';', ',', ';', ':', '.', '\\\\', ',,', ';;', '::', '..', '...', '\\', '|', '&', '-', '"', "'", '""',
              "''", '()', '[]', '{}', '#', '!', '=', '\uff0c', '\u3001', ',;', '.,', ':,']
PUNCT_WHOLE = ['data/table_a,b,', 'a,b', 'x;y', 'k:v', 'a,b,c', 'a,,b', '{a,b}', '[a,b]', '(a;b)', 'a|b', 'a=b', "it's",
               '"a,b"', 'a\\,b', "'a", '"b', 'src/*.c,', 'debian/*;', '*,', '?;', '*.', '\\*,', 'lib/*.so.', 'C:',
               'c:\\', 'a\\\\', 'http://example.org/?a=1,2;3', 'data/table_a,b', ',a,', ';a;', 'a.,', 'x,y,', ',x,y']
PUNCT_STEMS = ['a', 'src/*.c', 'debian/*', 'data/table_a,b', 'foo-bar', '\u00e9', 'x.y', 'lib/*', '*', 'README',
               'doc/a_b', 'v1.0', '?', 'po/*.po']
# complete small sub-space: every list of 1..3 entries over this alphabet goes through the Files getter
PUNCT_ENUM = ['a', ',', ';', 'a,', ',a', 'a;', 'a:', 'a.', 'a\\', 'a,b', ':', '.', 'data/table_a,b,']
# line-based lists (Upstream-Contact, Files-Excluded, Files-Included): every list of 1..2 entries
PUNCT_ENUM_LINES = ['a', ',', ';', 'a,', ',a', 'a;', 'a:', 'a.', 'a\\', 'a, b', 'a ; b', 'A B <a@b.example>,', 'x y;']
LINE_ENTRIES = ['Jane Doe <jane@example.org>,', 'Doe, Jane <jd@example.org>', 'Doe, Jane; Roe, Richard', 'a, b', 'a ,b',
                'a ; b', 'x y;', 'x y:', 'x y.', 'x y\\', ', x', '; x', 'x ,', 'x  ,  y', 'a,b c,d', 'A. N. Other,',
                'see: AUTHORS;', '"Doe, J." <j@example.org>', 'one, two, three,', 'src/*.c, src/*.h', 'lib/*;']


def gen_punct_token(r):
    k = r.random()
    if k < 0.40:
        return r.choice(PUNCT_STEMS) + r.choice(PUNCT_TAILS)
    if k < 0.54:
        return r.choice(PUNCT_HEADS) + r.choice(PUNCT_STEMS)
    if k < 0.70:
        return r.choice(PUNCT_LONE)
    if k < 0.90:
        return r.choice(PUNCT_WHOLE)
    return r.choice(PUNCT_HEADS) + r.choice(PUNCT_STEMS) + r.choice(PUNCT_TAILS)


def gen_punct_patterns(r):
    """A pattern list in which at least one entry carries separator-like
    punctuation (first / middle / last / only position)."""
    n = r.choice([1, 1, 2, 2, 3, 3, 4, 5, 6])
    ps = [gen_punct_token(r) if r.random() < 0.55 else r.choice(PATTERN_ATOMS) for _ in range(n)]
    ps[r.choice([0, n - 1, r.randrange(n)])] = gen_punct_token(r)
    return ps


def gen_punct_entry(r):
    k = r.random()
    if k < 0.35:
        return r.choice(LINE_ENTRIES)
    if k < 0.65:
        return gen_punct_token(r)
    words = [gen_punct_token(r) if r.random() < 0.5 else r.choice(['x', 'Jane', 'Doe', '<a@b.example>', 'and'])
             for _ in range(r.randint(2, 4))]
    return r.choice([' ', ' ', ', ', ' ; ', '  ']).join(words).strip()


def gen_punct_linelist(r):
    n = r.choice([1, 1, 2, 2, 3, 4])
    es = [gen_punct_entry(r) if r.random() < 0.6 else gen_single(r) for _ in range(n)]
    es[r.choice([0, n - 1, r.randrange(n)])] = gen_punct_entry(r)
    return es


_ORDINARY = set('*?/_-')


def punct_classes(entry):
    """Separator-like punctuation classes one list entry shows (empty set: none)."""
    cls = set()
    if not entry:
        return cls
    last, first = entry[-1], entry[0]
    tails = {',': 'trailing-comma', ';': 'trailing-semicolon', ':': 'trailing-colon', '.': 'trailing-dot',
             '\\': 'trailing-backslash'}
    heads = {',': 'leading-comma', ';': 'leading-semicolon'}
    if entry in (',', ';'):
        cls.add('lone-comma' if entry == ',' else 'lone-semicolon')
    if all(not ch.isalnum() and ch not in _ORDINARY for ch in entry):
        cls.add('only-punctuation')
    if len(entry) > 1:
        if last in tails:
            cls.add(tails[last])
        elif not last.isalnum() and last not in _ORDINARY:
            cls.add('trailing-other')
        if first in heads:
            cls.add(heads[first])
        elif not first.isalnum() and first not in _ORDINARY and first != '.':
            cls.add('leading-other')
    inner = entry[1:-1]
    if ',' in inner:
        cls.add('internal-comma')
    if ';' in inner:
        cls.add('internal-semicolon')
    if any(ch in entry for ch in '\u3001\uff0c\uff1b\uff1a\u3002'):
        cls.add('fullwidth-separator')
    if '"' in entry or "'" in entry:
        cls.add('quote')
    return cls


def list_punct_classes(entries):
    """Classes over a whole list, plus the position of the punctuated entries."""
    cls = set()
    for i, e in enumerate(entries):
        pc = punct_classes(e)
        if pc:
            cls |= pc
            if len(entries) == 1:
                cls.add('at-only-entry')
            elif i == 0:
                cls.add('at-first-entry')
            elif i == len(entries) - 1:
                cls.add('at-last-entry')
            else:
                cls.add('at-middle-entry')
    return cls


# ---------------------------------------------------------------------------
# "factory" documents: several paragraphs / headers created by the same factories, values recurring between them

def _pool_license(r, syns, texts):
    return [r.choice(syns), r.choice(texts)]


def gen_factory_doc(r, pool=None, small=False):
    """A document with 2..5 stand-alone License paragraphs interleaved with Files
    paragraphs; licences / texts / pattern lists are drawn from a small per-case
    pool so that equal synopses, equal texts and fully equal values recur between
    paragraphs created by the same factory; some paragraphs (and Header objects)
    are created but never added (decoys); assignments happen late."""
    if pool is None:
        pool = gen_pool(r)
    syns, texts, plists = pool
    nl = r.choice([2, 2, 2, 3, 3, 4, 5]) if not small else r.choice([1, 2, 2, 3])
    nf = r.choice([0, 1, 2, 2, 3, 4]) if not small else r.choice([0, 1, 1, 2])
    kinds = ['F'] * nf + ['L'] * nl
    r.shuffle(kinds)
    ops = []
    for t in kinds:
        if t == 'F':
            files = list(r.choice(plists)) if r.random() < 0.5 else gen_punct_patterns(r)
            op = {'t': 'F', 'files': files, 'copyright': gen_raw(r, 3, copyright_like=True),
                  'license': _pool_license(r, syns, texts), 'then': []}
            if r.random() < 0.2:
                op['then'].append(['files', gen_punct_patterns(r) if r.random() < 0.7 else list(r.choice(plists))])
            if r.random() < 0.15:
                op['then'].append(['license', _pool_license(r, syns, texts)])
        else:
            op = {'t': 'L', 'license': _pool_license(r, syns, texts), 'then': []}
            if r.random() < 0.15:
                op['then'].append(['license', _pool_license(r, syns, texts)])
        if r.random() < 0.25:
            op['then'].append(['comment', gen_raw(r, 2)])
        if r.random() < 0.4:
            op['reuse'] = 1
        ops.append(op)
    # decoys: created through the same factories, never added
    for _ in range(r.choice([0, 0, 1, 1, 2])):
        if r.random() < 0.5:
            op = {'t': 'L', 'license': _pool_license(r, syns, texts), 'then': [], 'decoy': 1}
        else:
            op = {'t': 'F', 'files': gen_punct_patterns(r), 'copyright': gen_raw(r, 2, copyright_like=True),
                  'license': _pool_license(r, syns, texts), 'then': [], 'decoy': 1}
        if r.random() < 0.3:
            op['then'].append(['comment', gen_raw(r, 2)])
        ops.insert(r.randint(0, len(ops)), op)
    for op in ops:
        op['pos'] = r.randrange(1000)
    header = []
    for a in ('upstream_name', 'upstream_contact', 'files_excluded', 'files_included', 'license', 'comment'):
        if r.random() < (0.45 if a != 'comment' else 0.2):
            header.append([a, _gen_factory_header_value(r, a, syns, texts)])
    r.shuffle(header)
    case = {'kind': 'doc', 'input': r.choice(INPUTS), 'header': header, 'ops': ops,
            'early': int(r.random() < 0.6), 'nonstrict': 1}
    if r.random() < 0.5:
        case['hdr'] = 'own'
    hdecoys = []
    for _ in range(r.choice([0, 0, 1, 2])):
        assignments = []
        for a in ('upstream_name', 'upstream_contact', 'files_excluded', 'license'):
            if r.random() < 0.5:
                assignments.append([a, _gen_factory_header_value(r, a, syns, texts)])
        hdecoys.append(assignments)
    if hdecoys:
        case['hdecoys'] = hdecoys
    # late assignments (after every paragraph has been created and added)
    nreal = len([op for op in ops if not op.get('decoy')])
    late = []
    for _ in range(r.choice([0, 1, 1, 2, 3])):
        if r.random() < 0.2:
            a = r.choice(['upstream_name', 'upstream_contact', 'files_excluded', 'license'])
            late.append(['H', a, None if r.random() < 0.2 else _gen_factory_header_value(r, a, syns, texts)])
            continue
        k = r.randrange(nreal)
        t = [op for op in ops if not op.get('decoy')][k]['t']
        k2 = r.random()
        if k2 < 0.45:
            late.append([k, 'license', _pool_license(r, syns, texts)])
        elif k2 < 0.7 and t == 'F':
            late.append([k, 'files', gen_punct_patterns(r) if r.random() < 0.6 else list(r.choice(plists))])
        elif k2 < 0.9:
            late.append([k, 'comment', gen_raw(r, 2)])
        else:
            late.append([k, 'comment', None])
    if late:
        case['late'] = late
        if r.random() < 0.35:
            case['late_after_dump'] = 1
    return case


def _gen_factory_header_value(r, attr, syns, texts):
    if attr == 'license':
        return _pool_license(r, syns, texts)
    if attr in ('upstream_contact', 'files_excluded', 'files_included'):
        return gen_punct_linelist(r)
    return gen_header_value(r, attr)


def gen_pool(r):
    syns = [r.choice(SYNOPSES) for _ in range(r.choice([1, 2, 2, 3]))]
    if r.random() < 0.3:
        syns.append(syns[0].swapcase() if syns[0].swapcase() != syns[0] else 'Expat')
    texts = [gen_text(r, 5) for _ in range(r.choice([2, 2, 3]))]
    plists = [gen_punct_patterns(r) if r.random() < 0.7 else gen_patterns(r) for _ in range(r.choice([1, 2, 3]))]
    return syns, texts, plists


def gen_multi(r):
    pool = gen_pool(r)
    docs = [gen_factory_doc(r, pool, small=True) for _ in range(r.choice([2, 2, 3, 3, 4]))]
    for d in docs:
        d.pop('late_after_dump', None)
    return {'kind': 'multi', 'docs': docs}


# ---------------------------------------------------------------------------
# round-10 extension: refused assignments in the build histories, repeated patterns

REFUSE_TOKENS = {
    'patterns': [['none', None], ['list', []], ['tuple', []], ['iter', []], ['str', ''], ['list', ['a b']],
                 ['list', ['debian/*', 'po/*.po', 'x y']], ['list', ['a\tb']], ['list', ['a\nb']], ['tuple', ['src/*', '']],
                 ['list', ['', 'src/*']], ['list', ['a', ' ']], ['list', [' ']], ['list', ['']], ['list+none', ['a']],
                 ['list+none', []], ['list+int', ['debian/*']], ['int', 5], ['str', 'a b'], ['str', 'a\nb'],
                 ['iter', ['ok', 'not ok']], ['tuple', ['a b']], ['list', ['debian/*', 'debian/*', '']]],
    'lines': [['list', ['a', '']], ['list', ['', 'a']], ['list', [' ']], ['list', ['']], ['tuple', ['a', '\t']],
              ['list', ['a\nb']], ['list', ['ok', 'a\nb', 'c']], ['iter', ['a', '']], ['list+none', ['a']],
              ['list+none', []], ['list+int', ['a']], ['int', 5], ['str', 'a b'], ['str', 'a\nb']],
    'license': [['none', None], ['str', 'GPL-2+'], ['str', ''], ['pair', ['GPL-2+', 'text']], ['list', ['MIT', 't']],
                ['int', 5], ['tuple', []]],
    'single': [['str', 'a\nb'], ['str', 'a\n'], ['str', '\n'], ['str', 'a\n b'], ['int', 5]],
    'format': [['none', None], ['str', CUR_FORMAT + '\n'], ['str', 'a\nb'], ['str', CUR_FORMAT + '\n x'], ['int', 5]],
    'raw': [['none', None], ['str', 'a\nb'], ['str', 'a\n'], ['str', 'a\n\n b'], ['str', 'a\n b\n'], ['str', '\nb'],
            ['str', '2001 A\n 2002 B\n\n 2003 C'], ['int', 5], ['list', ['a']], ['tuple', []]],
}


def refuse_tokens(t, attr):
    """The fixed refused values of one property (those of the list for its kind the model says are refused)."""
    if attr == '[]':
        toks = []
        for name in RESTRICTED_NAMES[t]:
            toks.append(['item-set', [name, 'x']])
            toks.append(['item-del', name])
        toks.append(['item-set', [RESTRICTED_NAMES[t][0].lower(), 'y']])
        toks.append(['item-del', RESTRICTED_NAMES[t][0].upper()])
        return toks
    kind = _table_of(t)[attr][1]
    return [tok for tok in REFUSE_TOKENS[kind] if model_refuses(t, attr, tok)]


def gen_refuse_token(r, t, attr):
    toks = refuse_tokens(t, attr)
    if attr != '[]':
        kind = _table_of(t)[attr][1]
        if kind in ('patterns', 'lines') and r.random() < 0.4:
            # a list of valid entries with ONE entry the setter refuses, at any position
            good = gen_patterns(r)[:5] if kind == 'patterns' else gen_linelist(r, 'contact')
            bad = r.choice(['', ' ', 'a b', 'x\ty', 'a\nb'] if kind == 'patterns' else ['', ' ', '\t', 'a\nb'])
            good.insert(r.randint(0, len(good)), bad)
            tok = [r.choice(['list', 'list', 'tuple', 'iter']), good]
            if token_ok(tok) and model_refuses(t, attr, tok):
                return tok
        if kind == 'raw' and r.random() < 0.3:
            v = gen_raw(r, 3)
            tok = ['str', v + r.choice(['\n', '\nnot indented', '\n\n after an empty line'])]
            if token_ok(tok) and model_refuses(t, attr, tok):
                return tok
    return r.choice(toks)


REFUSE_ATTR_CYCLE = {
    'F': ('files', 'files', 'files', 'copyright', 'license', 'comment', '[]'),
    'L': ('license', 'license', 'comment', '[]'),
    'H': ('format', 'format', 'upstream_name', 'upstream_contact', 'source', 'disclaimer', 'comment', 'license',
          'copyright', 'files_excluded', 'files_included', '[]'),
}
REPEAT_LISTS = [['debian/*', 'po/*.po', 'debian/*'], ['*', '*'], ['a', 'a', 'a'], ['src/*.c', 'src/*.h', 'src/*.c', 'src/*.h'],
                ['debian/*', 'debian/*', 'po/*.po'], ['po/*.po', 'debian/*', 'debian/*']]


def gen_repeated_patterns(r, ps):
    """`ps` with at least one pattern occurring twice or more."""
    k = r.random()
    if k < 0.25:
        return list(r.choice(REPEAT_LISTS))
    ps = list(ps)[:6]
    x = r.choice(ps)
    if k < 0.5:
        ps.append(x)                                    # again at the end
    elif k < 0.7:
        ps.insert(ps.index(x), x)                       # twice in a row
    elif k < 0.85:
        ps.insert(r.randint(0, len(ps)), x)
        ps.insert(r.randint(0, len(ps)), x)             # three times
    else:
        ps = ps + ps                                    # the whole list twice
    return ps


def repeat_classes(ps):
    """Classes of repetition one pattern list shows ([] when all patterns differ)."""
    if len(set(ps)) == len(ps):
        return []
    cl = ['repeated-pattern']
    if any(ps[i] == ps[i + 1] for i in range(len(ps) - 1)):
        cl.append('repeated-pattern-adjacent')
    if any(ps[i] in ps[i + 2:] and ps[i + 1] != ps[i] for i in range(len(ps) - 2)):
        cl.append('repeated-pattern-apart')
    if any(ps.count(x) >= 3 for x in set(ps)):
        cl.append('pattern-three-times-or-more')
    if len(set(ps)) == 1:
        cl.append('all-patterns-equal')
    return cl


def gen_refuse_doc(r):
    """An ordinary or a factory document whose build history also carries 1..5 REFUSED assignments (on free
    paragraphs, on added ones, on decoys, on the header; before the first dump and between two dumps) and whose
    pattern lists repeat patterns."""
    k = r.random()
    case = gen_doc(r) if k < 0.5 else gen_factory_doc(r, small=(k < 0.8))
    ops = case['ops']
    if not any(op['t'] == 'F' for op in ops):
        # appended (a late assignment addresses the added paragraphs by index: the existing indices stay valid)
        ops.append({'t': 'F', 'files': gen_patterns(r), 'copyright': gen_raw(r, 3, copyright_like=True),
                    'license': gen_license(r), 'then': [], 'pos': r.randrange(1000)})
    # repeated patterns: at creation, by assignment, late
    for op in ops:
        if op['t'] == 'F':
            if r.random() < 0.5:
                op['files'] = gen_repeated_patterns(r, op['files'])
            for pair in op.get('then', []):
                if pair[0] == 'files' and r.random() < 0.6:
                    pair[1] = gen_repeated_patterns(r, pair[1])
            if r.random() < 0.15:
                op.setdefault('then', []).append(['files', gen_repeated_patterns(r, gen_patterns(r))])
    for entry in case.get('late', []):
        if entry[1] == 'files' and r.random() < 0.6:
            entry[2] = gen_repeated_patterns(r, entry[2])
    # refused assignments
    targets = ['H'] + list(range(len(ops)))
    for _ in range(r.choice([1, 1, 2, 2, 3, 4, 5])):
        tg = r.choice(targets) if r.random() < 0.8 else 'H'
        t = 'H' if tg == 'H' else ops[tg]['t']
        attr = r.choice(REFUSE_ATTR_CYCLE[t])
        tok = gen_refuse_token(r, t, attr)
        stage = r.choice(['free', 'late', 'between'] if t == 'H' else REFUSE_STAGES)
        if tg == 'H':
            case.setdefault('hrefuse', []).append([stage, attr, tok])
        else:
            ops[tg].setdefault('refuse', []).append([stage, attr, tok])
    if r.random() < 0.5:
        case['early'] = 1
    if r.random() < 0.5:
        case['nonstrict'] = 1
    if r.random() < 0.3:
        # a Format other than the default one in the header (a refused header assignment must leave THAT value)
        case['header'].insert(r.randint(0, len(case['header'])), ['format', gen_format(r)])
    return case


def enum_refuse_docs():
    """Complete fixed sub-space: every refused value of every property (and of the mapping interface) of the three
    paragraph classes x every stage, on one small fixed document (repeated patterns, multi-line texts)."""
    for t in ('F', 'L', 'H'):
        table = _table_of(t)
        for attr in sorted(table) + ['[]']:
            for tok in refuse_tokens(t, attr):
                for stage in REFUSE_STAGES:
                    if t == 'H' and stage == 'added':
                        stage = 'free-own'
                    ops = [{'t': 'F', 'files': ['debian/*', 'po/*.po', 'debian/*'], 'copyright': '2001 A\n 2002 B',
                            'license': ['GPL-2+', 'text\n\n indented'], 'then': [['comment', 'c\n d']], 'pos': 2},
                           {'t': 'L', 'license': ['GPL-2+', 'Full text.\n\nMore.'], 'then': [], 'pos': 1}]
                    case = {'kind': 'doc', 'input': INPUTS[(len(attr) + len(stage)) % len(INPUTS)],
                            'header': [['upstream_name', 'n'], ['upstream_contact', ['A <a@example.org>', 'B']],
                                       ['source', 'https://example.org/\n second line'], ['comment', 'hc'],
                                       ['license', ['MIT', 'x\n\ny']], ['files_excluded', ['a', 'a']]],
                            'ops': ops, 'enumerated_refusal': 1}
                    if stage == 'free-own':
                        case['hdr'] = 'own'
                        stage = 'free'
                    if t == 'H':
                        case['hrefuse'] = [[stage, attr, tok]]
                    else:
                        ops[0 if t == 'F' else 1]['refuse'] = [[stage, attr, tok]]
                    yield case


def gen_list_batch(r, field, n):
    if field == 'files':
        return [gen_punct_patterns(r) if r.random() < 0.8 else gen_patterns(r) for _ in range(n)]
    return [gen_punct_linelist(r) if r.random() < 0.8 else gen_linelist(r, 'contact') for _ in range(n)]


def enum_punct_lists():
    """(field, list) for the complete small sub-spaces."""
    import itertools
    for n in (1, 2, 3):
        for t in itertools.product(PUNCT_ENUM, repeat=n):
            yield 'files', list(t)
    for field in ('upstream_contact', 'files_excluded', 'files_included'):
        for n in (1, 2):
            for t in itertools.product(PUNCT_ENUM_LINES, repeat=n):
                yield field, list(t)


# ---------------------------------------------------------------------------
# header Format values other than the canonical URL, URL-ish values of the other header fields

_CF = CUR_FORMAT
_CF_PATH = '/doc/packaging-manuals/copyright-format/1.0/'
# the three spellings of the known format the documented fix-up covers (missing final slash, http:)
FMT_FIXABLE = [_CF[:-1], 'http' + _CF[5:], 'http' + _CF[5:-1]]
# near misses of the known format: anything a more "tolerant" fix-up would also rewrite
FMT_NEAR = [_CF + '/', _CF + '//', 'http' + _CF[5:] + '/', _CF + '?rev=174', _CF[:-1] + '?rev=174',
            _CF + '?', _CF + '#', _CF + '#files-field', _CF[:-1] + '#license-specification', _CF + '?a=1#b',
            _CF + 'index.html', _CF + './', _CF + '../1.0/', _CF + ' (DEP-5)', 'URL: ' + _CF, '<' + _CF + '>',
            '<' + _CF[:-1] + '>', 'HTTPS' + _CF[5:], 'HTTP' + _CF[5:], 'Https' + _CF[5:], 'HTTP' + _CF[5:-1], _CF.upper(),
            'https://WWW.DEBIAN.ORG' + _CF_PATH, 'https://www.debian.org/doc/packaging-manuals/Copyright-Format/1.0/',
            'https://debian.org' + _CF_PATH, 'http://debian.org' + _CF_PATH[:-1], 'https://www.debian.org:443' + _CF_PATH,
            'https://www.debian.org.' + _CF_PATH, 'https://www.debian.net' + _CF_PATH, 'https:/www.debian.org' + _CF_PATH,
            'https:www.debian.org' + _CF_PATH, 'http:/www.debian.org' + _CF_PATH, 'https//www.debian.org' + _CF_PATH,
            'ftp://www.debian.org' + _CF_PATH, 'httpss://www.debian.org' + _CF_PATH, 'http+https://www.debian.org' + _CF_PATH,
            'www.debian.org' + _CF_PATH, '//www.debian.org' + _CF_PATH, _CF_PATH, _CF_PATH[:-1],
            'https://www.debian.org/doc/packaging-manuals/copyright-format/1.1/',
            'https://www.debian.org/doc/packaging-manuals/copyright-format/1.0.1/',
            'https://www.debian.org/doc/packaging-manuals/copyright-format/1/',
            'https://www.debian.org/doc/packaging-manuals/copyright-format/1.00/',
            'https://www.debian.org/doc/packaging-manuals/copyright-format/',
            'https://www.debian.org/doc/packaging-manuals/copyright-format',
            'http://www.debian.org/doc/packaging-manuals/copyright-format/1.1',
            'https://www.debian.org/doc//packaging-manuals/copyright-format/1.0/',
            _CF + '\u200b', 'https\uff1a' + _CF[6:]]
# the historical (pre-1.0) DEP-5 addresses found in old debian/copyright files
FMT_DEP5 = ['http://dep.debian.net/deps/dep5', 'http://dep.debian.net/deps/dep5/', 'https://dep.debian.net/deps/dep5',
            'https://dep.debian.net/deps/dep5/', 'http://dep.debian.net/deps/dep5/?rev=135',
            'http://dep.debian.net/deps/dep5#files-field', 'http://dep.debian.net/deps/dep5/#license-field',
            'http://anonscm.debian.org/viewvc/dep/web/deps/dep5.mdwn?revision=174',
            'http://anonscm.debian.org/viewvc/dep/web/deps/dep5.mdwn?revision=202',
            'http://anonscm.debian.org/viewvc/dep/web/deps/dep5.mdwn?view=markup&pathrev=174',
            'https://anonscm.debian.org/viewvc/dep/web/deps/dep5.mdwn?view=markup&pathrev=174',
            'http://anonscm.debian.org/viewvc/dep/web/deps/dep5.mdwn', 'http://anonscm.debian.org/viewvc/dep/web/deps/dep5.mdwn/',
            'http://svn.debian.org/wsvn/dep/web/deps/dep5.mdwn?op=file&rev=135',
            'http://svn.debian.org/wsvn/dep/web/deps/dep5.mdwn?rev=59',
            'http://anonscm.debian.org/loggerhead/dep/dep5/trunk/annotate/179/dep5/copyright-format.xml',
            'http://wiki.debian.org/Proposals/CopyrightFormat', 'http://wiki.debian.org/Proposals/CopyrightFormat?action=recall&rev=196',
            'https://wiki.debian.org/Proposals/CopyrightFormat/', 'http://www.debian.org/doc/packaging-manuals/copyright-format/1.0/?dep5']
FMT_UNKNOWN_URLS = ['https://example.org/format/', 'https://example.org/format', 'http://example.org/format/',
                    'http://example.org/format', 'http://example.org', 'https://example.org/', 'http://example.org/?',
                    'https://example.org/a/b.html#c', 'http://example.org/f?x=1&y=2', 'HTTP://EXAMPLE.ORG/F',
                    'ftp://example.org/pub/format/', 'file:///usr/share/doc/debian-policy/copyright-format-1.0.txt.gz',
                    'mailto:format@example.org', 'urn:dep:5', 'git://example.org/format.git', 'http://[::1]:8080/f/',
                    'https://été.example/format/', 'http://example.org/日本語', 'https://example.org/%s/%d']
FMT_NONURL = ['x', '1.0', '1', '0', 'copyright-format 1.0', 'copyright-format/1.0', 'DEP-5', 'dep5', 'none', 'None',
              'unknown', 'é-format', '日本語', 'http', 'https', 'http:', 'https:', 'http:/', 'https:/',
              'http://', 'https://', 'http:x', 'https:/x', '/', '//', '///', 'a:b', 'a/', '#1', '#', '?', '-', '--', '.',
              '..', './', 'Format: y', 'Format:', 'Files: *', 'License: GPL-2+', 'x:', ':x', ':', 'machine-readable',
              'a  b', 'a\tb', '<none>', '1.0/', 'v1.0 http://example.org/f', 'see https://example.org/f/ .', '\U0001f600', '100%', '%(fmt)s']
FMT_FIXED = [CUR_FORMAT] + FMT_FIXABLE + FMT_NEAR + FMT_DEP5 + FMT_UNKNOWN_URLS + FMT_NONURL

URL_SCHEMES = ['http://', 'https://', 'http://', 'https://', 'http://', 'https://', 'HTTP://', 'Https://', 'ftp://',
               'git://', 'svn+ssh://']
URL_HOSTS = ['example.org', 'www.example.org', 'www.debian.org', 'dep.debian.net', 'anonscm.debian.org', 'ftp.debian.org',
             'salsa.debian.org', 'github.com', 'localhost:8080', 'user@host.example', 'été.example', '[::1]']
URL_PATHS = ['', '', '/proj', '/proj.git', '/~user', '/a/b', '/debian/pool/main/p/pkg', '/viewvc/dep/web/deps/dep5.mdwn',
             '/deps/dep5', '/a//b', '/a/./b', '/%7Euser', '/a%20b', '/download/v1.0', '/doc/packaging-manuals/copyright-format/1.0',
             '/x/y-z_1.2.3.orig.tar.gz', '/日本']
URL_SLASHES = ['', '', '/', '/', '/', '//']
URL_QUERIES = ['', '', '', '', '?rev=174', '?a=1&b=2', '?', '?q=a+b', '?view=markup&pathrev=174', '?url=http://x.example/',
               '?a=1;b=2', '?x=/']
URL_FRAGMENTS = ['', '', '', '', '#', '#readme', '#/', '#files-field', '#a?b', '#L10-L20']


def gen_url(r):
    return (r.choice(URL_SCHEMES) + r.choice(URL_HOSTS) + r.choice(URL_PATHS) + r.choice(URL_SLASHES)
            + r.choice(URL_QUERIES) + r.choice(URL_FRAGMENTS))


def gen_format(r):
    """One Format value (a single line without outer blanks)."""
    k = r.random()
    if k < 0.08:
        return CUR_FORMAT
    if k < 0.26:
        return r.choice(FMT_FIXABLE)
    if k < 0.46:
        return r.choice(FMT_NEAR)
    if k < 0.62:
        return r.choice(FMT_DEP5)
    if k < 0.72:
        return r.choice(FMT_UNKNOWN_URLS)
    if k < 0.84:
        return gen_url(r)
    if k < 0.94:
        return r.choice(FMT_NONURL)
    # a known spelling, decorated
    base = r.choice([CUR_FORMAT] + FMT_FIXABLE + FMT_DEP5[:4])
    return base + r.choice(['/', '?', '#', '?x', '#x', '/x', '.', ',', ';', ')', ' x', ' x', '%20', '/.', '/..'])


def format_class(v):
    if v == CUR_FORMAT:
        return 'canonical'
    if model_fixup(v) != v:
        return 'fixable-known'
    low = v.lower()
    if 'copyright-format' in low:
        return 'near-known'
    if 'dep5' in low or 'copyrightformat' in low:
        return 'dep5-historical'
    if '://' in v:
        return 'unknown-url'
    return 'non-url'


def _url_tokens(text):
    for line in text.split('\n'):
        for tok in line.split():
            if '://' in tok:
                yield tok


def url_token_features(tok):
    feats = set()
    low = tok.lower().lstrip('<("\'')
    if low.startswith('http://'):
        feats.add('http')
    elif low.startswith('https://'):
        feats.add('https')
    else:
        feats.add('other-scheme')
    core = tok.split('#')[0].split('?')[0].rstrip('>)."\',;')
    feats.add('trailing-slash' if core.endswith('/') else 'no-trailing-slash')
    if '?' in tok:
        feats.add('query')
    if '#' in tok:
        feats.add('fragment')
    return feats


def url_features(kind, val):
    """URL shapes a header value shows (empty set: the value carries no URL)."""
    feats = set()
    if val is None:
        return feats
    if kind == 'lines':
        texts = list(val)
    elif kind in ('raw', 'single', 'format'):
        texts = [val]
    else:
        return feats
    for tx in texts:
        for tok in _url_tokens(tx):
            feats |= url_token_features(tok)
    if feats and kind == 'raw' and '\n' in val:
        feats.add('multi-line')
        cont = val.split('\n')[1:]
        if any(len(l) - len(l.lstrip(' \t')) >= 2 for l in cont):
            feats.add('inner-lead>=2')
        if any(l != l.rstrip() for l in cont):
            feats.add('inner-trailing-blank')
    if feats and kind == 'lines' and len(val) > 1:
        feats.add('multi-line')
    return feats


URL_WORDS = ['see', 'and', 'mirror:', 'upstream', '(archived)', 'via', 'homepage', 'Source:', 'git', 'tarball', 'été']


def gen_url_line(r):
    k = r.random()
    if k < 0.5:
        return gen_url(r)
    if k < 0.7:
        return '%s %s' % (r.choice(URL_WORDS), gen_url(r))
    if k < 0.8:
        return '<%s>' % gen_url(r)
    if k < 0.9:
        return '%s %s %s' % (gen_url(r), r.choice(URL_WORDS), gen_url(r))
    return '%s %s .' % (r.choice(URL_WORDS), gen_url(r))


def gen_url_raw(r, maxlines=4):
    """Raw Deb822 value (Source / Disclaimer / Comment) made of URL-ish lines: continuation lines with one or several
    leading blanks / a tab and with or without trailing blanks - written by the generator's own encoder."""
    if r.random() < 0.4:
        return gen_url_line(r)
    first = '' if r.random() < 0.3 else gen_url_line(r)
    out = [first]
    for _ in range(r.randint(1, maxlines)):
        if r.random() < 0.1:
            out.append(' .')
            continue
        lead = r.choice([' ', ' ', '  ', '   ', '\t', ' \t', '        '])
        trail = r.choice(['', '', '', ' ', '  ', '\t', ' \t '])
        out.append(lead + gen_url_line(r) + trail)
    return '\n'.join(out)


def gen_urlish_value(r, attr):
    if attr == 'upstream_name':
        k = r.random()
        if k < 0.5:
            return gen_url(r)
        if k < 0.7:
            return '%s %s' % (gen_single(r), gen_url(r))
        return r.choice(['proj/', 'proj//', 'a  b', 'http', 'https:', 'example.org/proj/', 'proj (https://example.org/)'])
    if attr == 'upstream_contact':
        n = r.choice([1, 1, 2, 3])
        out = []
        for _ in range(n):
            k = r.random()
            if k < 0.5:
                out.append(gen_url(r))
            elif k < 0.7:
                out.append('Jane Doe <jane@example.org>, %s' % gen_url(r))
            elif k < 0.85:
                out.append(r.choice(['mailto:jane@example.org?subject=x', 'Jane Doe <jane@example.org>',
                                     'irc://irc.example.org/#chan', 'https://example.org/contact/ (form)']))
            else:
                out.append(gen_url_line(r))
        return out
    return gen_url_raw(r)


URLISH_ATTRS = ('source', 'upstream_name', 'upstream_contact', 'disclaimer', 'comment')


def gen_header_doc(r, fmt=None, how=None, bare=False):
    """A document whose point is its HEADER: a Format value other than (or equal to) the canonical URL, given at
    construction (Header(data)), by assignment (early / between the other fields / late, also after a first dump),
    and/or substituted into the parsed text; URL-ish values in Source / Upstream-Name / Upstream-Contact /
    Disclaimer / Comment; 0..2 small Files / License paragraphs."""
    header = []
    if not bare:
        for a in URLISH_ATTRS:
            if r.random() < (0.75 if a == 'source' else 0.45):
                header.append([a, gen_urlish_value(r, a) if r.random() < 0.85 else gen_header_value(r, a)])
        for a in ('license', 'copyright', 'files_excluded'):
            if r.random() < 0.12:
                header.append([a, gen_header_value(r, a)])
        r.shuffle(header)
    ops = []
    if not bare:
        for t in r.choice([[], [], ['F'], ['L'], ['F', 'L'], ['L', 'F'], ['F', 'F']]):
            if t == 'F':
                op = {'t': 'F', 'files': gen_patterns(r), 'copyright': gen_raw(r, 2, copyright_like=True),
                      'license': [r.choice(SYNOPSES), gen_text(r, 3)], 'then': []}
            else:
                op = {'t': 'L', 'license': [r.choice(SYNOPSES), gen_text(r, 3)], 'then': []}
            if r.random() < 0.2:
                op['then'].append(['comment', gen_url_raw(r, 2)])
            op['pos'] = r.randrange(1000)
            ops.append(op)
    case = {'kind': 'doc', 'input': r.choice(INPUTS), 'header': header, 'ops': ops, 'early': int(r.random() < 0.5),
            'nonstrict': 1, 'second_round': 1}
    if how is None:
        how = r.choice(['data', 'data', 'assign', 'assign', 'assign-twice', 'late', 'late', 'parsed', 'data+late'])
    v = gen_format(r) if fmt is None else fmt
    if how.startswith('data'):
        # header fields of raw / single kind may travel in the data object, too; Format at any position among them
        fields = []
        for entry in list(header):
            if entry[0] in DATA_FIELD_NAMES and entry[1] is not None and r.random() < 0.5 \
                    and entry[0] not in [f[0] for f in fields]:
                fields.append(entry)
                header.remove(entry)
        case['hdata'] = {'format': v, 'fields': fields, 'pos': r.randint(0, len(fields))}
        if how == 'data+late':
            case['late'] = [['H', 'format', gen_format(r)]]
    elif how == 'assign':
        header.insert(r.randint(0, len(header)), ['format', v])
    elif how == 'assign-twice':
        header.insert(r.randint(0, len(header)), ['format', v])
        header.insert(r.randint(0, len(header)), ['format', gen_format(r)])
    elif how == 'late':
        if r.random() < 0.4:
            header.insert(r.randint(0, len(header)), ['format', gen_format(r)])
        case['late'] = [['H', 'format', v]]
        if r.random() < 0.3 and not bare:
            case['late'].insert(r.randint(0, 1), ['H', 'source', gen_urlish_value(r, 'source')])
    if case.get('late') and r.random() < 0.5:
        case['late_after_dump'] = 1
    if not how.startswith('data') and r.random() < 0.4:
        case['hdr'] = 'own'
    if how == 'parsed':
        case['fmt_parsed'] = [[v, 'format']]
    if how == 'parsed-format-specification':
        case['fmt_parsed'] = [[v, 'format-specification']]
    if not bare:
        parsed = case.setdefault('fmt_parsed', [])
        for _ in range(r.choice([0, 1, 1, 2])):
            parsed.append([gen_format(r), 'format' if r.random() < 0.75 else 'format-specification'])
        if not parsed:
            del case['fmt_parsed']
        if r.random() < 0.3:
            # a second Header object with a format of its own, never added: Header objects share no state
            case['hdecoys'] = [[['format', gen_format(r)]] + ([['source', gen_urlish_value(r, 'source')]]
                                                             if r.random() < 0.5 else [])]
    return case


ENUM_FORMAT_HOWS = ('data', 'assign', 'late', 'parsed', 'parsed-format-specification')


def enum_format_docs():
    """The complete small sub-space: every fixed Format value x every way of giving it, as header-only documents."""
    import random
    for i, v in enumerate(FMT_FIXED):
        for j, how in enumerate(ENUM_FORMAT_HOWS):
            yield gen_header_doc(random.Random('fmt-enum/%d/%d' % (i, j)), fmt=v, how=how, bare=True)


def add_format_to_doc(case, r):
    """Give an ordinary / factory document spec a non-default Format (drawn from a stream of its own, so the spec
    itself is the one the module always generated)."""
    header = case['header']
    header.insert(r.randint(0, len(header)), ['format', gen_format(r)])
    if r.random() < 0.5:
        case['fmt_parsed'] = [[gen_format(r), 'format' if r.random() < 0.75 else 'format-specification']]
    case['second_round'] = 1
    return case


CODEC_ALPHABET = ['', ' ', '.', ' .', 'a', ' a', 'a ', '..', '\t', 'a b', '. ']
CODEC_EXTRA = ['\ta', 'a\t', '  ', ' \t', '. .', '.a', '#', ' #', 'K: v', ' K: v', 'é', ' é ', '\u00a0',
               'a\u00a0', '  a  ', '...', ' . ', '\t.', '-- ', 'granted,  ', ' ..', 'x' * 90, '-', ':']


def gen_codec_list(r):
    n = r.choice([0, 1, 2, 2, 3, 3, 4, 5, 6, 8])
    k = r.random()
    if k < 0.5:
        pool = CODEC_ALPHABET
        return [r.choice(pool) for _ in range(n)]
    if k < 0.8:
        # biased towards the domain: drop the two forbidden shapes most of the time
        pool = ['', '', 'a', ' a', 'a ', '..', ' .', '. ', 'a b'] + CODEC_EXTRA
        return [r.choice(pool) for _ in range(n)]
    return [gen_text_line(r) for _ in range(n)]


def enum_codec_lists():
    import itertools
    for n in range(0, 5):
        for t in itertools.product(CODEC_ALPHABET, repeat=n):
            yield list(t)


# ---------------------------------------------------------------------------
# round-9 extension: NON-NORMALISED UNICODE in every text value, ODD CONTINUATION MARKERS in raw multi-line values
#
# Every atom below is valid Unicode that some normalisation or folding would change (that is the point: the library
# must hand back the very code points it was given); none contains a character str.isspace() accepts or one of the
# excluded line-boundary characters (checked at import: an atom that fails is dropped, never "repaired").

UNI_DECOMPOSED = ['e\u0301', 'A\u030a', 'o\u0308', 'n\u0303', 'c\u0327', 'e\u0302\u0301', 'a\u0323\u0302',
                  'a\u0302\u0323', 'q\u0307\u0323', 'u\u0308\u0304', 'Cafe\u0301', 'A\u030angstro\u0308m',
                  'Zoe\u0308', 'Nu\u0301n\u0303ez', 'Dvor\u030ca\u0301k', '\u0391\u0301', '\u0438\u0306',
                  '\u304b\u3099', '\u30cf\u309a', 'x\u0338', '\u2260\u0338', '\u0627\u0653', 'a\u0300\u0301']
UNI_SINGLETONS = ['\u2126', '\u212b', '\u212a', '10\u2126', '5\u212b', '300\u212a', '\u0340', '\u0341',
                  '\u0343', '\u0374', '\u037e', '\u0387', '\u1f71', '\u1fbe', '\u2329x\u232a', '\u0958',
                  '\u0f43', '\u0344', '\u1fef']
UNI_CJK_COMPAT = ['\uf900', '\uf901', '\uf902', '\ufa10', '\ufa0e\uf9ff', '\ufa30', '\U0002f800',
                  '\U0002f81a', '\u8c48\uf900', '\u2f00', '\u2e9f', '\u3038']
UNI_HANGUL = ['\u1112\u1161\u11ab', '\u1100\u1161', '\u1112\u1161\u11ab\u1100\u1173\u11af', '\ud558\u11ab',
              '\ud55c\uae00', '\u1100\u1100\u1161', '\u3131\u314f', '\uffa1\uffc2', '\u1161', '\u11ab',
              '\ua960\u1161', '\u1112\ud7b0']
UNI_COMPAT = ['\ufb01le', 'o\ufb03ce', '\ufb00', '\ufb06', '\u01c6', '\u0133', '\uff21\uff22\uff43',
              '\uff27\uff30\uff2c\uff0d\uff12', '\uff0f\uff0a', 'x\xb2', 'E=mc\xb2', '10\u2075', 'H\u2082O',
              '\u2460', '\u2122', '\xbd', '\u2160\u2161', '\u210c', '\xb5m', '\u017ft', '\xaa',
              'no\u2011break', 'wait\u2026', '\u2103', '\u33a1', '\u3392', '\ufdfa', '\uff76\uff9e', '\u309b',
              '\U0001d400\U0001d41b', '\u2474', '\u3300', '\xa8', '\u02dc', '\u2025', '\ufe50', '\uff1a',
              '\u2024', '\uff61']
UNI_CASE = ['\u0130stanbul', 'd\u0131\u015f', 'Stra\xdfe', '\u1e9e', '\u01c5', '\u03a3\u03c2', 'x\u0345',
            '\u0149', '\u01f0', '\ufb13', '\u1f88', '\u0390']
UNI_INVISIBLE = ['a\u200db', 'a\u200cb', 'x\ufe0f', 'soft\xadhyphen', 'a\u2060b', 'a\u034fb', 'a\u200eb',
                 '\u202eabc\u202c', 'a\ufeffb', '\ufeff', 'a\u200bb', '\u180e', '\U000e0001', '\u2061']
# characters whose UTF-8 form holds the bytes 0x85 / 0xA0 / 0x0B.. look-alikes (what a byte-level reader may take for a
# line boundary or a blank), also at the end of a line; astral characters (4-byte sequences, surrogate pairs in UTF-16)
UNI_BYTES = ['\u0105', '\xe0', '\u2020', '\u0145', '\u4e85', '\xc5', '\U00010085', 'caf\xe0', 'cz\u0105',
             '\u2026', '\u0160', '\u010c', '\U0001f600', '\U0001f1e9\U0001f1ea',
             '\U0001f468\u200d\U0001f469\u200d\U0001f467', '\U00100000', '\ufffd', '\ue000']
# inner Unicode blanks (NFKC turns them into U+0020): only ever INSIDE a word, never in a pattern
UNI_SPACED = ['a\u2002b', 'a\u3000b', 'a\u2009b', 'no\xa0break', 'a\u1680b', 'a\u205fb', 'a\u202fb',
              '1\u2007000']


def _atom_ok(a, spaced=False):
    if not a or not _clean(a):
        return False
    if spaced:
        return not a[0].isspace() and not a[-1].isspace() and len(a.split('\n')) == 1 and len(a.splitlines()) == 1
    return not any(ch.isspace() for ch in a) and len(a.splitlines()) == 1


UNI_GROUPS = [('decomposed', UNI_DECOMPOSED), ('singleton', UNI_SINGLETONS), ('cjk-compat', UNI_CJK_COMPAT),
              ('hangul', UNI_HANGUL), ('compat', UNI_COMPAT), ('case', UNI_CASE), ('invisible', UNI_INVISIBLE),
              ('bytes', UNI_BYTES)]
UNI_ATOMS = []
for _g, _atoms in UNI_GROUPS:
    for _a in _atoms:
        if _atom_ok(_a) and _a not in UNI_ATOMS:
            UNI_ATOMS.append(_a)
UNI_SPACED = [a for a in UNI_SPACED if _atom_ok(a, spaced=True)]
RULE = RULE.replace('{ATOMS}', str(len(UNI_ATOMS))).replace('{SPACED}', str(len(UNI_SPACED)))
UNI_STEMS = ['Caf', 'Jos', 'M', 'x', 'Dr.', 'src/', 'v1.', '2001-', '(c)', 'na', '\xe9', 'GPL-']
PLAIN_WORDS = ['the', 'Software', 'is', 'provided', 'WITHOUT', 'WARRANTY', 'of', 'any', 'kind,', 'Copyright', '(C)',
               '2001-2014', 'Permission', 'granted,', 'to', 'a', 'copy', 'and', 'GPL-2+', '<a@b.example>', 'x.', '--']


def uni_classes(s):
    """Which kinds of non-normalised / fold-sensitive Unicode a string shows (empty set for ASCII)."""
    cls = set()
    if s.isascii():
        return cls
    import unicodedata
    if unicodedata.normalize('NFC', s) != s:
        cls.add('not-nfc')
    if unicodedata.normalize('NFD', s) != s:
        cls.add('not-nfd')
    if unicodedata.normalize('NFKC', s) != unicodedata.normalize('NFC', s):
        cls.add('nfkc-differs')
    if s.casefold() != s.lower():
        cls.add('casefold-differs-from-lower')
    for ch in s:
        o = ord(ch)
        if 0x1100 <= o <= 0x11ff or 0xa960 <= o <= 0xa97f or 0xd7b0 <= o <= 0xd7ff:
            cls.add('hangul-jamo')
        elif 0xf900 <= o <= 0xfaff or 0x2f800 <= o <= 0x2fa1f:
            cls.add('cjk-compatibility')
        elif o in (0x2126, 0x212a, 0x212b, 0x0340, 0x0341, 0x0343, 0x0374, 0x037e, 0x0387, 0x1f71, 0x1fbe, 0x2329, 0x232a):
            cls.add('singleton')
        elif 0x0300 <= o <= 0x036f or 0x3099 <= o <= 0x309a:
            cls.add('combining-mark')
        elif 0xfb00 <= o <= 0xfb06 or 0xff01 <= o <= 0xff5e or o in (0xb2, 0xb3, 0xb9, 0x2075, 0x2082):
            cls.add('ligature-fullwidth-superscript')
        if o > 0xffff:
            cls.add('astral')
        if o in (0x200b, 0x200c, 0x200d, 0x200e, 0x2060, 0xfeff, 0xad, 0x34f, 0x202e, 0x202c, 0xfe0f):
            cls.add('invisible')
        if o > 0x7f and ch.isspace():
            cls.add('inner-unicode-blank')
    b = s.encode('utf-8')
    if b'\x85' in b:
        cls.add('utf8-byte-0x85')
    if b'\xa0' in b:
        cls.add('utf8-byte-0xa0')
    return cls


def gen_uni_word(r, spaced=False):
    k = r.random()
    a = r.choice(UNI_ATOMS)
    if spaced and k < 0.08:
        return r.choice(UNI_SPACED)
    if k < 0.45:
        return a
    if k < 0.70:
        return r.choice(UNI_STEMS) + a
    if k < 0.85:
        return a + r.choice(UNI_STEMS)
    return r.choice(UNI_ATOMS) + a


def gen_uni_content(r, lo=1, hi=5, spaced=True):
    """Words of which at least one carries a non-normalised atom; no outer blanks."""
    n = r.randint(lo, hi)
    words = [gen_uni_word(r, spaced) if r.random() < 0.5 else r.choice(PLAIN_WORDS) for _ in range(n)]
    words[r.randrange(n)] = gen_uni_word(r, spaced)
    return ' '.join(words)


def gen_uni_text_line(r):
    """One line of free-form text in the domain, with non-normalised Unicode (or empty)."""
    while True:
        k = r.random()
        if k < 0.14:
            line = ''
        elif k < 0.26:
            line = ' ' * r.randint(1, 6) + gen_uni_content(r, 1, 4)
        elif k < 0.34:
            line = '\t' * r.randint(1, 2) + gen_uni_content(r, 1, 3)
        elif k < 0.46:
            line = gen_uni_content(r, 1, 4) + r.choice([' ', '  ', '\t', ' \t'])
        elif k < 0.52:
            line = r.choice(UNI_ATOMS)             # the atom alone: first and last character of the line
        else:
            line = gen_uni_content(r)
        if line == '' or (line.strip() != '' and line != '.'):
            return line


def gen_uni_text(r, maxlines=6):
    k = r.random()
    if k < 0.08:
        return ''
    lines = [gen_uni_text_line(r) for _ in range(r.randint(1, maxlines))]
    while lines and lines[-1].strip() == '':
        lines.pop()
    return '\n'.join(lines)


def gen_uni_single(r):
    while True:
        s = gen_uni_content(r, 1, 3).strip()
        if s and single_ok(s):
            return s


UNI_SYNOPSES = ['GPL-2+', 'MIT', 'Expat', '', 'X', 'Licence-Cafe\u0301', 'CC-BY-\uff13.\uff10',
                '\u2126-License', 'A\u030a-1.0', '\u1112\u1161\u11ab-License', 'o\ufb03ce-EULA',
                'GPL\u20112+', 'x\xb2', '\uf900']


def gen_uni_license(r):
    return [r.choice(UNI_SYNOPSES), gen_uni_text(r)]


def gen_uni_codec_list(r):
    n = r.choice([1, 2, 2, 3, 3, 4, 5, 6])
    return [gen_uni_text_line(r) if r.random() < 0.7 else r.choice(CODEC_ALPHABET) for _ in range(n)]


UNI_PATTERN_SHAPES = ['src/%s/*', '%s', '*.%s', 'doc/%s.txt', '%s/*', 'po/%s.po', '%s-*', '?%s', 'a/%s/b/*.c', '\\*%s']


def gen_uni_pattern(r):
    while True:
        p = r.choice(UNI_PATTERN_SHAPES) % r.choice(UNI_ATOMS)
        if pattern_ok(p):
            return p


def gen_uni_patterns(r):
    n = r.choice([1, 1, 2, 3, 4])
    ps = [gen_uni_pattern(r) if r.random() < 0.7 else r.choice(PATTERN_ATOMS) for _ in range(n)]
    ps[r.randrange(n)] = gen_uni_pattern(r)
    return ps


def gen_uni_linelist(r):
    n = r.choice([1, 1, 2, 3])
    out = []
    for _ in range(n):
        k = r.random()
        if k < 0.5:
            out.append('%s <%s@example.org>' % (gen_uni_single(r), r.choice(['a', 'b-c'])))
        elif k < 0.8:
            out.append(gen_uni_single(r))
        else:
            out.append(gen_uni_pattern(r))
    return out


# what a continuation line of a raw multi-line value may start with: the structural blank, and everything else a
# hand-written debian/copyright shows - one TAB, several blanks, blank+tab, tab+blank ...
MARKERS = [' ', '\t', '  ', '   ', '    ', '        ', '\t\t', ' \t', '\t ', '  \t', ' \t ', '\t  ', ' \t\t', '\t \t',
           '                ', ' \t  \t']
ODD_MARKERS = MARKERS[1:]
MARKER_TAILS = ['', '', '', '', ' ', '  ', '\t', ' \t', '\t ']


def marker_classes(raw):
    """Continuation-marker classes of one raw Deb822 value (empty set: single line, or only the plain one-blank
    marker)."""
    cls = set()
    lines = raw.split('\n')
    if len(lines) < 2:
        return cls
    for l in lines[1:]:
        lead = l[:len(l) - len(l.lstrip(' \t'))]
        body = l[len(lead):]
        if lead == ' ':
            continue
        if lead == '\t':
            cls.add('one-tab')
        elif lead.strip('\t') == '':
            cls.add('tabs>=2')
        elif lead.strip(' ') == '':
            cls.add('blanks>=2' if len(lead) < 4 else 'blanks>=4')
        elif lead[0] == ' ' and lead[1:].strip('\t') == '' :
            cls.add('blank+tab')
        elif lead[0] == '\t' and lead[1:].strip(' ') == '':
            cls.add('tab+blank')
        else:
            cls.add('mixed-blanks-and-tabs')
        if body.rstrip(' \t') == '.':
            cls.add('dot-after-odd-marker')
    if cls:
        if lines[0] == '':
            cls.add('with-empty-first-line')
        if any(l != l.rstrip(' \t') for l in lines[1:]):
            cls.add('with-trailing-blank-or-tab')
        if any('\t' in l.strip(' \t') for l in lines[1:]):
            cls.add('with-inner-tab')
        if lines[-1][0] != ' ' or lines[-1][:2] in ('  ', ' \t'):
            cls.add('on-last-line')
    return cls


def gen_marker_raw(r, maxlines=4, uni=0.5, marker=None, atom=None, copyright_like=False):
    """Raw Deb822 value (what .copyright / .comment / .disclaimer / .source take and return) whose continuation
    lines start with odd markers - one TAB, several blanks, blank+tab, ...; written by the generator itself."""
    def content():
        if atom is not None and r.random() < 0.6:
            return '%s %s' % (r.choice(PLAIN_WORDS), atom) if r.random() < 0.5 else atom
        if r.random() < uni:
            c = gen_uni_content(r, 1, 4)
        else:
            c = ' '.join(r.choice(PLAIN_WORDS) for _ in range(r.randint(1, 4)))
        if copyright_like and r.random() < 0.5:
            c = '%d%s %s' % (r.randint(1990, 2024), r.choice(['', '-2014', ', 2016']), c)
        if r.random() < 0.15:
            c = c.replace(' ', '\t', 1)           # a TAB inside the line
        return c
    first = '' if r.random() < 0.3 else content().strip()
    if atom is not None and first and r.random() < 0.5:
        first = atom
    same = marker if marker is not None else (r.choice(ODD_MARKERS) if r.random() < 0.4 else None)
    out = [first]
    for _ in range(r.randint(1, maxlines)):
        lead = same if same is not None and r.random() < 0.85 else r.choice(MARKERS if r.random() < 0.8 else ODD_MARKERS)
        if r.random() < 0.1:
            out.append(lead + '.')
        else:
            out.append(lead + content() + r.choice(MARKER_TAILS))
    v = '\n'.join(out)
    return v if raw_ok(v) else encode_raw(first, ['x'], None)


def gen_unicode_doc(r):
    """A document in the ordinary spec form whose text values carry non-normalised Unicode and whose raw values
    carry odd continuation markers; fed to the parser in any of ALL_INPUTS, and (allforms) afterwards in all of
    them."""
    header = []
    for a, p in (('upstream_name', 0.5), ('upstream_contact', 0.5), ('source', 0.3), ('disclaimer', 0.3),
                 ('comment', 0.35), ('license', 0.25), ('copyright', 0.3), ('files_excluded', 0.2)):
        if r.random() < p:
            header.append([a, _gen_uni_value(r, HEADER_FIELDS[a][1], a)])
    r.shuffle(header)
    kinds = ['F'] * r.choice([0, 1, 1, 1, 2, 3]) + ['L'] * r.choice([0, 0, 1, 1, 2])
    r.shuffle(kinds)
    ops = []
    for t in kinds:
        if t == 'F':
            op = {'t': 'F', 'files': gen_uni_patterns(r) if r.random() < 0.7 else gen_patterns(r),
                  'copyright': gen_marker_raw(r, 3, copyright_like=True), 'license': gen_uni_license(r), 'then': []}
            if r.random() < 0.15:
                op['then'].append(['copyright', gen_marker_raw(r, 3, copyright_like=True)])
        else:
            op = {'t': 'L', 'license': gen_uni_license(r), 'then': []}
        if r.random() < 0.3:
            op['then'].append(['comment', gen_marker_raw(r, 3)])
        op['pos'] = r.randrange(1000)
        ops.append(op)
    return {'kind': 'doc', 'input': r.choice(ALL_INPUTS if r.random() < 0.4 else MORE_INPUTS), 'header': header,
            'ops': ops, 'early': int(r.random() < 0.5), 'nonstrict': int(r.random() < 0.5),
            'second_round': int(r.random() < 0.5), 'allforms': 1}


def _gen_uni_value(r, kind, attr=None):
    if kind == 'single':
        return gen_uni_single(r)
    if kind == 'lines':
        return gen_uni_linelist(r) if attr == 'upstream_contact' else gen_uni_patterns(r)
    if kind == 'license':
        return gen_uni_license(r)
    return gen_marker_raw(r, 3, copyright_like=(attr == 'copyright'))


# ---- documents given as RAW field text (parsed starting points / data objects), raw License text included

RAWDOC_FIELDS = {
    # paragraph kind -> Deb822 field name -> (property, kind of the typed value)
    'H': {'Format': ('format', 'single'), 'Upstream-Name': ('upstream_name', 'single'),
          'Upstream-Contact': ('upstream_contact', 'lines'), 'Source': ('source', 'raw'),
          'Disclaimer': ('disclaimer', 'raw'), 'Comment': ('comment', 'raw'), 'License': ('license', 'license'),
          'Copyright': ('copyright', 'raw'), 'Files-Excluded': ('files_excluded', 'lines'),
          'Files-Included': ('files_included', 'lines')},
    'F': {'Files': ('files', 'patterns'), 'Copyright': ('copyright', 'raw'), 'License': ('license', 'license'),
          'Comment': ('comment', 'raw')},
    'L': {'License': ('license', 'license'), 'Comment': ('comment', 'raw')},
}
RAWDOC_EXTRA_NAMES = ('X-Note', 'X-Origin')          # fields without a property: read through the mapping interface
RAWDOC_VIAS = ('text', 'data')


def model_license(raw):
    """Independent model of the documented decoding of a License field value: first line = synopsis; every further
    line must start with ONE blank, which is removed; a lone '.' then stands for an empty line.  None when a
    continuation line starts with anything else (TAB ...): what the property returns then is not demanded."""
    lines = raw.split('\n')
    text = []
    for l in lines[1:]:
        if l[:1] != ' ':
            return None
        body = l[1:]
        text.append('' if body == '.' else body)
    return [lines[0], '\n'.join(text)]


def model_lines(raw):
    return [l.strip() for l in raw.strip().split('\n') if l.strip()]


def write_rawdoc(paras):
    """The generator's own writer: 'Name: first line' / 'Name:' for an empty first line, continuation lines verbatim,
    one empty line between paragraphs."""
    out = []
    for k, para in enumerate(paras):
        if k:
            out.append('\n')
        for name, raw in para['fields']:
            out.append('%s:%s\n' % (name, raw) if raw == '' or raw[0] == '\n' else '%s: %s\n' % (name, raw))
    return ''.join(out)


def rawdoc_in_domain(case):
    try:
        if case.get('via') not in RAWDOC_VIAS or case.get('input') not in ALL_INPUTS or case.get('input2') not in ALL_INPUTS:
            return False
        paras = case['paras']
        if not isinstance(paras, list) or not paras or paras[0].get('t') != 'H':
            return False
        seen_l = False
        for k, para in enumerate(paras):
            t = para.get('t')
            if (k == 0) != (t == 'H') or t not in RAWDOC_FIELDS:
                return False
            names = [n for n, _v in para['fields']]
            if len(set(n.lower() for n in names)) != len(names):
                return False
            have = dict(para['fields'])
            for name, raw in para['fields']:
                if name not in RAWDOC_FIELDS[t] and name not in RAWDOC_EXTRA_NAMES:
                    return False
                kind = RAWDOC_FIELDS[t].get(name, (None, 'raw'))[1]
                if kind == 'single':
                    if not single_ok(raw):
                        return False
                elif not raw_ok(raw) or raw == '':
                    return False
                if kind == 'patterns' and not (raw.split() and all(pattern_ok(x) for x in raw.split())):
                    return False
                if kind == 'lines' and not model_lines(raw):
                    return False
            if t == 'H' and have.get('Format') != CUR_FORMAT:
                return False
            if t == 'F' and not ('Files' in have and 'Copyright' in have and 'License' in have):
                return False
            if t == 'L' and 'License' not in have:
                return False
            if t == 'L':
                seen_l = True
            if t == 'F' and seen_l and case['via'] == 'data':
                return False        # add_files_paragraph() moves it in front of the License paragraphs: not modelled
        return True
    except (KeyError, TypeError, AttributeError, ValueError, IndexError):
        return False


def gen_raw_license(r, marker=None, atom=None, decodable=None):
    """Raw License field text: synopsis line, then continuation lines.  decodable: every continuation line starts
    with the one structural blank (possibly followed by more blanks / tabs, which are then text)."""
    syn = r.choice(UNI_SYNOPSES if r.random() < 0.4 else SYNOPSES)
    if decodable is None:
        decodable = r.random() < 0.5
    out = [syn]
    for _ in range(r.randint(1, 4)):
        if marker is not None and r.random() < 0.8:
            lead = marker
        elif decodable:
            lead = ' ' + r.choice(['', '', '', ' ', '  ', '\t', '   \t'])
        else:
            lead = r.choice(MARKERS)
        k = r.random()
        if k < 0.15:
            body = '.'
        elif atom is not None and k < 0.6:
            body = atom
        elif k < 0.7:
            body = gen_uni_content(r, 1, 4)
        else:
            body = ' '.join(r.choice(PLAIN_WORDS) for _ in range(r.randint(1, 4)))
        out.append(lead + body + r.choice(MARKER_TAILS))
    v = '\n'.join(out)
    return v if raw_ok(v) and v != '' else 'X\n x'


def gen_rawdoc(r, via=None, form=None, marker=None, atom=None):
    def raw(name, copyright_like=False):
        return gen_marker_raw(r, 3, marker=marker, atom=atom, copyright_like=copyright_like,
                              uni=0.5 if marker is None else 0.2)

    def files():
        ps = gen_uni_patterns(r) if (atom is None and r.random() < 0.5) else [r.choice(PATTERN_ATOMS) for _ in range(r.randint(1, 3))]
        if atom is not None and pattern_ok('src/%s/*' % atom):
            ps.append('src/%s/*' % atom)
        if len(ps) > 1 and r.random() < 0.4:          # the list continued on further lines
            lead = marker if marker is not None else r.choice(MARKERS)
            k = r.randint(1, len(ps) - 1)
            return ' '.join(ps[:k]) + '\n' + lead + ' '.join(ps[k:])
        return ' '.join(ps)

    def single():
        return atom if atom is not None and single_ok(atom) and r.random() < 0.6 else gen_uni_single(r)

    hfields = [['Format', CUR_FORMAT]]
    for name, p in (('Upstream-Name', 0.5), ('Upstream-Contact', 0.4), ('Source', 0.3), ('Disclaimer', 0.5),
                    ('Comment', 0.5), ('License', 0.3), ('Copyright', 0.4), ('X-Note', 0.2)):
        if r.random() < p:
            if name == 'Upstream-Name':
                v = single()
            elif name == 'Upstream-Contact':
                es = gen_uni_linelist(r)
                v = es[0] if len(es) == 1 else '\n' + '\n'.join((marker or r.choice(MARKERS)) + e for e in es)
            elif name == 'License':
                v = gen_raw_license(r, marker, atom)
            else:
                v = raw(name, name == 'Copyright')
            hfields.insert(r.randint(0, len(hfields)), [name, v])
    paras = [{'t': 'H', 'fields': hfields}]
    kinds = ['F'] * r.choice([0, 1, 1, 2]) + ['L'] * r.choice([0, 1, 1, 2])
    if via == 'text' or (via is None and r.random() < 0.5):
        r.shuffle(kinds)
    for t in kinds:
        if t == 'F':
            fields = [['Files', files()], ['Copyright', raw('Copyright', True)], ['License', gen_raw_license(r, marker, atom)]]
        else:
            fields = [['License', gen_raw_license(r, marker, atom)]]
        if r.random() < 0.4:
            fields.append(['Comment', raw('Comment')])
        if r.random() < 0.15:
            fields.append(['X-Origin', raw('X-Origin')])
        if r.random() < 0.3:
            r.shuffle(fields)
        paras.append({'t': t, 'fields': fields})
    if via is None:
        via = 'data' if all(paras[i]['t'] != 'L' or paras[j]['t'] != 'F' for i in range(len(paras))
                            for j in range(i + 1, len(paras))) and r.random() < 0.5 else 'text'
    form = form or r.choice(ALL_INPUTS)
    return {'kind': 'rawdoc', 'via': via, 'input': form, 'input2': r.choice(ALL_INPUTS), 'paras': paras}


def enum_rawdocs():
    """The fixed grid: every non-normalised atom x (a third of) the input forms, every continuation marker x every
    input form - each as a small document given as raw field text, alternately parsed from the written text and
    assembled over data objects."""
    import random
    n = 0
    for i, atom in enumerate(UNI_ATOMS + UNI_SPACED):
        for j, form in enumerate(ALL_INPUTS):
            if (i + j) % 3:
                continue
            n += 1
            case = gen_rawdoc(random.Random('raw-enum/a/%d/%d' % (i, j)), via=RAWDOC_VIAS[(i // 3 + j) % 2], form=form, atom=atom)
            case['enumerated'] = 'atom'
            yield case
    for i, marker in enumerate(ODD_MARKERS):
        for j, form in enumerate(ALL_INPUTS):
            n += 1
            case = gen_rawdoc(random.Random('raw-enum/m/%d/%d' % (i, j)), via=RAWDOC_VIAS[(i + j) % 2], form=form, marker=marker)
            case['enumerated'] = 'marker'
            yield case


# ---------------------------------------------------------------------------
# feature accounting / non-triviality

def _text_features(lines, feats):
    """Record which hostile shapes a multi-line text shows; True if any."""
    if len(lines) < 2:
        return False
    hit = False
    for l in lines:
        if l == '':
            feats.add('empty-line')
            hit = True
        if l[:1] == '\t':
            feats.add('tab')
            hit = True
        if l[:1] == ' ' and l.strip() != '':
            feats.add('indent')
            hit = True
        if l != l.rstrip() and l.strip():
            feats.add('trailing-blank')
            hit = True
        if any(ord(ch) > 127 for ch in l):
            feats.add('non-ascii')
            hit = True
    return hit


def _indent_class(lead):
    if lead.strip(' ') == '':
        return 'space'
    if lead.strip('\t') == '':
        return 'tab'
    return 'mixed'


def doc_features(final, uni=False):
    """final = {'header': {attr: value}, 'paras': [(t, {attr: value}), ...]}"""
    feats = set()
    nontrivial_text = False

    def see(kind, val):
        nonlocal nontrivial_text
        if val is None:
            return
        for s_ in (() if not uni else [val] if isinstance(val, str) else val):
            if not s_.isascii():
                for cl in uni_classes(s_):
                    feats.add('uni-' + cl)
        if kind == 'raw' and uni:
            for cl in marker_classes(val):
                feats.add('marker-' + cl)
        if kind == 'license':
            lines = [val[0]] + (val[1].split('\n') if val[1] != '' else [])
            if _text_features(lines, feats):
                nontrivial_text = True
            if common_indent(lines[1:]):
                feats.add('common-indent')
        elif kind == 'raw':
            # look at the logical lines: the structural lead character of continuation lines is removed,
            # the ' .' marker counts as an empty line, a TAB lead counts as tab
            lines = val.split('\n')
            logical = [lines[0]] + [('' if l[1:] == '.' else l[1:]) for l in lines[1:]]
            if any(l[:1] == '\t' for l in lines[1:]):
                feats.add('tab')
            if _text_features(logical, feats):
                nontrivial_text = True
        elif kind == 'patterns':
            joined = ' '.join(val)
            if len(joined) > 80:
                feats.add('files-list>80')
            if len(joined) > 120:
                feats.add('files-list>120')
            if any(len(p) > 80 for p in val):
                feats.add('pattern>80')
            if any('-' in p for p in val):
                feats.add('pattern-hyphen')
            if len(val) == 1:
                feats.add('files-single')
            else:
                feats.add('files-multi')
            for cl in list_punct_classes(val):
                feats.add('punct-files-' + cl)
        elif kind == 'lines':
            for cl in list_punct_classes(val):
                feats.add('punct-lines-' + cl)

    for attr, val in final['header'].items():
        kind = HEADER_FIELDS[attr][1]
        see(kind, val)
        if attr == 'upstream_contact' and val is not None:
            feats.add('contact-single' if len(val) == 1 else 'contact-multi')
        if attr == 'license' and val is not None:
            feats.add('header-license')
        if kind != 'format':
            for f in url_features(kind, val):
                feats.add('url-%s-%s' % (attr.replace('_', '-'), f))
    for t, vals in final['paras']:
        table = FILES_FIELDS if t == 'F' else LICENSE_FIELDS
        feats.add('files-paragraph' if t == 'F' else 'license-paragraph')
        for attr, val in vals.items():
            see(table[attr][1], val)
    return feats, (nontrivial_text and len(final['paras']) >= 1)


# ---------------------------------------------------------------------------
# the document check (pure: returns findings, reports nothing)

def _op_vals(op):
    if op['t'] == 'F':
        vals = {'files': op['files'], 'copyright': op['copyright'], 'license': op['license'], 'comment': None}
    else:
        vals = {'license': op['license'], 'comment': None}
    return vals


def final_values(case, late=True):
    """What the generator says the document contains (last assignment wins).
    'paras' are the paragraphs that are added (in order of addition), 'decoys'
    the ones created but never added, 'hdecoys' stand-alone Header objects."""
    header = {}
    hd = case.get('hdata')
    if hd is not None:
        for attr, val in hd.get('fields', []):
            header[attr] = val
        header['format'] = model_fixup(hd['format'])       # fixed up when the Header is constructed over the data
    for attr, val in case.get('header', []):
        header[attr] = val
    paras, decoys = [], []
    for op in case.get('ops', []):
        vals = _op_vals(op)
        for attr, val in op.get('then', []):
            vals[attr] = val
        (decoys if op.get('decoy') else paras).append((op['t'], vals))
    if late:
        for target, attr, val in case.get('late', []):
            if target == 'H':
                header[attr] = val
            else:
                paras[target][1][attr] = val
    hdecoys = []
    for assignments in case.get('hdecoys', []):
        cur = {}
        for attr, val in assignments:
            cur[attr] = val
        hdecoys.append(cur)
    return {'header': header, 'paras': paras, 'decoys': decoys, 'hdecoys': hdecoys}


def _to_lib(kind, val, copyright):
    if val is None:
        return None
    if kind == 'license':
        return copyright.License(val[0], val[1])
    if kind == 'lines' or kind == 'patterns':
        return list(val)
    return val


def _same(kind, expected, got, copyright):
    """Compare a value read from the library with the generator's value."""
    if expected is None:
        if kind in ('lines', 'patterns'):
            # an absent list field reads as "no entries" (documented: from_str(None) -> empty tuple)
            return got is None or (not isinstance(got, str) and len(got) == 0)
        return got is None
    if kind == 'license':
        return (isinstance(got, copyright.License) and got.synopsis == expected[0] and got.text == expected[1])
    if kind in ('lines', 'patterns'):
        return got is not None and not isinstance(got, str) and list(got) == list(expected)
    return isinstance(got, str) and got == expected


def _field_key(t, attr, kind, expected, got, copyright, where):
    """Mechanism key for one differing value."""
    if kind == 'license' and expected is not None and isinstance(got, copyright.License):
        if got.synopsis != expected[0]:
            return '%s-license-synopsis-differs' % where
        return '%s-license-text-differs' % where
    if kind == 'license':
        return '%s-license-differs' % where
    if kind == 'patterns':
        return '%s-files-pattern-list-differs' % where
    if t == 'F' and attr == 'copyright':
        return '%s-copyright-text-differs' % where
    if t == 'H':
        return '%s-header-%s-differs' % (where, attr.replace('_', '-'))
    return '%s-%s-differs' % (where, attr)


_SCRATCH = {'dir': None, 'n': 0, 'open': []}


def _scratch_path():
    """A fresh path in this process's scratch directory (memory-backed where the box has /dev/shm); the directory is
    removed when the interpreter exits."""
    import atexit
    import os
    import shutil
    import tempfile
    if _SCRATCH['dir'] is None or not os.path.isdir(_SCRATCH['dir']):
        base = '/dev/shm' if os.path.isdir('/dev/shm') and os.access('/dev/shm', os.W_OK) else None
        d = tempfile.mkdtemp(prefix='vp-c17-', dir=base)
        _SCRATCH['dir'] = d
        atexit.register(shutil.rmtree, d, True)
    _SCRATCH['n'] += 1
    return os.path.join(_SCRATCH['dir'], 'doc%d' % (_SCRATCH['n'] % 8))


def _close_scratch():
    for f in _SCRATCH['open']:
        try:
            f.close()
        except Exception:
            pass
    del _SCRATCH['open'][:]


def _feed(text, mode):
    """`text` in one of the ALL_INPUTS forms.  The constructors consume their input completely, so a file object
    handed out by the previous call is closed here."""
    if _SCRATCH['open']:
        _close_scratch()
    if mode == 'stringio':
        return io.StringIO(text)
    if mode == 'str-doc':
        return text
    if mode == 'bytes-doc':
        return text.encode('utf-8')
    if mode == 'bytesio':
        return io.BytesIO(text.encode('utf-8'))
    if mode in ('binary-file', 'text-file'):
        path = _scratch_path()
        with open(path, 'wb') as f:
            f.write(text.encode('utf-8'))
        # the encoding is always named: what the locale of the process would pick is not the subject here
        f = open(path, 'rb') if mode == 'binary-file' else open(path, 'r', encoding='utf-8')
        _SCRATCH['open'].append(f)
        return f
    pieces = text.split('\n')
    if pieces and pieces[-1] == '':
        pieces.pop()
        ends = ['\n'] * len(pieces)
    else:
        ends = ['\n'] * (len(pieces) - 1) + ['']
    if mode == 'noends':
        return list(pieces)
    if mode == 'bytes-noends':
        return [p.encode('utf-8') for p in pieces]
    lines = [p + e for p, e in zip(pieces, ends)]
    if mode == 'bytes':
        return [l.encode('utf-8') for l in lines]
    return lines


def _read_values(p, t, copyright):
    table = HEADER_FIELDS if t == 'H' else FILES_FIELDS if t == 'F' else LICENSE_FIELDS
    return dict((attr, getattr(p, attr)) for attr in table)


def _kind_of(p, copyright):
    if isinstance(p, copyright.Header):
        return 'H'
    if isinstance(p, copyright.FilesParagraph):
        return 'F'
    if isinstance(p, copyright.LicenseParagraph):
        return 'L'
    return '?'


def _compare_obj(p, t, vals, where, label, copyright, out, parsed=False):
    """Read every typed property of one paragraph object and compare it with the
    generator's value; returns the number of values compared.  The expected
    Format of a header is the value last given to it (CUR_FORMAT for a fresh
    Header()); of a header that was PARSED from text showing that value:
    model_fixup of it."""
    table = HEADER_FIELDS if t == 'H' else FILES_FIELDS if t == 'F' else LICENSE_FIELDS
    try:
        got_vals = _read_values(p, t, copyright)
    except Exception as e:
        out.append(('%s-getter-raises/%s' % (where, type(e).__name__),
                    'paragraph %s (%s): reading properties raised %r' % (label, t, e)))
        return 0
    n = 0
    for attr in table:
        kind = table[attr][1]
        exp = vals.get(attr)
        if kind == 'format':
            exp = CUR_FORMAT if exp is None else exp
            if parsed:
                exp = model_fixup(exp)
        got = got_vals[attr]
        n += 1
        if not _same(kind, exp, got, copyright):
            out.append((_field_key(t, attr, kind, exp, got, copyright, where),
                        'paragraph %s (%s) .%s: generator wrote %r, %s document has %r'
                        % (label, t, attr, exp, where, got)))
    return n


class _Rejected(Exception):
    pass


def _lib(fn, *args):
    """One call into the library during the build; an exception there means a
    valid value was rejected (harness errors are never blamed on the library)."""
    try:
        return fn(*args)
    except Exception as e:
        raise _Rejected(e)


def check_doc(case, stats=None):
    """Build, dump, re-parse, compare.  Returns a list of (key, message).
    A firing auxiliary contract (K.codec) is turned into a finding of this
    case, so that it is shrunk and replayed like any other."""
    from .. import contracts
    from ..core import MonitorViolation
    try:
        if not format_values(case):
            return _check_doc(case, stats)
        # a document with a Format given explicitly: the library may log (it does: logging.warning) or warn about
        # formats it does not know - its business; whatever it passes to the warnings module is recorded, not raised
        # (one of the ambient configurations turns UserWarning into an exception) and never judged
        import warnings
        with warnings.catch_warnings(record=True) as caught:
            warnings.simplefilter('always')
            found = _check_doc(case, stats)
        if caught:
            LOGGED['warnings-module:recorded-in-format-cases'] += len(caught)
        return found
    except MonitorViolation as e:
        contracts.PENDING[:] = []
        return [(e.key, e.msg)]
    finally:
        _close_scratch()


def format_values(case):
    """[(how, value)] for every Format value the spec gives explicitly."""
    vals = []
    hd = case.get('hdata')
    if hd is not None:
        vals.append(('data', hd['format']))
    for attr, val in case.get('header', []):
        if attr == 'format':
            vals.append(('assign', val))
    for target, attr, val in case.get('late', []):
        if target == 'H' and attr == 'format':
            vals.append(('assign-late', val))
    for assignments in case.get('hdecoys', []):
        for attr, val in assignments:
            if attr == 'format':
                vals.append(('decoy-header', val))
    for val, style in case.get('fmt_parsed', []):
        vals.append(('parsed' if style == 'format' else 'parsed-format-specification', val))
    return vals


class _State(object):
    """One built document and every object the build created (kept alive)."""

    def __init__(self):
        self.c = None
        self.header = None
        self.hcur = {}
        self.built = []        # [obj, t, current expected vals]  (added paragraphs, in order of addition)
        self.decoys = []       # [obj, t, vals, label]            (created, never added)
        self.hdecoys = []      # [obj, 'H', vals, label]
        self.watched = 0       # values compared on objects other than the one just created / assigned
        self.verified = set()  # ids of objects whose values were all as written the last time they were read
        self.bad = set()       # ids of objects already reported (not reported again by watch)
        self.pending = []      # refused assignments of the stages 'late' / 'between': (p, t, vals, label, stage, attr, token, target)
        self.refused = []      # what was done: (stage, target class, t, attr, value class, exception name or None, values compared)

    def objects(self):
        yield self.header, 'H', self.hcur, 'header'
        for k, (p, t, vals) in enumerate(self.built):
            yield p, t, vals, 'added#%d' % k
        for p, t, vals, label in self.decoys:
            yield p, t, vals, label
        for p, t, vals, label in self.hdecoys:
            yield p, t, vals, label

    def check(self, p, t, vals, where, label, copyright, out):
        """Compare one object; remember whether it ever read correctly.  A
        difference on an object that read correctly before is reported as
        'watched-*' (it changed while OTHER objects were created / assigned);
        one on an object never seen correct is a plain conversion difference."""
        if id(p) in self.bad:
            return 0
        if where == 'watched' and id(p) not in self.verified:
            where = 'built'
        before = len(out)
        n = _compare_obj(p, t, vals, where, label, copyright, out)
        if len(out) > before:
            self.bad.add(id(p))
            self.verified.discard(id(p))
        else:
            self.verified.add(id(p))
        return n

    def watch(self, copyright, out, skip=None, where='watched'):
        """Every object created so far still shows its own values."""
        for p, t, vals, label in self.objects():
            if p is not None and p is not skip:
                self.watched += self.check(p, t, vals, where, label, copyright, out)


def _raw_snapshot(p):
    """Field names in order and the raw text of every field, through the mapping interface of the paragraph."""
    keys = list(p)
    return keys, [p[k] for k in keys]


def _refuse_one(st, p, t, vals, label, stage, attr, tok, target, copyright, out):
    """One assignment the unchanged tree refuses.  Whether (and with what) it raises is recorded, not judged;
    judged is what the paragraph shows AFTERWARDS: every typed getter still returns the generator's value, the raw
    field texts and the field order are what they were before, every other object keeps its values."""
    if id(p) in st.bad:
        return
    # baseline: the object shows the generator's values now (else: an ordinary conversion finding, nothing more is asked)
    before = len(out)
    st.check(p, t, vals, 'built' if id(p) not in st.verified else 'watched', label, copyright, out)
    if len(out) > before:
        return
    try:
        snap = _raw_snapshot(p)
    except Exception as e:
        out.append(('raw-read-raises/%s' % type(e).__name__, 'paragraph %s (%s): reading the raw fields raised %r' % (label, t, e)))
        st.bad.add(id(p))
        return
    raised = None
    try:
        if attr == '[]':
            if tok[0] == 'item-set':
                p[tok[1][0]] = tok[1][1]
            else:
                del p[tok[1]]
        else:
            setattr(p, attr, token_value(tok))
    except Exception as e:
        raised = type(e).__name__
    what = ('%s.%s = %r' % (t, attr, tok)) if attr != '[]' else ('%s: %s %r through the mapping interface' % (t, tok[0], tok[1]))
    how = ('refused with %s' % raised) if raised else 'NOT refused (no exception)'
    note = ' [after the assignment %s, %s; stage %s, %s]' % (what, how, stage, target)
    before = len(out)
    n = st.check(p, t, vals, 'after-refused-assignment', label, copyright, out)
    try:
        snap2 = _raw_snapshot(p)
    except Exception as e:
        snap2 = None
        out.append(('after-refused-assignment-raw-read-raises/%s' % type(e).__name__,
                    'paragraph %s (%s): reading the raw fields raised %r' % (label, t, e)))
    if snap2 is not None:
        n += len(snap[0])
        if snap2[0] != snap[0]:
            out.append(('after-refused-assignment-field-set-or-order-differs',
                        'paragraph %s (%s): fields before %r, after %r' % (label, t, snap[0], snap2[0])))
        elif snap2[1] != snap[1]:
            out.append(('after-refused-assignment-raw-field-text-differs',
                        'paragraph %s (%s): raw field texts before %r, after %r' % (label, t, snap[1], snap2[1])))
    if len(out) > before:
        out[before:] = [(k, m + note) for k, m in out[before:]]
        st.bad.add(id(p))
        st.verified.discard(id(p))
    else:
        # every OTHER object created so far still shows its own values
        st.watch(copyright, out, skip=p)
    st.refused.append((stage, target, t, attr, refuse_class(t, attr, tok), raised, n))


def _apply_refusals(st, stage, copyright, out):
    for p, t, vals, label, stg, attr, tok, target in st.pending:
        if stg == stage:
            _refuse_one(st, p, t, vals, label, stg, attr, tok, target, copyright, out)


def _build(case, copyright, out, stats, licobjs=None):
    """Build the document of one spec through the public API.  Returns a _State,
    or None with the reason appended to `out`."""
    early = bool(case.get('early'))
    st = _State()
    licobjs = {} if licobjs is None else licobjs
    reused = [0]

    def lic(val, reuse):
        key = (val[0], val[1])
        if reuse and key in licobjs:
            reused[0] += 1
            return licobjs[key]       # the SAME License object handed to several create() calls / setters
        obj = _lib(copyright.License, val[0], val[1])
        licobjs[key] = obj
        return obj

    def to_lib(kind, val, reuse=False):
        if val is not None and kind == 'license':
            return lic(val, reuse)
        return _to_lib(kind, val, copyright)

    def header_decoy(k):
        h = _lib(copyright.Header)
        cur = {}
        st.hdecoys.append([h, 'H', cur, 'decoy-header#%d' % k])
        for attr, val in case['hdecoys'][k]:
            _lib(setattr, h, attr, to_lib(HEADER_FIELDS[attr][1], val))
            cur[attr] = val

    try:
        nh = len(case.get('hdecoys', []))
        for k in range(0, nh, 2):
            header_decoy(k)
        c = st.c = _lib(copyright.Copyright)
        own = case.get('hdr') == 'own'
        hd = case.get('hdata')
        if hd is not None:
            # the header is CONSTRUCTED over a data object that already carries Format (and possibly other fields)
            from debian import deb822
            entries = [[DATA_FIELD_NAMES[attr], val] for attr, val in hd.get('fields', [])]
            entries.insert(min(hd.get('pos', 0), len(entries)), ['Format', hd['format']])
            data = _lib(deb822.Deb822)
            for name, val in entries:
                _lib(data.__setitem__, name, val)
            h = st.header = _lib(copyright.Header, data)
            for attr, val in hd.get('fields', []):
                st.hcur[attr] = val
            st.hcur['format'] = model_fixup(hd['format'])
            own = True
            if early:
                st.check(h, 'H', st.hcur, 'created', 'header-over-data', copyright, out)
        else:
            h = st.header = _lib(copyright.Header) if own else c.header
        for attr, val in case.get('header', []):
            _lib(setattr, h, attr, to_lib(HEADER_FIELDS[attr][1], val))
            st.hcur[attr] = val
        htarget = 'free-header' if own else 'header-of-document'
        for stage, attr, tok in case.get('hrefuse', []):
            if stage == 'free':
                _refuse_one(st, h, 'H', st.hcur, 'header', stage, attr, tok, htarget, copyright, out)
            else:
                st.pending.append((h, 'H', st.hcur, 'header', stage, attr, tok, 'header-of-document'))
        if own:
            c.header = h
        for k in range(1, nh, 2):
            header_decoy(k)
        if early:
            st.watch(copyright, out, where='created')
        nd = 0
        for op in case.get('ops', []):
            reuse = bool(op.get('reuse'))
            vals = _op_vals(op)
            if op['t'] == 'F':
                p = _lib(copyright.FilesParagraph.create, list(op['files']), op['copyright'], lic(op['license'], reuse))
                table = FILES_FIELDS
            else:
                p = _lib(copyright.LicenseParagraph.create, lic(op['license'], reuse))
                table = LICENSE_FIELDS
            label = 'created-op'
            if early:
                st.check(p, op['t'], vals, 'created', label, copyright, out)
            for attr, val in op.get('then', []):
                _lib(setattr, p, attr, to_lib(table[attr][1], val, reuse))
                vals[attr] = val
            kname = 'files-paragraph' if op['t'] == 'F' else 'license-paragraph'
            for stage, attr, tok in op.get('refuse', []):
                if stage == 'free':
                    _refuse_one(st, p, op['t'], vals, 'created-op', stage, attr, tok,
                                ('decoy-' if op.get('decoy') else 'free-') + kname, copyright, out)
            if op.get('decoy'):
                st.decoys.append([p, op['t'], vals, 'decoy#%d' % nd])
                nd += 1
                plabel, ptarget = 'decoy#%d' % (nd - 1), 'decoy-' + kname
            else:
                if op['t'] == 'F':
                    _lib(c.add_files_paragraph, p)
                else:
                    _lib(c.add_license_paragraph, p)
                st.built.append([p, op['t'], vals])
                plabel, ptarget = 'added#%d' % (len(st.built) - 1), 'added-' + kname
            for stage, attr, tok in op.get('refuse', []):
                if stage == 'added':
                    _refuse_one(st, p, op['t'], vals, plabel, stage, attr, tok, ptarget, copyright, out)
                elif stage != 'free':
                    st.pending.append((p, op['t'], vals, plabel, stage, attr, tok, ptarget))
            if early:
                if op.get('then'):
                    st.check(p, op['t'], vals, 'created', label, copyright, out)
                st.watch(copyright, out, skip=p)
    except _Rejected as e:
        out.append(('build-rejects-valid-value/%s' % type(e.args[0]).__name__,
                    'building the document raised %r' % (e.args[0],)))
        return None
    if stats is not None:
        stats['reused'] = stats.get('reused', 0) + reused[0]
    st.licobjs = licobjs
    return st


def _apply_late(case, st, copyright, out):
    """Assignments made after every paragraph has been created and added: the
    target shows the new value, every other object keeps its own."""
    if case.get('late'):
        st.watch(copyright, out, where='built')       # baseline: what every object shows before the late assignments
    for target, attr, val in case.get('late', []):
        if target == 'H':
            p, t, vals, table = st.header, 'H', st.hcur, HEADER_FIELDS
        else:
            p, t, vals = st.built[target]
            table = FILES_FIELDS if t == 'F' else LICENSE_FIELDS
        try:
            v = val
            if val is not None and table[attr][1] == 'license':
                key = (val[0], val[1])
                v = st.licobjs.get(key)
                if v is None:
                    v = st.licobjs[key] = copyright.License(val[0], val[1])
            else:
                v = _to_lib(table[attr][1], val, copyright)
            setattr(p, attr, v)
        except Exception as e:
            out.append(('build-rejects-valid-value/%s' % type(e).__name__,
                        'assigning .%s = %r raised %r' % (attr, val, e)))
            return False
        vals[attr] = val
        st.check(p, t, vals, 'assigned', 'target-of-late-assignment', copyright, out)
        st.watch(copyright, out, skip=p)
    return True


def _check_doc(case, stats):
    from debian import copyright
    out = []
    st = _build(case, copyright, out, stats)
    if st is None or out:
        return out
    if case.get('late'):
        if case.get('late_after_dump'):
            # the document is dumped / re-parsed once BEFORE the late assignments ...
            _verify(case, st, copyright, out, None, perm=False)
            if out:
                return out
            if stats is not None:
                stats['late_after_dump'] = 1
        if not _apply_late(case, st, copyright, out) or out:
            return out
    if st.pending:
        # refused assignments on the finished document: before the (final) dump ...
        _apply_refusals(st, 'late', copyright, out)
        if out:
            return out
        if any(x[4] == 'between' for x in st.pending):
            # ... and BETWEEN two dumps: a complete dump / strict re-parse cycle first, then the refused assignments; the
            # document must dump to the same text as before them
            _verify(case, st, copyright, out, None, perm=False)
            if out:
                return out
            try:
                text_a = st.c.dump()
            except Exception as e:
                return out + [('dump-raises/%s' % type(e).__name__, 'dump() raised %r' % (e,))]
            _apply_refusals(st, 'between', copyright, out)
            if out:
                return out
            try:
                text_b = st.c.dump()
            except Exception as e:
                return out + [('dump-raises-after-refused-assignment/%s' % type(e).__name__,
                               'dump() raised %r after refused assignments %r' % (e, [x[4:] for x in st.pending]))]
            if text_b != text_a:
                return out + [('dump-differs-after-refused-assignment', 'dump before %r, after the refused assignments %r: %r'
                               % (text_a, [x[4:] for x in st.pending if x[4] == 'between'], text_b))]
            if stats is not None:
                stats['refuse_between_dumps'] = 1
    # ... and (again) with the final values
    _verify(case, st, copyright, out, stats, perm=True)
    if stats is not None:
        stats['watched'] = st.watched
        stats['refused'] = list(st.refused)
    return out


def _verify(case, st, copyright, out, stats, perm=True):
    """Built document against the spec, dump, strict (and non-strict) re-parse,
    re-dump; appends findings to `out`."""
    c = st.c
    built = [p for p, _t, _v in st.built]
    final_paras = [(t, vals) for _p, t, vals in st.built]

    # ---- the built document: order by identity, values must be the generator's (inverse law of the conversions)
    seq = list(c.all_paragraphs())
    if not seq or seq[0] is not c.header or seq[0] is not st.header or _kind_of(seq[0], copyright) != 'H':
        out.append(('built-document-header-not-first', 'all_paragraphs() does not start with the header'))
        return
    ids = [id(p) for p in built]
    order = []
    for p in seq[1:]:
        if id(p) not in ids:
            out.append(('built-document-has-foreign-paragraph', 'all_paragraphs() yields a paragraph that was never added'))
            return
        order.append(ids.index(id(p)))
    if sorted(order) != list(range(len(built))):
        out.append(('built-document-lost-or-duplicated-paragraph',
                    'added %d paragraphs, all_paragraphs() yields indices %r' % (len(built), order)))
        return
    expected = [('H', st.hcur)] + [final_paras[i] for i in order]
    if stats is not None:
        stats['order'] = order

    def compare(objs, where, expected=expected, parsed=True):
        n = 0
        for idx, (p, (t, vals)) in enumerate(zip(objs, expected)):
            n += _compare_obj(p, t, vals, where, '#%d' % idx, copyright, out, parsed)
        return n

    compare(seq, 'built', parsed=False)
    # objects that were created by the same factories but never added keep their own values, too
    for p, t, vals, label in st.decoys + st.hdecoys:
        st.watched += st.check(p, t, vals, 'watched', label, copyright, out)

    # ---- dump
    try:
        text = c.dump()
        f = io.StringIO()
        ret = c.dump(f=f)
    except Exception as e:
        out.append(('dump-raises/%s' % type(e).__name__, 'dump() raised %r' % (e,)))
        return
    if not isinstance(text, str):
        out.append(('dump-not-text', 'dump() returned %r' % (type(text),)))
        return
    if ret is not None or f.getvalue() != text:
        out.append(('dump-to-file-differs-from-dump-to-string', 'dump(f) wrote %r, dump() returned %r' % (f.getvalue(), text)))

    # ---- strict re-parse
    try:
        c2 = copyright.Copyright(_feed(text, case['input']), strict=True)
    except Exception as e:
        out.append(('strict-reparse-raises/%s' % type(e).__name__, 'dump %r does not parse back: %r' % (text, e)))
        return
    seq2 = list(c2.all_paragraphs())
    kinds2 = [_kind_of(p, copyright) for p in seq2]
    kinds1 = [t for t, _ in expected]
    if kinds2 != kinds1:
        key = 'reparsed-paragraph-count-differs' if len(kinds2) != len(kinds1) else 'reparsed-paragraph-kind-differs'
        out.append((key, 'built %r, re-parsed %r; dump=%r' % (kinds1, kinds2, text)))
        return
    n = compare(seq2, 'reparsed')
    if stats is not None:
        stats['values'] = n
        stats['paras'] = len(seq2)

    # ---- second generation text: identical to the first dump - except that a Format the first dump shows in one of
    # the spellings the documented fix-up covers (it was ASSIGNED, assignment rewrites nothing) is rewritten by the
    # parse: then exactly that one line differs
    fmt_cur = st.hcur.get('format') or CUR_FORMAT
    fmt_fix = model_fixup(fmt_cur)
    text_fixed = text if fmt_fix == fmt_cur else swap_format_line(text, fmt_cur, 'Format: ' + fmt_fix)
    if stats is not None and fmt_fix != fmt_cur:
        stats['fmt_rewritten_on_reparse'] = 1
    try:
        text2 = c2.dump()
    except Exception as e:
        out.append(('redump-raises/%s' % type(e).__name__, 'dump() of the re-parsed document raised %r' % (e,)))
        return
    if text_fixed is None:
        if stats is not None:
            stats['fmt_unsplittable'] = 1
        return              # the first dump does not show the one Format line the model expects: nothing demanded of the text
    if text2 != text_fixed:
        out.append(('redump-differs', 'dump %r, dump of re-parsed document %r%s' % (
            text, text2, '' if text_fixed == text else ' (expected: the first dump with the Format line fixed up to %r)' % fmt_fix)))
    if out:
        return              # what follows is only derived from a dump M.doc had no complaint about

    # ---- second round: the dump of the re-parsed document parses to the same values and dumps to itself
    if case.get('second_round'):
        mode_2 = _rot(case['input'], 3)
        try:
            c6 = copyright.Copyright(_feed(text2, mode_2), strict=True)
            seq6 = list(c6.all_paragraphs())
        except Exception as e:
            out.append(('second-round-reparse-raises/%s' % type(e).__name__,
                        'dump %r of the re-parsed document does not parse: %r' % (text2, e)))
            return
        if [_kind_of(p, copyright) for p in seq6] != kinds1:
            out.append(('second-round-paragraphs-differ', 'built %r, second round %r; text=%r'
                        % (kinds1, [_kind_of(p, copyright) for p in seq6], text2)))
            return
        n6 = compare(seq6, 'second-round-reparsed')
        try:
            text6 = c6.dump()
        except Exception as e:
            out.append(('second-round-redump-raises/%s' % type(e).__name__, 'dump() raised %r' % (e,)))
            return
        if text6 != text2:
            out.append(('second-round-redump-differs', 'second dump %r, third dump %r' % (text2, text6)))
        if stats is not None:
            stats['second_round_values'] = n6
        if out:
            return

    # ---- non-strict re-parse of the same (valid) text: same paragraphs, same typed values, same re-dump
    if case.get('nonstrict'):
        mode_n = _rot(case['input'], 2)
        try:
            c5 = copyright.Copyright(_feed(text, mode_n), strict=False)
            seq5 = list(c5.all_paragraphs())
        except Exception as e:
            out.append(('nonstrict-reparse-raises/%s' % type(e).__name__,
                        'dump %r (strict parse fine) does not parse with strict=False: %r' % (text, e)))
            return
        kinds5 = [_kind_of(p, copyright) for p in seq5]
        if kinds5 != kinds1:
            out.append(('nonstrict-reparsed-paragraphs-differ', 'built %r, strict=False parse %r; dump=%r'
                        % (kinds1, kinds5, text)))
            return
        n5 = compare(seq5, 'nonstrict-reparsed')
        try:
            text5 = c5.dump()
        except Exception as e:
            out.append(('nonstrict-redump-raises/%s' % type(e).__name__, 'dump() raised %r' % (e,)))
            return
        if text5 != text_fixed:
            out.append(('nonstrict-redump-differs', 'dump %r, dump of the strict=False parse %r' % (text, text5)))
        if stats is not None:
            stats['nonstrict_values'] = n5
        if out:
            return

    # ---- OTHER input forms (four of the nine others, by rotation from the case's own form; over the documents of a
    # run every form is used): the same dump as one str / one utf-8 bytes object / byte lines / streams / real files
    if case.get('allforms'):
        nforms = nvals = 0
        at = ALL_INPUTS.index(case['input'])
        for mode_a in [ALL_INPUTS[(at + k) % len(ALL_INPUTS)] for k in ALLFORMS_OFFSETS]:
            before = len(out)
            try:
                c9 = copyright.Copyright(_feed(text, mode_a), strict=True)
                seq9 = list(c9.all_paragraphs())
            except Exception as e:
                out.append(('strict-reparse-raises/%s' % type(e).__name__,
                            'dump %r (parses back when fed as %s) does not parse back when fed as %s: %r'
                            % (text, case['input'], mode_a, e)))
                return
            kinds9 = [_kind_of(p, copyright) for p in seq9]
            if kinds9 != kinds1:
                key = 'reparsed-paragraph-count-differs' if len(kinds9) != len(kinds1) else 'reparsed-paragraph-kind-differs'
                out.append((key, 'built %r, re-parsed (fed as %s) %r; dump=%r' % (kinds1, mode_a, kinds9, text)))
                return
            nvals += compare(seq9, 'reparsed')
            try:
                text9 = c9.dump()
            except Exception as e:
                out.append(('redump-raises/%s' % type(e).__name__, 'dump() of the document re-parsed from %s raised %r' % (mode_a, e)))
                return
            if text9 != text_fixed:
                out.append(('redump-differs', 'dump %r, dump of the document re-parsed from it %r' % (text, text9)))
            if len(out) != before:
                out[before:] = [(k, m + ' [the dump fed as %s; fed as %s there was no difference]' % (mode_a, case['input']))
                                for k, m in out[before:]]
                return
            nforms += 1
        if stats is not None:
            stats['allforms'] = nforms
            stats['allforms_values'] = nvals

    # ---- PARSED starting points: the same text with another Format value in the header
    if case.get('fmt_parsed'):
        _check_parsed_formats(case, st, text_fixed, fmt_fix, expected, compare, copyright, out, stats)
        if out:
            return

    # ---- PARSED starting points: the same paragraph texts in another order (License before / between Files)
    if perm:
        _check_permuted(case, text_fixed, order, {'header': st.hcur, 'paras': final_paras}, compare, copyright, out, stats)


def _check_parsed_formats(case, st, text, fmt_shown, expected, compare, copyright, out, stats):
    """`text` is a dump that parses back to the spec and to itself and shows
    'Format: <fmt_shown>' in its header.  For every (V, style) of the case that
    line is replaced by 'Format: V' (or by the deprecated spelling
    'Format-Specification: V' the library documents to rewrite as Format) and the
    text is parsed: Format reads model_fixup(V), every other value is the
    spec's, dump() is the parsed text with the Format line showing
    model_fixup(V) (style 'format'; for 'format-specification' the first dump
    is not compared with a reference text), and that dump parses to the same
    values and dumps to itself."""
    kinds1 = [t for t, _ in expected]
    runs = 0
    values = 0
    for k, (v, style) in enumerate(case['fmt_parsed']):
        name = 'Format' if style == 'format' else 'Format-Specification'
        text_p = swap_format_line(text, fmt_shown, '%s: %s' % (name, v))
        if text_p is None:
            if stats is not None:
                stats['fmt_unsplittable'] = 1
            return
        fixed = model_fixup(v)
        exp_p = [('H', dict(st.hcur, format=fixed))] + list(expected[1:])
        what = 'parsed-%s' % style
        strict = (k + len(case['fmt_parsed'])) % 2 == 0
        mode = _rot(case['input'], 1 + k)

        def parse(t, m, strict, what):
            try:
                doc = copyright.Copyright(_feed(t, m), strict=strict)
                objs = list(doc.all_paragraphs())
            except Exception as e:
                out.append(('%s-parse-raises/%s' % (what, type(e).__name__),
                            'text %r (a dump with the Format line replaced; strict=%r, fed as %s) does not parse: %r'
                            % (t, strict, m, e)))
                return None, None
            kinds = [_kind_of(p, copyright) for p in objs]
            if kinds != kinds1:
                out.append(('%s-paragraphs-differ' % what, 'text carries %r, parsed document reports %r; text=%r'
                            % (kinds1, kinds, t)))
                return None, None
            return doc, objs

        c7, objs7 = parse(text_p, mode, strict, what)
        if c7 is None:
            return
        before = len(out)
        values += compare(objs7, what, exp_p)
        try:
            text7 = c7.dump()
        except Exception as e:
            out.append(('%s-dump-raises/%s' % (what, type(e).__name__), 'dump() of the parsed document raised %r' % (e,)))
            return
        if style == 'format':
            want = swap_format_line(text_p, v, 'Format: ' + fixed)
            if want is not None and text7 != want:
                out.append(('%s-dump-differs-from-parsed-text' % what,
                            'parsed %r, dump() gives %r (expected: the parsed text with Format %r)' % (text_p, text7, fixed)))
        if len(out) != before:
            return
        # one more cycle from what the first dump shows: same values, same text
        c8, objs8 = parse(text7, _rot(mode, 2), True, what + '-second-cycle')
        if c8 is None:
            return
        values += compare(objs8, what + '-second-cycle', exp_p)
        try:
            text8 = c8.dump()
        except Exception as e:
            out.append(('%s-second-cycle-dump-raises/%s' % (what, type(e).__name__), 'dump() raised %r' % (e,)))
            return
        if text8 != text7:
            out.append(('%s-second-cycle-dump-differs' % what, 'first cycle %r, second cycle %r' % (text7, text8)))
        if len(out) != before:
            return
        runs += 1
        if stats is not None:
            stats.setdefault('fmt_parsed_styles', []).append((style, v))
    if stats is not None:
        stats['fmt_parsed_runs'] = runs
        stats['fmt_parsed_values'] = values


def permuted_order(case):
    """Op indices in the order the permuted text T2 carries them: by op['pos'],
    ties (and specs without ranks) by order of addition."""
    ops = real_ops(case)
    return sorted(range(len(ops)), key=lambda i: (ops[i].get('pos', i), i))


def perm_classes(kinds, order, order2):
    """Names of the ordering classes a permuted sequence of kinds shows."""
    cls = set()
    f_at = [i for i, t in enumerate(kinds) if t == 'F']
    l_at = [i for i, t in enumerate(kinds) if t == 'L']
    if f_at and l_at:
        if l_at[0] < f_at[0]:
            cls.add('license-before-first-files')
        if any(f_at[0] < i < f_at[-1] for i in l_at):
            cls.add('license-between-files')
        if any(i > l_at[0] for i in f_at):
            cls.add('files-after-license')
        if l_at[-1] < f_at[0]:
            cls.add('all-licenses-before-all-files')
    elif f_at:
        cls.add('files-only')
    else:
        cls.add('license-only')
    rank = dict((op, k) for k, op in enumerate(order))
    seq = [rank[op] for op in order2]
    fs = [x for x, t in zip(seq, kinds) if t == 'F']
    ls = [x for x, t in zip(seq, kinds) if t == 'L']
    if fs != sorted(fs):
        cls.add('files-reordered-among-themselves')
    if ls != sorted(ls):
        cls.add('licenses-reordered-among-themselves')
    return cls


def _check_permuted(case, text, order, final, compare, copyright, out, stats):
    nops = len(order)
    order2 = permuted_order(case)
    if stats is not None:
        stats['perm'] = 'identity'
    if nops < 2 or order2 == order:
        return
    # cut the dump at its empty separator lines; every piece is text the library wrote for one paragraph
    if not text.endswith('\n') or text.endswith('\n\n'):
        pieces = []
    else:
        pieces = text[:-1].split('\n\n')
    if len(pieces) != nops + 1 or any(pc == '' or pc[0] == '\n' or pc[-1] == '\n' for pc in pieces):
        if stats is not None:
            stats['perm'] = 'unsplittable'
        return
    piece_of_op = dict((op, pieces[k + 1]) for k, op in enumerate(order))
    text_p = '\n\n'.join([pieces[0]] + [piece_of_op[op] for op in order2]) + '\n'
    expected_p = [('H', final['header'])] + [final['paras'][op] for op in order2]
    kinds_p = [t for t, _ in expected_p]
    if stats is not None:
        stats['perm'] = 'run'
        stats['perm_classes'] = perm_classes(kinds_p[1:], order, order2)
    mode = case['input']
    mode_b = _rot(mode, 1)

    def parse(t, m, what):
        try:
            doc = copyright.Copyright(_feed(t, m), strict=True)
        except Exception as e:
            out.append(('%s-strict-parse-raises/%s' % (what, type(e).__name__),
                        'text %r (paragraph texts of a dump, reordered; fed as %s) does not parse: %r' % (t, m, e)))
            return None, None
        objs = list(doc.all_paragraphs())
        kinds = [_kind_of(p, copyright) for p in objs]
        if kinds != kinds_p:
            key = '%s-paragraph-count-differs' if len(kinds) != len(kinds_p) else '%s-paragraph-order-or-kind-differs'
            out.append((key % what, 'text carries %r, parsed document reports %r; text=%r' % (kinds_p, kinds, t)))
            return None, None
        return doc, objs

    c3, objs3 = parse(text_p, mode, 'permuted')
    if c3 is None:
        return
    before = len(out)
    n = compare(objs3, 'permuted', expected_p)
    if stats is not None:
        stats['perm_paras'] = len(objs3)
        stats['perm_values'] = n
    try:
        text3 = c3.dump()
    except Exception as e:
        out.append(('permuted-dump-raises/%s' % type(e).__name__, 'dump() of the parsed document raised %r' % (e,)))
        return
    if text3 != text_p:
        out.append(('permuted-dump-differs-from-parsed-text', 'parsed %r, dump() gives %r' % (text_p, text3)))
    if len(out) != before:
        return
    # second cycle: a fixpoint, in values and in text
    c4, objs4 = parse(text3, mode_b, 'permuted-second-cycle')
    if c4 is None:
        return
    compare(objs4, 'permuted-second-cycle', expected_p)
    try:
        text4 = c4.dump()
    except Exception as e:
        out.append(('permuted-second-cycle-dump-raises/%s' % type(e).__name__, 'dump() raised %r' % (e,)))
        return
    if text4 != text3:
        out.append(('permuted-second-cycle-dump-differs', 'first cycle %r, second cycle %r' % (text3, text4)))
    if stats is not None:
        stats['perm_fixpoint'] = 1


# ---------------------------------------------------------------------------
# shrinking (only ever runs after a violation; candidates stay in the domain)

def _drop_line_variants(val, kind):
    if val is None:
        return
    if kind == 'license':
        lines = val[1].split('\n') if val[1] != '' else []
        for i in range(len(lines)):
            yield [val[0], '\n'.join(lines[:i] + lines[i + 1:])]
        if val[0] not in ('', 'X'):
            yield ['X', val[1]]
    elif kind == 'raw':
        lines = val.split('\n')
        for i in range(1, len(lines)):
            yield '\n'.join(lines[:i] + lines[i + 1:])
    elif kind in ('patterns', 'lines'):
        for i in range(len(val)):
            if len(val) > 1:
                yield val[:i] + val[i + 1:]


def _delete_op(c, i):
    """Remove op i; late assignments addressing it go, later indices move up."""
    ops = c['ops']
    if not ops[i].get('decoy'):
        k = len([op for op in ops[:i] if not op.get('decoy')])
        late = []
        for target, attr, val in c.get('late', []):
            if target == k:
                continue
            if target != 'H' and target > k:
                target -= 1
            late.append([target, attr, val])
        if 'late' in c:
            c['late'] = late
    del ops[i]


def _candidates(case):
    import copy
    ops = case.get('ops', [])
    header = case.get('header', [])
    for i in range(len(ops)):
        c = copy.deepcopy(case)
        _delete_op(c, i)
        yield c
    for i in range(len(case.get('hdecoys', []))):
        c = copy.deepcopy(case)
        del c['hdecoys'][i]
        yield c
    for i in range(len(case.get('late', []))):
        c = copy.deepcopy(case)
        del c['late'][i]
        yield c
    for i, op in enumerate(ops):
        for j in range(len(op.get('refuse', []))):
            c = copy.deepcopy(case)
            del c['ops'][i]['refuse'][j]
            yield c
    for j in range(len(case.get('hrefuse', []))):
        c = copy.deepcopy(case)
        del c['hrefuse'][j]
        yield c
    for flag in ('late_after_dump', 'hdr', 'early', 'nonstrict', 'second_round', 'allforms'):
        if case.get(flag):
            c = copy.deepcopy(case)
            del c[flag]
            yield c
    for i in range(len(case.get('fmt_parsed', []))):
        c = copy.deepcopy(case)
        del c['fmt_parsed'][i]
        if not c['fmt_parsed']:
            del c['fmt_parsed']
        yield c
    if case.get('hdata') is not None:
        for i in range(len(case['hdata'].get('fields', []))):
            c = copy.deepcopy(case)
            del c['hdata']['fields'][i]
            yield c
        # the same Format by assignment instead of at construction
        c = copy.deepcopy(case)
        hd = c.pop('hdata')
        c['header'] = [list(f) for f in hd.get('fields', [])] + [['format', hd['format']]] + c.get('header', [])
        yield c
    for i, assignments in enumerate(case.get('hdecoys', [])):
        for j in range(len(assignments)):
            c = copy.deepcopy(case)
            del c['hdecoys'][i][j]
            yield c
    for i, op in enumerate(ops):
        if op.get('reuse'):
            c = copy.deepcopy(case)
            del c['ops'][i]['reuse']
            yield c
    for i in range(len(header)):
        c = copy.deepcopy(case)
        del c['header'][i]
        yield c
    for i, op in enumerate(ops):
        for j in range(len(op.get('then', []))):
            c = copy.deepcopy(case)
            del c['ops'][i]['then'][j]
            yield c
    for i, op in enumerate(ops):
        table = FILES_FIELDS if op['t'] == 'F' else LICENSE_FIELDS
        for attr in ('files', 'copyright', 'license'):
            if attr in op:
                for v in _drop_line_variants(op[attr], table[attr][1]):
                    c = copy.deepcopy(case)
                    c['ops'][i][attr] = v
                    yield c
        for j, (attr, val) in enumerate(op.get('then', [])):
            for v in _drop_line_variants(val, table[attr][1]):
                c = copy.deepcopy(case)
                c['ops'][i]['then'][j][1] = v
                yield c
    for i, (attr, val) in enumerate(header):
        for v in _drop_line_variants(val, HEADER_FIELDS[attr][1]):
            c = copy.deepcopy(case)
            c['header'][i][1] = v
            yield c
    real = real_ops(case)
    for i, (target, attr, val) in enumerate(case.get('late', [])):
        table = HEADER_FIELDS if target == 'H' else FILES_FIELDS if real[target]['t'] == 'F' else LICENSE_FIELDS
        for v in _drop_line_variants(val, table[attr][1]):
            c = copy.deepcopy(case)
            c['late'][i][2] = v
            yield c


def shrink(case, key, budget=400):
    cur = case
    progress = True
    while progress and budget > 0:
        progress = False
        for cand in _candidates(cur):
            budget -= 1
            if budget <= 0:
                break
            if not spec_in_domain(cand):
                continue
            try:
                found = check_doc(cand)
            except Exception:
                continue
            if any(k == key for k, _ in found):
                cur = cand
                progress = True
                break
    return cur


# ---------------------------------------------------------------------------
# several documents built one after another in one case, all kept alive

MULTI_SUFFIX = '/only-with-other-documents-built-in-the-same-process'


def check_multi(case, stats=None):
    """Returns a list of (key, message, doc index)."""
    from .. import contracts
    from ..core import MonitorViolation
    try:
        return _check_multi(case, stats)
    except MonitorViolation as e:
        contracts.PENDING[:] = []
        return [(e.key, e.msg, None)]


def _check_multi(case, stats):
    from debian import copyright
    docs = case['docs']
    licobjs = {}
    states, outs = [], []
    for doc in docs:
        o = []
        st = _build(doc, copyright, o, stats, licobjs)
        if st is not None and not o:
            _apply_late(doc, st, copyright, o)
        states.append(st)
        outs.append(o)
    # every object of every document still shows its own values after all the others were built
    for st, o in zip(states, outs):
        if st is not None and not o:
            st.watch(copyright, o)
    for doc, st, o in zip(docs, states, outs):
        if st is not None and not o:
            ds = {} if stats is not None else None
            _verify(doc, st, copyright, o, ds, perm=False)
            if stats is not None:
                stats['values'] = stats.get('values', 0) + ds.get('values', 0) + ds.get('nonstrict_values', 0)
                stats['docs'] = stats.get('docs', 0) + 1
    if stats is not None:
        stats['watched'] = sum(st.watched for st in states if st is not None)
    return [(k, m, i) for i, o in enumerate(outs) for k, m in o]


def shrink_multi(case, key, budget=60):
    import copy
    cur = case
    progress = True
    while progress and budget > 0 and len(cur['docs']) > 1:
        progress = False
        for i in range(len(cur['docs'])):
            budget -= 1
            cand = copy.deepcopy(cur)
            del cand['docs'][i]
            try:
                found = check_multi(cand)
            except Exception:
                continue
            if any(k == key for k, _m, _i in found):
                cur = cand
                progress = True
                break
    return cur


# ---------------------------------------------------------------------------
# list-valued fields through their typed getters: many lists, few objects

def _list_same(L, got):
    return got is not None and not isinstance(got, str) and list(got) == list(L)


def check_lists(case, stats=None):
    """Each list of the case is (a) given to a FRESH object (FilesParagraph.create /
    Header() + setter) and read back, (b) assigned to ONE long-lived object and read
    back twice, (c) written by the fresh object's dump() and read back from a
    paragraph object constructed over the parsed text; at the end (d) every fresh
    object still reads its own list and (e) one document holding the objects is
    dumped and parsed back (strict and non-strict).  Returns (key, msg, index)."""
    from .. import contracts
    from ..core import MonitorViolation
    try:
        return _check_lists(case, stats)
    except MonitorViolation as e:
        contracts.PENDING[:] = []
        return [(e.key, e.msg, None)]
    finally:
        _close_scratch()


def _check_lists(case, stats):
    from debian import copyright, deb822
    field = case['field']
    lists = case['lists']
    fname = field.replace('_', '-')
    is_files = field == 'files'
    forms = ALL_INPUTS if case.get('wide') else INPUTS
    out = []
    n = {'fresh': 0, 'reassigned': 0, 'reparsed': 0, 'kept': 0, 'doc': 0}

    def fresh(L):
        if is_files:
            return copyright.FilesParagraph.create(list(L), 'c', copyright.License('X'))
        h = copyright.Header()
        setattr(h, field, list(L))
        return h

    kept = []
    longlived = None
    for i, L in enumerate(lists):
        try:
            o = fresh(L)
            got = getattr(o, field)
        except Exception as e:
            out.append(('%s-list-rejected-or-unreadable/%s' % (fname, type(e).__name__),
                        'list %r: %r' % (L, e), i))
            continue
        n['fresh'] += 1
        if not _list_same(L, got):
            out.append(('created-%s-list-differs' % fname, 'assigned %r to a new object, getter returns %r' % (L, got), i))
            continue
        kept.append((i, L, o))
        # one long-lived object, re-assigned again and again (list and tuple arguments alternate)
        try:
            if longlived is None:
                longlived = fresh(lists[0])
            setattr(longlived, field, tuple(L) if i % 2 else list(L))
            g1 = getattr(longlived, field)
            g2 = getattr(longlived, field)
        except Exception as e:
            out.append(('%s-list-rejected-or-unreadable/%s' % (fname, type(e).__name__),
                        're-assigning %r: %r' % (L, e), i))
            continue
        n['reassigned'] += 1
        if not _list_same(L, g1):
            out.append(('reassigned-%s-list-differs' % fname,
                        'assigned %r to an object that held %r before, getter returns %r'
                        % (L, lists[i - 1] if i else lists[0], g1), i))
        elif not _list_same(L, g2):
            out.append(('second-read-of-%s-list-differs' % fname, 'assigned %r, second read returns %r' % (L, g2), i))
        # the paragraph's own dump, parsed back into a paragraph object of the same class
        try:
            text = o.dump()
            para = deb822.Deb822(_feed(text, forms[i % len(forms)]))
            if is_files:
                o2 = copyright.FilesParagraph(para) if i % 3 else copyright.FilesParagraph(para, strict=False)
            else:
                o2 = copyright.Header(para)
            got2 = getattr(o2, field)
        except Exception as e:
            out.append(('paragraph-reparse-of-%s-list-raises/%s' % (fname, type(e).__name__),
                        'list %r: %r' % (L, e), i))
            continue
        n['reparsed'] += 1
        if not _list_same(L, got2):
            out.append(('paragraph-reparsed-%s-list-differs' % fname,
                        'assigned %r, dump %r, getter of the re-parsed paragraph returns %r' % (L, text, got2), i))
    # (d) every object created above still holds its own list
    for i, L, o in kept:
        try:
            got = getattr(o, field)
        except Exception as e:
            out.append(('watched-getter-raises/%s' % type(e).__name__, 'list %r: %r' % (L, e), i))
            continue
        n['kept'] += 1
        if not _list_same(L, got):
            out.append(('watched-%s-list-differs' % fname,
                        'object created with %r returns %r after %d more objects were created'
                        % (L, got, len(kept) - 1), i))
    # (e) one document with all of them (Files) / with the last header
    if kept and not out:
        try:
            c = copyright.Copyright()
            if is_files:
                for _i, _L, o in kept:
                    c.add_files_paragraph(o)
                want = [(i, L) for i, L, _o in kept]
            else:
                c.header = kept[-1][2]
                want = [(kept[-1][0], kept[-1][1])]
            text = c.dump()
            for strict in (True, False):
                c2 = copyright.Copyright(_feed(text, forms[(len(lists) + strict + (3 if case.get('wide') else 0)) % len(forms)]), strict=strict)
                objs = list(c2.all_files_paragraphs()) if is_files else [c2.header]
                where = 'reparsed' if strict else 'nonstrict-reparsed'
                if len(objs) != len(want):
                    out.append(('%s-paragraph-count-differs' % where, 'wrote %d Files paragraphs, parsed %d; dump=%r'
                                % (len(want), len(objs), text), None))
                    continue
                for (i, L), o2 in zip(want, objs):
                    got = getattr(o2, field)
                    n['doc'] += 1
                    if not _list_same(L, got):
                        out.append(('%s-%s-list-differs' % (where, fname),
                                    'assigned %r, document dump %r, parsed with strict=%r, getter returns %r'
                                    % (L, text, strict, got), i))
        except Exception as e:
            out.append(('list-document-round-trip-raises/%s' % type(e).__name__, '%r' % (e,), None))
    if stats is not None:
        stats.update(n)
    return out


def shrink_lists(case, key, index):
    """Smallest replayable witness: the one list alone if that shows the same
    mechanism, else the shortest prefix / sub-sequence that does."""
    def shows(c):
        try:
            return any(k == key for k, _m, _i in check_lists(c))
        except Exception:
            return False
    base = {'kind': 'lists', 'field': case['field']}
    if case.get('wide'):
        base['wide'] = 1
    if index is not None:
        single = dict(base, lists=[case['lists'][index]])
        if shows(single):
            return single
    cur = list(case['lists'])
    budget = 60
    i = 0
    while i < len(cur) and budget > 0 and len(cur) > 1:
        budget -= 1
        cand = cur[:i] + cur[i + 1:]
        if shows(dict(base, lists=cand)):
            cur = cand
        else:
            i += 1
    return dict(base, lists=cur)


# ---------------------------------------------------------------------------
# codec / license checks

def check_codec_list(ctx, lines, enumerated=False):
    from debian import copyright
    from .. import contracts
    from ..core import MonitorViolation
    small = {'kind': 'codec', 'lists': [lines]}
    if not codec_domain(lines):
        ctx.count('codec:outside-domain')
        # outside the stated precondition nothing is demanded - the calls are still made (must not be judged)
        try:
            copyright.parse_multiline_as_lines(copyright.format_multiline_lines(list(lines)))
        except Exception:
            ctx.count('codec:outside-domain-raised')
        return
    ctx.mon('M.codec')
    if enumerated:
        ctx.count('codec:enumerated-in-domain')
    joined = '\n'.join(lines)
    try:
        enc = copyright.format_multiline_lines(list(lines))
        dec = copyright.parse_multiline_as_lines(enc)
    except MonitorViolation as e:
        contracts.PENDING[:] = []
        ctx.violation(e.key, e.msg, small)
        return
    except Exception as e:
        ctx.violation('codec-raises-in-domain/%s' % type(e).__name__, 'lines %r: %r' % (lines, e), small)
        return
    if not isinstance(enc, str) or not isinstance(dec, list) or '\n'.join(dec) != joined:
        ctx.violation('codec-decode-of-encode-differs', 'lines %r encode to %r decode to %r' % (lines, enc, dec), small)
        return
    if len(lines) >= 2 and any(l == '' or l != l.strip() for l in lines):
        ctx.nontrivial(case={'codec': lines})
    # the str-level pair, when the joined text is representable (last line non-blank)
    if lines and lines[-1].strip() != '':
        ctx.mon('M.codec-str')
        try:
            enc_s = copyright.format_multiline(joined)
            dec_s = copyright.parse_multiline(enc_s)
        except MonitorViolation as e:
            contracts.PENDING[:] = []
            ctx.violation(e.key, e.msg, small)
            return
        except Exception as e:
            ctx.violation('codec-str-raises-in-domain/%s' % type(e).__name__, 'text %r: %r' % (joined, e), small)
            return
        if dec_s != joined:
            ctx.violation('codec-str-decode-of-encode-differs',
                          'text %r encodes to %r decodes to %r' % (joined, enc_s, dec_s), small)


def check_license(ctx, lic):
    from debian import copyright
    from .. import contracts
    from ..core import MonitorViolation
    small = {'kind': 'license', 'licenses': [lic]}
    if not license_ok(lic):
        ctx.count('license:outside-domain')
        return
    ctx.mon('M.license')
    try:
        l = copyright.License(lic[0], lic[1])
        s = l.to_str()
        back = copyright.License.from_str(s)
    except MonitorViolation as e:
        contracts.PENDING[:] = []
        ctx.violation(e.key, e.msg, small)
        return
    except Exception as e:
        ctx.violation('license-codec-raises/%s' % type(e).__name__, 'License%r: %r' % (tuple(lic), e), small)
        return
    if l.synopsis != lic[0] or l.text != lic[1]:
        ctx.violation('license-constructor-alters-value', 'License%r holds %r' % (tuple(lic), tuple(l)), small)
        return
    if not isinstance(back, copyright.License) or back.synopsis != lic[0]:
        ctx.violation('license-synopsis-differs-after-to-str-from-str',
                      'License%r -> %r -> %r' % (tuple(lic), s, back), small)
    elif back.text != lic[1]:
        ctx.violation('license-text-differs-after-to-str-from-str',
                      'License%r -> %r -> %r' % (tuple(lic), s, back), small)
    else:
        if '\n' in lic[1]:
            ctx.nontrivial(case={'license': lic})
        # the ENCODED string is the reference: decoding and encoding what the library itself produced is the identity
        ctx.mon('M.license-enc')
        lead = common_indent(lic[1].split('\n'))
        if lead:
            ctx.count('lic:common-indent')
            ctx.count('lic:common-indent-%s' % _indent_class(lead))
            if '' in lic[1].split('\n'):
                ctx.count('lic:common-indent-with-empty-line')
        try:
            s2 = back.to_str()
            s3 = copyright.License.from_str(s2).to_str()
        except MonitorViolation as e:
            contracts.PENDING[:] = []
            ctx.violation(e.key, e.msg, small)
            return
        except Exception as e:
            ctx.violation('license-reencode-raises/%s' % type(e).__name__,
                          'License%r -> %r -> from_str -> to_str: %r' % (tuple(lic), s, e), small)
            return
        if s2 != s:
            ctx.violation('license-encoded-string-differs-after-from-str-to-str',
                          'License%r encodes to %r; from_str(that).to_str() = %r' % (tuple(lic), s, s2), small)
        elif s3 != s:
            ctx.violation('license-encoded-string-not-a-fixpoint',
                          'License%r encodes to %r; second from_str/to_str cycle gives %r' % (tuple(lic), s, s3), small)


# ---------------------------------------------------------------------------
# documents given as RAW field text: what the parser / the data objects hand back, dump, strict re-parse, re-dump

def _license_outcome(p):
    """What reading .license gives: ('value', synopsis, text) or ('raises', exception type name)."""
    try:
        got = p.license
    except Exception as e:
        return ('raises', type(e).__name__)
    if got is None:
        return ('none',)
    try:
        return ('value', got.synopsis, got.text)
    except Exception:
        return ('other', repr(got))


def _raw_observe(p, para, where, label, copyright, out, outcomes):
    """Every field of one paragraph object against the raw text that was written: the raw value through the mapping
    interface, the typed value through the property (per the module's own models), absent properties read as absent.
    Returns the number of values compared."""
    t = para['t']
    table = RAWDOC_FIELDS[t]
    n = 0
    have = set()
    for name, raw in para['fields']:
        low = name.lower()
        if name in table:
            have.add(table[name][0])
        try:
            got = p[name]
        except Exception as e:
            out.append(('raw:%s-field-unreadable/%s' % (where, type(e).__name__),
                        'paragraph %s (%s): reading [%r] raised %r; written %r' % (label, t, name, e, raw)))
            continue
        n += 1
        if not (isinstance(got, str) and got == raw):
            out.append(('raw:%s-%s-differs' % (where, low),
                        'paragraph %s (%s) [%r]: written %r, %s document has %r' % (label, t, name, raw, where, got)))
            continue
        if name not in table:
            continue
        attr, kind = table[name]
        if kind == 'license':
            outcome = _license_outcome(p)
            exp = model_license(raw)
            if exp is None:
                outcomes.append((label, name, outcome))       # not demanded; must be the same before and after
                continue
            n += 1
            if outcome != ('value', exp[0], exp[1]):
                out.append(('raw:%s-typed-license-differs' % where,
                            'paragraph %s (%s) .license: raw text %r decodes (one structural blank per continuation '
                            'line) to %r, %s document gives %r' % (label, t, raw, exp, where, outcome)))
            continue
        try:
            typed = getattr(p, attr)
        except Exception as e:
            out.append(('raw:%s-getter-raises/%s' % (where, type(e).__name__),
                        'paragraph %s (%s) .%s raised %r; raw text %r' % (label, t, attr, e, raw)))
            continue
        n += 1
        if kind == 'patterns':
            ok = not isinstance(typed, str) and typed is not None and list(typed) == raw.split()
        elif kind == 'lines':
            ok = not isinstance(typed, str) and typed is not None and list(typed) == model_lines(raw)
        else:
            ok = isinstance(typed, str) and typed == raw
        if not ok:
            out.append(('raw:%s-typed-%s-differs' % (where, low),
                        'paragraph %s (%s) .%s: raw text %r, %s document gives %r' % (label, t, attr, raw, where, typed)))
    for name, (attr, kind) in table.items():
        if attr in have:
            continue
        try:
            typed = getattr(p, attr)
        except Exception as e:
            out.append(('raw:%s-getter-raises/%s' % (where, type(e).__name__),
                        'paragraph %s (%s) .%s (field not written) raised %r' % (label, t, attr, e)))
            continue
        n += 1
        if not _same('lines' if kind in ('lines', 'patterns') else 'raw', None, typed, copyright):
            out.append(('raw:%s-absent-%s-reads-as-present' % (where, name.lower()),
                        'paragraph %s (%s) .%s: field not written, %s document gives %r' % (label, t, attr, where, typed)))
    return n


def check_rawdoc(case, stats=None):
    """Returns a list of (key, message)."""
    from .. import contracts
    from ..core import MonitorViolation
    try:
        return _check_rawdoc(case, stats)
    except MonitorViolation as e:
        contracts.PENDING[:] = []
        return [(e.key, e.msg)]
    finally:
        _close_scratch()


def _check_rawdoc(case, stats):
    from debian import copyright, deb822
    out = []
    paras = case['paras']
    kinds1 = [para['t'] for para in paras]
    text0 = write_rawdoc(paras)
    values = 0

    def observe(c, where, outcomes):
        n = 0
        try:
            objs = list(c.all_paragraphs())
        except Exception as e:
            out.append(('raw:%s-all-paragraphs-raises/%s' % (where, type(e).__name__), repr(e)))
            return None
        kinds = [_kind_of(p, copyright) for p in objs]
        if kinds != kinds1:
            key = 'raw:%s-paragraph-count-differs' if len(kinds) != len(kinds1) else 'raw:%s-paragraph-kind-differs'
            out.append((key % where, 'written %r, %s document reports %r; text=%r' % (kinds1, where, kinds, text0)))
            return None
        for k, (p, para) in enumerate(zip(objs, paras)):
            n += _raw_observe(p, para, where, '#%d' % k, copyright, out, outcomes)
        return n

    # ---- the starting point: parsed from the text the generator wrote / assembled over data objects
    if case['via'] == 'text':
        where0 = 'parsed'
        try:
            c = copyright.Copyright(_feed(text0, case['input']), strict=True)
        except Exception as e:
            out.append(('raw:strict-parse-raises/%s' % type(e).__name__,
                        'text %r (fed as %s) does not parse: %r' % (text0, case['input'], e)))
            return out
    else:
        where0 = 'built'
        try:
            c = copyright.Copyright()
            for para in paras:
                data = deb822.Deb822()
                for name, raw in para['fields']:
                    data[name] = raw
                if para['t'] == 'H':
                    c.header = copyright.Header(data)
                elif para['t'] == 'F':
                    c.add_files_paragraph(copyright.FilesParagraph(data))
                else:
                    c.add_license_paragraph(copyright.LicenseParagraph(data))
        except Exception as e:
            out.append(('raw:build-rejects-valid-value/%s' % type(e).__name__,
                        'assembling the document over data objects raised %r' % (e,)))
            return out
    outcomes0 = []
    n = observe(c, where0, outcomes0)
    if n is None or out:
        return [(k, m + ' [starting point: %s%s]' % (case['via'], ', fed as ' + case['input'] if case['via'] == 'text' else ''))
                for k, m in out]
    values += n

    # ---- dump; the dump parses back (strict) to what was written; its dump is the same text
    try:
        text1 = c.dump()
    except Exception as e:
        out.append(('raw:dump-raises/%s' % type(e).__name__, 'dump() raised %r' % (e,)))
        return out
    if not isinstance(text1, str):
        out.append(('raw:dump-not-text', 'dump() returned %r' % (type(text1),)))
        return out
    if stats is not None:
        stats['dump_equals_written_text'] = int(text1 == text0)
    cur = text1
    for rnd, mode in enumerate((case['input2'], _rot(case['input2'], 5))):
        where = 'reparsed' if rnd == 0 else 'second-round-reparsed'
        try:
            c2 = copyright.Copyright(_feed(cur, mode), strict=True)
        except Exception as e:
            out.append(('raw:%s-strict-parse-raises/%s' % (where, type(e).__name__),
                        'dump %r (fed as %s) does not parse back: %r' % (cur, mode, e)))
            return out
        outcomes2 = []
        n = observe(c2, where, outcomes2)
        if n is None or out:
            return [(k, m + ' [dump %r fed as %s]' % (cur, mode)) for k, m in out]
        values += n
        if outcomes2 != outcomes0:
            out.append(('raw:license-getter-outcome-changes-over-dump-and-reparse',
                        'before %r, after dump + strict re-parse %r; dump=%r' % (outcomes0, outcomes2, cur)))
            return out
        try:
            text2 = c2.dump()
        except Exception as e:
            out.append(('raw:redump-raises/%s' % type(e).__name__, 'dump() of the re-parsed document raised %r' % (e,)))
            return out
        if text2 != cur:
            out.append(('raw:redump-differs' if rnd == 0 else 'raw:second-round-redump-differs',
                        'dump %r (fed as %s), dump of the re-parsed document %r' % (cur, mode, text2)))
            return out
        cur = text2
    if stats is not None:
        stats['values'] = values
        stats['undecodable_license_outcomes'] = [o[2][0] for o in outcomes0]
    return out


def _rawdoc_candidates(case):
    import copy
    paras = case['paras']
    for i in range(1, len(paras)):
        c = copy.deepcopy(case)
        del c['paras'][i]
        yield c
    for i, para in enumerate(paras):
        for j in range(len(para['fields'])):
            c = copy.deepcopy(case)
            del c['paras'][i]['fields'][j]
            yield c
    for i, para in enumerate(paras):
        for j, (name, raw) in enumerate(para['fields']):
            lines = raw.split('\n')
            for k in range(1, len(lines)):
                c = copy.deepcopy(case)
                c['paras'][i]['fields'][j][1] = '\n'.join(lines[:k] + lines[k + 1:])
                yield c
    for key in ('input', 'input2'):
        if case[key] != 'keepends':
            c = copy.deepcopy(case)
            c[key] = 'keepends'
            yield c


def shrink_rawdoc(case, key, budget=300):
    cur = case
    progress = True
    while progress and budget > 0:
        progress = False
        for cand in _rawdoc_candidates(cur):
            budget -= 1
            if budget <= 0:
                break
            if not rawdoc_in_domain(cand):
                continue
            try:
                found = check_rawdoc(cand)
            except Exception:
                continue
            if any(k == key for k, _ in found):
                cur = cand
                progress = True
                break
    return cur


def rawdoc_features(case):
    feats = set()
    for para in case['paras']:
        for name, raw in para['fields']:
            for cl in uni_classes(raw):
                feats.add('uni-' + cl)
            mc = marker_classes(raw)
            for cl in mc:
                feats.add('marker-' + cl)
            if mc:
                feats.add('marker-in-%s' % name.lower())
            if name == 'License' and '\n' in raw:
                feats.add('license-raw-decodable' if model_license(raw) is not None else 'license-raw-tab-or-other-marker')
    return feats


# ---------------------------------------------------------------------------
# confirmation of witnesses in a fresh interpreter (what --replay does)

# ---------------------------------------------------------------------------
# round 11: LONG texts + "caller changes what a public helper handed out"
#
# kind 'handout' = {'texts': [{'unit': [lines], 'n': repeats, 'num': 0|1}, ...], 'steps': [...]}.  A text is the unit
# repeated n times (num: the repeat number is appended to the unit's first line), framed by a first and a last line, so
# 2 KiB .. 64 KiB texts stay small in a witness file.  Steps:
#   ['helper', name, ti, mut]   one public helper of debian.copyright called on the LONG value of text ti; what it returns
#                               is judged by the codec law of the statement (decode of the library's own encoding ==
#                               the lines), then the caller changes the list it was handed (or the list it handed in);
#   ['doc', paras, input]       a document holding the same long texts (License text, raw Copyright / Comment) is built
#                               through the API, dumped, parsed back strict, every value compared with what the
#                               generator wrote, re-dumped; built and re-parsed objects are KEPT;
#   ['reparse', di, input]      the dump of kept document di is parsed once more;
# after every helper step all kept documents are re-read.  Only the statement is judged: texts read back equal what was
# written; decode(encode(lines)) == lines.
HANDOUT = {'quick': 240, 'thorough': 14000}
HO_HELPERS = ('parse_lines', 'parse_lines', 'parse_lines', 'parse', 'format_lines', 'format', 'lic_from_str',
              'lic_to_str', 'lic_roundtrip')
HO_MUTS = ('none', 'del0', 'clear', 'append', 'upper', 'reverse', 'pop', 'setitem', 'insert', 'slice', 'sort', 'extend')
HO_SIZES = (('short', 200, 1900), ('2k', 2048, 4096), ('2k', 2048, 4096), ('4k', 4096, 16384), ('4k', 4096, 16384),
            ('16k', 16384, 65536))
HO_INDENTS = ['', '', '', ' ', '  ', '    ', '        ', '\t', ' \t']
HO_SYNS = ['GPL-2+', 'MIT', 'Apache-2.0 or GPL-2', 'Expat', 'GPL-2+ with OpenSSL exception', 'X', 'CC-BY-SA-4.0']
HO_TAILS = ['', '', '', ' éü', ' — 中文', ' (c)', ' <a@b.example>', ' 1.', ' ..', ' -- x']


def ho_lines(t, salt=''):
    unit, n, num = t['unit'], t['n'], t.get('num')
    out = ['Begin of text' + salt]
    for k in range(n):
        for j, l in enumerate(unit):
            out.append(l + (' %d' % k if (num and j == 0) else ''))
    out.append('end of text.')
    return out


def ho_encode(lines):
    """The module's own (trivial) model of the ' .' encoding, valid inside the stated domain."""
    return '\n'.join([lines[0]] + [' ' + (l if l != '' else '.') for l in lines[1:]])


def ho_size_class(n):
    return 'short' if n < 2048 else '2k' if n < 4096 else '4k' if n < 16384 else '16k' if n < 65536 else '64k+'


def gen_ho_text(r, size=None):
    _cl, lo, hi = size or r.choice(HO_SIZES)
    unit = []
    for _ in range(r.randint(3, 12)):
        if unit and unit[-1] != '' and r.random() < 0.2:
            unit.append('')
            continue
        unit.append(r.choice(HO_INDENTS) + ' '.join(r.choice(WORDS) for _ in range(r.randint(1, 12))).strip()
                    + r.choice(HO_TAILS))
    if unit[0] == '' or not unit[0].strip():
        unit[0] = 'x'
    unit = [l if l.strip() != '.' else l + 'x.' for l in unit]      # a lone '.' is outside the stated domain
    num = 1 if r.random() < 0.6 else 0
    per = sum(len(l) + 2 for l in unit) + (4 if num else 0)
    target = r.randint(lo, hi)
    return {'unit': unit, 'n': max(1, -(-target // per)), 'num': num}


def gen_handout(r, tier='quick'):
    nt = r.choice((1, 2, 2, 3))
    texts = [gen_ho_text(r) for _ in range(nt)]
    if all(len(ho_encode(ho_lines(t))) < 2200 for t in texts):
        texts[0] = gen_ho_text(r, r.choice(HO_SIZES[1:]))
    steps = []
    ndocs = 0

    def doc():
        paras = []
        for _ in range(r.randint(1, 4)):
            ti = r.randrange(nt)
            if r.random() < 0.55:
                paras.append(['files', [r.choice(PATTERN_ATOMS[:6]) for _ in range(r.randint(1, 3))],
                              r.randrange(nt) if r.random() < 0.4 else None, r.choice(HO_SYNS), ti,
                              r.randrange(nt) if r.random() < 0.25 else None])
            else:
                paras.append(['license', r.choice(HO_SYNS), ti, r.randrange(nt) if r.random() < 0.3 else None])
        return ['doc', paras, r.choice(ALL_INPUTS)]

    def helper(mut=None):
        name = r.choice(HO_HELPERS)
        return ['helper', name, r.randrange(nt), mut if mut is not None else r.choice(HO_MUTS)]

    shape = r.choice(('helper-first', 'doc-first', 'mixed', 'mixed'))
    if shape == 'doc-first':
        steps.append(doc())
        ndocs += 1
    for _ in range(r.randint(1, 3)):
        steps.append(helper())
    if shape != 'helper-first' and r.random() < 0.5:
        steps.append(['helper', 'parse_lines', r.randrange(nt), r.choice(HO_MUTS[1:])])
    for _ in range(r.randint(1, 2)):
        steps.append(doc())
        ndocs += 1
        if r.random() < 0.6:
            steps.append(helper())
        if r.random() < 0.3:
            steps.append(['reparse', r.randrange(ndocs), r.choice(ALL_INPUTS)])
    if r.random() < 0.5:
        steps.append(['helper', r.choice(('parse_lines', 'lic_from_str', 'parse', 'lic_roundtrip')), r.randrange(nt), 'none'])
    return {'kind': 'handout', 'texts': texts, 'steps': steps}


def handout_in_domain(case):
    try:
        texts = case['texts']
        if not isinstance(texts, list) or not texts:
            return False
        if not re.match(r'^( s[0-9]{1,6})?$', case.get('salt', '')):
            return False
        for t in texts:
            if not isinstance(t['n'], int) or not 1 <= t['n'] <= 200000 or not isinstance(t['unit'], list) or not t['unit']:
                return False
            if not all(isinstance(l, str) for l in t['unit']):
                return False
            lines = ho_lines(t)
            if sum(len(l) + 2 for l in lines) > 400000:
                return False
            if not codec_domain(lines) or not text_ok('\n'.join(lines)):
                return False
            if any(l != l.rstrip() for l in lines) or not raw_ok(ho_encode(lines)):
                return False
        nt = len(texts)
        ndocs = 0
        for s in case['steps']:
            if s[0] == 'helper':
                if s[1] not in HO_HELPERS or s[3] not in HO_MUTS or not 0 <= s[2] < nt:
                    return False
            elif s[0] == 'doc':
                if s[2] not in ALL_INPUTS or not s[1]:
                    return False
                for p in s[1]:
                    if p[0] == 'files':
                        _k, pats, tc, syn, ti, tm = p
                        if not patterns_ok(pats):
                            return False
                    elif p[0] == 'license':
                        _k, syn, ti, tm = p
                        tc = None
                    else:
                        return False
                    if not single_ok(syn) or not 0 <= ti < nt:
                        return False
                    if any(x is not None and not 0 <= x < nt for x in (tc, tm)):
                        return False
                ndocs += 1
            elif s[0] == 'reparse':
                if not 0 <= s[1] < ndocs or s[2] not in ALL_INPUTS:
                    return False
            else:
                return False
        return True
    except Exception:
        return False


def _ho_mutate(L, mut):
    if mut == 'del0':
        del L[0]
    elif mut == 'clear':
        del L[:]
    elif mut == 'append':
        L.append('appended by the caller')
    elif mut == 'upper':
        L[:] = [l.upper() + '!' for l in L]
    elif mut == 'reverse':
        L.reverse()
        L.append('x')
    elif mut == 'pop':
        L.pop()
    elif mut == 'setitem':
        L[len(L) // 2] = 'changed by the caller'
    elif mut == 'insert':
        L.insert(1, 'inserted by the caller')
    elif mut == 'slice':
        L[1:-1] = ['only line left']
    elif mut == 'sort':
        L.sort()
        L.append('')
    elif mut == 'extend':
        L.extend(['', 'two more', 'lines'])


def _ho_diff(exp, got):
    if not isinstance(got, (list, tuple)):
        return 'got %s' % ascii(got)[:200]
    for i, (a, b) in enumerate(zip(exp, got)):
        if a != b:
            return 'line %d of %d is %s, expected %s (result has %d lines)' % (i, len(exp), ascii(b)[:120], ascii(a)[:120], len(got))
    return 'result has %d lines, expected %d; first %s, last %s' % (
        len(got), len(exp), ascii(got[0])[:80] if got else None, ascii(got[-1])[:80] if got else None)


def check_handout(case, stats=None, quiet=False):
    """[(key, msg)].  quiet: the K.codec contract on format_multiline_lines does not evaluate during this execution
    (its re-entrancy guard is held), so that this oracle names what the documents and helpers show."""
    from debian import copyright
    from .. import contracts
    if quiet:
        contracts._DEPTH[0] += 1
    try:
        return _check_handout(case, copyright, stats if stats is not None else {})
    finally:
        if quiet:
            contracts._DEPTH[0] -= 1
        _close_scratch()


def _ho_read_doc(doc, expected, where, sfx, out, stats):
    """Every paragraph of `doc` against the generator's values."""
    try:
        paras = list(doc.all_paragraphs())[1:]
    except Exception as e:
        out.append(('long-text-document/%s/all_paragraphs-raises/%s%s' % (where, type(e).__name__, sfx), repr(e)[:300]))
        return
    if len(paras) != len(expected):
        out.append(('long-text-document/%s/paragraph-count%s' % (where, sfx),
                    '%d paragraphs, %d were written' % (len(paras), len(expected))))
        return
    for i, (p, (kind, vals)) in enumerate(zip(paras, expected)):
        got_kind = 'files' if type(p).__name__ == 'FilesParagraph' else 'license' if type(p).__name__ == 'LicenseParagraph' else type(p).__name__
        if got_kind != kind:
            out.append(('long-text-document/%s/paragraph-kind%s' % (where, sfx), 'paragraph %d is %s, written %s' % (i, got_kind, kind)))
            continue
        for attr, exp in vals:
            stats['values'] = stats.get('values', 0) + 1
            try:
                got = getattr(p, attr)
            except Exception as e:
                out.append(('long-text-document/%s/%s-paragraph/%s-raises/%s%s' % (where, kind, attr, type(e).__name__, sfx),
                            'paragraph %d: reading .%s raises %r' % (i, attr, e)))
                continue
            if attr == 'license':
                ok = got is not None and got.synopsis == exp[0] and got.text == exp[1]
                detail = '' if ok else ('synopsis %s / %s; ' % (ascii(getattr(got, 'synopsis', None)), ascii(exp[0]))
                                        + _ho_diff(exp[1].split('\n'), (getattr(got, 'text', None) or '').split('\n')))
            elif attr == 'files':
                ok = list(got) == list(exp)
                detail = '' if ok else 'got %s expected %s' % (ascii(got), ascii(exp))
            else:
                ok = got == exp
                detail = '' if ok else _ho_diff((exp or '').split('\n'), (got or '').split('\n') if isinstance(got, str) else got)
            if not ok:
                out.append(('long-text-document/%s/%s-paragraph/%s-differs-from-what-was-written%s' % (where, kind, attr, sfx),
                            'paragraph %d (%s), .%s of %d characters: %s' % (
                                i, kind, attr, len(exp[1]) if attr == 'license' else len(exp or ''), detail)))


def _check_handout(case, copyright, stats):
    out = []
    texts = [ho_lines(t, case.get('salt', '')) for t in case['texts']]
    encs = [ho_encode(L) for L in texts]
    kept = []               # [built doc, parsed doc, expected, dump text]
    handed = {}             # (helper, ti) -> number of calls so far
    mutated = [False]
    used = set()

    def sfx():
        return '/after-caller-changed-a-list-from-a-public-helper' if mutated[0] else ''

    def judge_lines(name, ti, got, syn=None):
        exp = ([syn] if syn is not None else []) + texts[ti]
        stats['helper'] = stats.get('helper', 0) + 1
        nth = handed.get((name, ti), 0)
        handed[(name, ti)] = nth + 1
        if isinstance(got, list) and got == exp:
            return True
        out.append(('public-helper/%s/decoded-lines-differ-from-the-encoded-lines/%s%s' % (
            name, 'repeated-call' if nth else 'first-call', sfx()),
            'text %d (%d lines, %d characters encoded): %s' % (ti, len(exp), len(encs[ti]), _ho_diff(exp, got))))
        return False

    for si, step in enumerate(case['steps']):
        if step[0] == 'helper':
            _s, name, ti, mut = step
            lines = texts[ti]
            used.add(ti)
            stats.setdefault('helpers', []).append((name, mut, ho_size_class(len(encs[ti]))))
            try:
                arg = list(lines)
                enc = copyright.format_multiline_lines(arg)
                if enc != encs[ti]:
                    stats['enc-differs-from-model'] = stats.get('enc-differs-from-model', 0) + 1
                enc = ''.join([enc[:7], enc[7:]])             # equal, never the identical object
                res = None
                if name == 'parse_lines':
                    res = copyright.parse_multiline_as_lines(enc)
                    judge_lines(name, ti, res)
                elif name == 'parse':
                    got = copyright.parse_multiline(enc)
                    judge_lines(name, ti, got.split('\n') if isinstance(got, str) else got)
                elif name == 'format_lines':
                    res = arg                                      # the caller's own list: changed AFTER the call
                    arg2 = list(lines) if si % 2 else tuple(lines)
                    enc2 = copyright.format_multiline_lines(arg2)
                    judge_lines(name, ti, copyright.parse_multiline_as_lines(enc2))
                elif name == 'format':
                    enc2 = copyright.format_multiline('\n'.join(lines))
                    got = copyright.parse_multiline(enc2)
                    judge_lines(name, ti, got.split('\n') if isinstance(got, str) else got)
                elif name == 'lic_from_str':
                    syn = HO_SYNS[si % len(HO_SYNS)]
                    raw = copyright.License(syn, '\n'.join(lines)).to_str()
                    lic = copyright.License.from_str(''.join([raw[:3], raw[3:]]))
                    judge_lines(name, ti, [lic.synopsis] + lic.text.split('\n'), syn)
                    res = copyright.parse_multiline_as_lines(raw)  # the same raw value through the list helper
                elif name == 'lic_to_str':
                    syn = HO_SYNS[si % len(HO_SYNS)]
                    raw = copyright.License(syn, '\n'.join(lines)).to_str()
                    res = copyright.parse_multiline_as_lines(raw)
                    judge_lines(name, ti, res, syn)
                elif name == 'lic_roundtrip':
                    syn = HO_SYNS[si % len(HO_SYNS)]
                    lic = copyright.License(syn, '\n'.join(lines))
                    back = copyright.License.from_str(lic.to_str())
                    judge_lines(name, ti, [back.synopsis] + back.text.split('\n'), syn)
                    res = copyright.parse_multiline_as_lines(back.to_str())
                if isinstance(res, list) and mut != 'none' and res:
                    _ho_mutate(res, mut)
                    mutated[0] = True
                    stats['mutations'] = stats.get('mutations', 0) + 1
            except Exception as e:
                out.append(('public-helper/%s/raises-inside-the-stated-domain/%s%s' % (name, type(e).__name__, sfx()),
                            'text %d (%d characters encoded): %r' % (ti, len(encs[ti]), e)))
            # every kept object still shows the generator's values
            for di, (built, parsed, expected, _text) in enumerate(kept):
                stats['kept'] = stats.get('kept', 0) + 1
                before = len(out)
                _ho_read_doc(built, expected, 'kept-built-document-re-read', sfx(), out, stats)
                if parsed is not None:
                    _ho_read_doc(parsed, expected, 'kept-re-parsed-document-re-read', sfx(), out, stats)
                if len(out) > before:
                    break
        elif step[0] == 'doc':
            _s, paras, mode = step
            expected = []
            objs = []
            try:
                c = copyright.Copyright()
                for p in paras:
                    if p[0] == 'files':
                        _k, pats, tc, syn, ti, tm = p
                        cop = encs[tc] if tc is not None else 'Copyright 2001 A. N. Other'
                        lic = copyright.License(syn, '\n'.join(texts[ti]))
                        fp = copyright.FilesParagraph.create(list(pats), cop, lic)
                        vals = [('files', list(pats)), ('copyright', cop), ('license', (syn, '\n'.join(texts[ti])))]
                        if tm is not None:
                            fp.comment = encs[tm]
                            vals.append(('comment', encs[tm]))
                        c.add_files_paragraph(fp)
                        objs.append(fp)
                        expected.append(('files', vals))
                        used.update(x for x in (tc, ti, tm) if x is not None)
                    else:
                        _k, syn, ti, tm = p
                        lp = copyright.LicenseParagraph.create(copyright.License(syn, '\n'.join(texts[ti])))
                        vals = [('license', (syn, '\n'.join(texts[ti])))]
                        if tm is not None:
                            lp.comment = encs[tm]
                            vals.append(('comment', encs[tm]))
                        c.add_license_paragraph(lp)
                        objs.append(lp)
                        expected.append(('license', vals))
                        used.update(x for x in (ti, tm) if x is not None)
                # the paragraph sequence is the one the built document reports (by identity of the objects added)
                byid = dict((id(o), e) for o, e in zip(objs, expected))
                rep = [byid.get(id(q)) for q in list(c.all_paragraphs())[1:]]
                if len(rep) == len(expected) and all(e is not None for e in rep):
                    expected = rep
                text = c.dump()
            except Exception as e:
                out.append(('long-text-document/build-or-dump-raises/%s%s' % (type(e).__name__, sfx()), repr(e)[:300]))
                continue
            stats['docs'] = stats.get('docs', 0) + 1
            stats.setdefault('doc-sizes', []).append(ho_size_class(len(text)))
            before = len(out)
            _ho_read_doc(c, expected, 'built', sfx(), out, stats)
            parsed = None
            try:
                parsed = copyright.Copyright(_feed(text, mode), strict=True)
            except Exception as e:
                out.append(('long-text-document/strict-re-parse-raises/%s%s' % (type(e).__name__, sfx()), repr(e)[:300]))
            if parsed is not None:
                _ho_read_doc(parsed, expected, 're-parsed', sfx(), out, stats)
                try:
                    text2 = parsed.dump()
                    if text2 != text:
                        out.append(('long-text-document/re-dump-differs-from-dump' + sfx(),
                                    'dump of %d characters, re-dump of %d' % (len(text), len(text2))))
                except Exception as e:
                    out.append(('long-text-document/re-dump-raises/%s%s' % (type(e).__name__, sfx()), repr(e)[:300]))
            if len(out) == before:
                kept.append([c, parsed, expected, text])
            else:
                kept.append([c, None, expected, text])
        else:
            _s, di, mode = step
            if di >= len(kept):
                continue
            _b, _p, expected, text = kept[di]
            stats['reparses'] = stats.get('reparses', 0) + 1
            try:
                again = copyright.Copyright(_feed(text, mode), strict=True)
            except Exception as e:
                out.append(('long-text-document/strict-re-parse-raises/%s%s' % (type(e).__name__, sfx()), repr(e)[:300]))
                continue
            _ho_read_doc(again, expected, 'parsed-once-more', sfx(), out, stats)
            try:
                if again.dump() != text:
                    out.append(('long-text-document/re-dump-differs-from-dump' + sfx(), 'second parse of the same dump'))
            except Exception as e:
                out.append(('long-text-document/re-dump-raises/%s%s' % (type(e).__name__, sfx()), repr(e)[:300]))
    stats['sizes'] = [ho_size_class(len(encs[ti])) for ti in sorted(used)]
    return out


_HO_SALT = [0]


def shrink_handout(case, key, budget=60):
    def fails(c):
        # the library may remember texts it has seen: every candidate is executed with texts (first line salted) this
        # process has not used before, so that a candidate only fails on its own account
        _HO_SALT[0] += 1
        c['salt'] = ' s%d' % _HO_SALT[0]
        return handout_in_domain(c) and any(k == key for k, _m in check_handout(c, quiet=True))
    cur = case
    changed = True
    while changed and budget > 0:
        changed = False
        for i in range(len(cur['steps']) - 1, -1, -1):
            if budget <= 0:
                break
            steps = cur['steps'][:i] + cur['steps'][i + 1:]
            if cur['steps'][i][0] == 'doc':
                # later 'reparse' steps address documents by number
                nd = sum(1 for s in cur['steps'][:i] if s[0] == 'doc')
                steps = [s for s in steps if not (s[0] == 'reparse' and s[1] >= nd)]
            cand = dict(cur, steps=steps)
            budget -= 1
            if steps and fails(cand):
                cur = cand
                changed = True
    for ti in range(len(cur['texts'])):
        while budget > 0 and cur['texts'][ti]['n'] > 1:
            budget -= 1
            texts = [dict(t) for t in cur['texts']]
            texts[ti]['n'] = texts[ti]['n'] * 3 // 4
            cand = dict(cur, texts=texts)
            if fails(cand):
                cur = cand
            else:
                break
    return cur


def run_handout(ctx, case):
    if not handout_in_domain(case):
        ctx.count('handout:outside-domain')
        return
    stats = {}
    # the K.codec contract stays silent inside these cases (the same law is judged here, step by step, with the
    # caller's changes in between; a contract raising half-way would leave the case un-shrunk)
    found = check_handout(case, stats, quiet=True)
    ctx.mon('M.handout')
    ctx.mon('M.handout.helper', stats.get('helper', 0))
    ctx.mon('M.handout.doc', stats.get('docs', 0))
    ctx.mon('M.handout.value', stats.get('values', 0))
    ctx.mon('M.handout.kept', stats.get('kept', 0))
    ctx.count('handout:mutations', stats.get('mutations', 0))
    ctx.count('handout:reparses', stats.get('reparses', 0))
    if stats.get('enc-differs-from-model'):
        ctx.count('handout:library-encoding-differs-from-own-model', stats['enc-differs-from-model'])
    for name, mut, cl in stats.get('helpers', ()):
        ctx.count('handout:helper:%s' % name)
        ctx.count('handout:text-size:%s' % cl)
        if mut != 'none':
            ctx.count('handout:mut:%s' % mut)
    for cl in stats.get('doc-sizes', ()):
        ctx.count('handout:doc-size:%s' % cl)
    for cl in stats.get('sizes', ()):
        ctx.count('handout:used-text:%s' % cl)
    if stats.get('mutations'):
        ctx.nontrivial()
    seen = set()
    for key, msg in found:
        if key in seen:
            continue
        seen.add(key)
        small = case
        if ctx.viol_count[key] < 3 and not ctx.replay:
            try:
                small = shrink_handout(case, key)
                again = [m for k, m in check_handout(small, quiet=True) if k == key]
                if again:
                    msg = again[0]
                else:
                    small = case
            except Exception:
                small = case
            key, msg, small = confirm(ctx, key, msg, [small] + ([case] if small is not case else []))
        ctx.violation(key, msg, small)


def standalone(case):
    """Entry point of the confirmation subprocess: the mechanism keys one case
    shows when it is the only thing the interpreter executes."""
    class _Dummy(object):
        extra = {}
    setup(_Dummy())
    kind = case.get('kind')
    if kind == 'doc':
        return [k for k, _m in check_doc(case)] if spec_in_domain(case) else []
    if kind == 'multi':
        return [k for k, _m, _i in check_multi(case)] if multi_in_domain(case) else []
    if kind == 'lists':
        return [k for k, _m, _i in check_lists(case)] if lists_in_domain(case) else []
    if kind == 'handout':
        return [k for k, _m in check_handout(case, quiet=True)] if handout_in_domain(case) else []
    return []


_STANDALONE = ('import sys, json\n'
               'from vp import core\n'
               'core.bootstrap_repo()\n'
               'from vp.props import c17\n'
               'sys.stdout.write("RESULT " + json.dumps(c17.standalone(json.load(sys.stdin))))\n')

import collections as _collections
LOGGED = _collections.Counter()     # what the library logged / warned (recorded, never judged)


def _install_log_recorder():
    """A handler on the library's own logger: counts its records by message template (no formatting, no output).
    Records still propagate to the root logger (the DEBUG-logging ambient formats them there)."""
    import logging

    class _Recorder(logging.Handler):
        def emit(self, record):
            msg = record.msg if isinstance(record.msg, str) else repr(record.msg)
            if msg.startswith('format not known'):
                LOGGED['log:format-not-known'] += 1
            elif msg.startswith('Fixing Format URL'):
                LOGGED['log:fixing-format-url'] += 1
            elif msg.startswith('use of deprecated "Format-Specification"'):
                LOGGED['log:deprecated-format-specification'] += 1
            else:
                LOGGED['log:other'] += 1

    lg = logging.getLogger('debian.copyright')
    if not any(type(h).__name__ == '_Recorder' for h in lg.handlers):
        lg.addHandler(_Recorder())


CONFIRM_BUDGET = [24]     # fresh-interpreter executions per shard process spent on confirming witnesses
PREV_DOCS = []            # the last few document specs this process built without a finding


def keys_standalone(case):
    """List of keys, or None when the subprocess could not be run."""
    import json
    import subprocess
    import sys
    from .. import core
    try:
        p = subprocess.run([sys.executable, '-B', '-c', _STANDALONE], input=json.dumps(case).encode('ascii'),
                           stdout=subprocess.PIPE, stderr=subprocess.DEVNULL, timeout=120, cwd=core.VERIF)
        out = p.stdout.decode('utf-8', 'replace')
        if p.returncode != 0 or 'RESULT ' not in out:
            return None
        return json.loads(out.split('RESULT ', 1)[1])
    except Exception:
        return None


def confirm(ctx, key, msg, candidates):
    """(key, msg, witness).  The library may keep state between objects created by
    the same factory, and this process has created thousands of them: a witness
    is only worth something if it shows the mechanism from a fresh interpreter.
    Candidates are tried smallest first; a 'multi' candidate that reproduces a
    finding of a single document gets the MULTI_SUFFIX on its key."""
    if ctx.replay:
        return key, msg, candidates[0]
    base = key[:-len(MULTI_SUFFIX)] if key.endswith(MULTI_SUFFIX) else key
    tried = False
    for cand in candidates:
        if CONFIRM_BUDGET[0] <= 0:
            break
        CONFIRM_BUDGET[0] -= 1
        got = keys_standalone(cand)
        if got is None:
            break
        tried = True
        if base in got:
            if cand.get('kind') == 'multi' and not key.endswith(MULTI_SUFFIX) and len(cand.get('docs', [])) > 1:
                return key + MULTI_SUFFIX, msg + ' [witness: this document built after other document(s) in one process]', cand
            return key, msg, cand
    if tried:
        msg += (' [NOT reproduced from a fresh interpreter, neither alone nor after the preceding documents of this '
                'process: the values read depend on objects this process created earlier]')
    else:
        msg += ' [witness not re-executed in a fresh interpreter: confirmation budget of this shard used up]'
    return key, msg, candidates[-1]


# ---------------------------------------------------------------------------
# framework interface

def setup(ctx):
    from debian import copyright
    from .. import contracts

    def post(old, result, lines, *a, **kw):
        ls = old
        if ls is None or not codec_domain(ls):
            contracts.EVALS['K.codec'] -= 1          # outside the precondition: not an evaluation
            contracts.EVALS['K.codec-skipped'] += 1
            return
        try:
            dec = copyright.parse_multiline_as_lines(result)
        except Exception as e:
            contracts.fail('codec-raises-in-domain/%s' % type(e).__name__,
                           'format_multiline_lines(%r) = %r does not decode: %r' % (ls, result, e))
        if '\n'.join(dec) != '\n'.join(ls):
            contracts.fail('codec-decode-of-encode-differs',
                           'format_multiline_lines(%r) = %r decodes to %r' % (ls, result, dec))

    def snapshot(lines, *a, **kw):
        try:
            return [l for l in lines]
        except TypeError:
            return None

    contracts.wrap(copyright, 'format_multiline_lines', 'K.codec', post=post, snapshot=snapshot)
    _install_log_recorder()
    ctx.extra['exhaustive_subspaces'] = [
        'header formats: every one of the %d fixed Format values (canonical, the 3 spellings the documented fix-up '
        'covers, near misses, historical DEP-5 URLs, unknown URLs, non-URL strings) x %d ways of giving it %r, as '
        'header-only documents' % (len(FMT_FIXED), len(ENUM_FORMAT_HOWS), ENUM_FORMAT_HOWS),
        'codec: all line lists of length 0..4 over the 11-line alphabet %r (16105 lists; those inside the stated '
        'domain are judged)' % (CODEC_ALPHABET,)]


def cases(ctx):
    # 1. documents (the seeded spec stream is the one the module always generated; the flags that steer the
    #    extra observations - early reads, non-strict re-parse - come from a separate stream)
    n = ctx.size(DOCS['quick'], DOCS['thorough'])
    for i in range(n):
        case = gen_doc(ctx.rng('doc', i))
        rx = ctx.rng('docx', i)
        if rx.random() < 0.5:
            case['early'] = 1
        if rx.random() < 0.25:
            case['nonstrict'] = 1
        if rx.random() < FORMAT_IN_ORDINARY_DOCS:
            add_format_to_doc(case, rx)
        yield case
    # 1b. factory documents: 2..5 stand-alone License paragraphs interleaved with Files paragraphs, recurring values,
    #     decoys, late assignments, punctuated list entries
    n = ctx.size(FACTORY['quick'], FACTORY['thorough'])
    for i in range(n):
        case = gen_factory_doc(ctx.rng('fdoc', i))
        rx = ctx.rng('fdocx', i)
        if rx.random() < FORMAT_IN_ORDINARY_DOCS:
            add_format_to_doc(case, rx)
        yield case
    # 1h. refused assignments in the build histories (complete fixed sub-space value x stage, sharded; then seeded
    #     ordinary / factory documents with 1..5 refused assignments and repeated patterns)
    for i, case in enumerate(enum_refuse_docs()):
        if ctx.mine(i):
            yield case
    n = ctx.size(REFUSEDOCS['quick'], REFUSEDOCS['thorough'])
    for i in range(n):
        yield gen_refuse_doc(ctx.rng('refdoc', i))
    # 1e. header documents: Format values other than the canonical URL (complete fixed sub-space, sharded; then
    #     seeded), URL-ish values in the other header fields
    for i, case in enumerate(enum_format_docs()):
        if ctx.mine(i):
            case['enumerated'] = 1
            yield case
    n = ctx.size(HEADERDOCS['quick'], HEADERDOCS['thorough'])
    for i in range(n):
        yield gen_header_doc(ctx.rng('hdoc', i))
    # 1f. documents whose text values carry non-normalised Unicode and whose raw values carry odd continuation markers
    #     (built through the API; the dump is fed back in ALL input forms)
    n = ctx.size(UNIDOCS['quick'], UNIDOCS['thorough'])
    for i in range(n):
        yield gen_unicode_doc(ctx.rng('udoc', i))
    # 1g. documents given as RAW field text (parsed from the generator's own text / assembled over data objects), raw
    #     License text included: the fixed grid atom x form, marker x form (sharded), then seeded ones
    for i, case in enumerate(enum_rawdocs()):
        if ctx.mine(i):
            yield case
    n = ctx.size(RAWDOCS['quick'], RAWDOCS['thorough'])
    for i in range(n):
        yield gen_rawdoc(ctx.rng('rawdoc', i))
    # 1i. long texts (2 KiB .. 64 KiB) through the public helpers and through documents, with the caller changing
    #     the lists the helpers handed out in between (own stream)
    n = ctx.size(HANDOUT['quick'], HANDOUT['thorough'])
    for i in range(n):
        yield gen_handout(ctx.rng('handout', i), ctx.tier if hasattr(ctx, 'tier') else 'quick')
    # 1c. several documents in one case
    n = ctx.size(MULTI['quick'], MULTI['thorough'])
    for i in range(n):
        yield gen_multi(ctx.rng('multi', i))
    # 1d. list-valued fields: complete small sub-spaces (sharded), then random batches
    batches = {}
    for i, (field, L) in enumerate(enum_punct_lists()):
        if ctx.mine(i):
            b = batches.setdefault(field, [])
            b.append(L)
            if len(b) == LIST_BATCH:
                yield {'kind': 'lists', 'field': field, 'lists': b, 'enumerated': True}
                batches[field] = []
    for field, b in sorted(batches.items()):
        if b:
            yield {'kind': 'lists', 'field': field, 'lists': b, 'enumerated': True}
    n = ctx.size(LISTS['quick'], LISTS['thorough'])
    for b in range(0, n, LIST_BATCH):
        r = ctx.rng('lists', b)
        field = LIST_FIELD_CYCLE[(b // LIST_BATCH) % len(LIST_FIELD_CYCLE)]
        yield {'kind': 'lists', 'field': field, 'lists': gen_list_batch(r, field, min(LIST_BATCH, n - b))}
    n = ctx.size(ULISTS['quick'], ULISTS['thorough'])
    for b in range(0, n, LIST_BATCH):
        r = ctx.rng('ulists', b)
        field = LIST_FIELD_CYCLE[(b // LIST_BATCH) % len(LIST_FIELD_CYCLE)]
        gen = gen_uni_patterns if field in ('files', 'files_excluded', 'files_included') else gen_uni_linelist
        yield {'kind': 'lists', 'field': field, 'lists': [gen(r) for _ in range(min(LIST_BATCH, n - b))], 'wide': 1}
    # 2. codec: complete small sub-space, sharded
    batch = []
    for i, lines in enumerate(enum_codec_lists()):
        if ctx.mine(i):
            batch.append(lines)
            if len(batch) == CODEC_BATCH:
                yield {'kind': 'codec', 'lists': batch, 'enumerated': True}
                batch = []
    if batch:
        yield {'kind': 'codec', 'lists': batch, 'enumerated': True}
    # 3. codec: random lists
    n = ctx.size(CODEC['quick'], CODEC['thorough'])
    for b in range(0, n, CODEC_BATCH):
        r = ctx.rng('codec', b)
        yield {'kind': 'codec', 'lists': [gen_codec_list(r) for _ in range(min(CODEC_BATCH, n - b))]}
    n = ctx.size(UCODEC['quick'], UCODEC['thorough'])
    for b in range(0, n, CODEC_BATCH):
        r = ctx.rng('ucodec', b)
        yield {'kind': 'codec', 'lists': [gen_uni_codec_list(r) for _ in range(min(CODEC_BATCH, n - b))], 'uni': 1}
    n = ctx.size(ULICENSES['quick'], ULICENSES['thorough'])
    for b in range(0, n, LICENSE_BATCH):
        r = ctx.rng('ulicense', b)
        yield {'kind': 'license', 'licenses': [gen_uni_license(r) for _ in range(min(LICENSE_BATCH, n - b))], 'uni': 1}
    # 4. License objects
    n = ctx.size(LICENSES['quick'], LICENSES['thorough'])
    for b in range(0, n, LICENSE_BATCH):
        r = ctx.rng('license', b)
        yield {'kind': 'license', 'licenses': [gen_license(r) for _ in range(min(LICENSE_BATCH, n - b))]}


def _count_factory(ctx, case, stats):
    """Counters of the factory class for one document spec that was judged."""
    real = real_ops(case)
    nl = len([op for op in real if op['t'] == 'L'])
    if nl >= 2:
        ctx.count('fact:license-paragraphs>=2')
        ctx.count('fact:license-paragraphs:%d' % min(nl, 5))
        final = final_values(case)
        lics = [tuple(v['license']) for t, v in final['paras'] if t == 'L']
        syn = [l[0] for l in lics]
        if len(set(syn)) < len(syn):
            ctx.count('fact:license-paragraphs-with-equal-synopsis')
        if len(set(s.lower() for s in syn)) < len(set(syn)):
            ctx.count('fact:license-paragraphs-with-synopsis-equal-ignoring-case')
        if len(set(l[1] for l in lics)) < len(lics):
            ctx.count('fact:license-paragraphs-with-equal-text')
        if len(set(lics)) < len(lics):
            ctx.count('fact:license-paragraphs-fully-equal')
        kinds = [op['t'] for op in real]
        if 'F' in kinds and any(kinds[i] == 'L' and 'F' in kinds[i + 1:] for i in range(len(kinds))):
            ctx.count('fact:license-created-before-a-files-paragraph')
    if len([op for op in real if op['t'] == 'F']) >= 2:
        ctx.count('fact:files-paragraphs>=2')
    for op in case.get('ops', []):
        if op.get('decoy'):
            ctx.count('fact:decoy-%s' % ('files' if op['t'] == 'F' else 'license'))
    if case.get('hdecoys'):
        ctx.count('fact:decoy-header')
    if case.get('hdr') == 'own':
        ctx.count('fact:own-header-object')
    if case.get('early'):
        ctx.count('fact:early-reads')
    if case.get('late'):
        ctx.count('fact:late-assignment')
        for target, attr, _v in case['late']:
            ctx.count('fact:late:%s' % ('header' if target == 'H' else attr))
    if stats.get('late_after_dump'):
        ctx.count('fact:late-after-first-dump')
    if stats.get('reused'):
        ctx.count('fact:reused-license-object', stats['reused'])
    if stats.get('nonstrict_values'):
        ctx.mon('M.nonstrict')
        ctx.mon('M.nonstrict-value', stats['nonstrict_values'])
    if stats.get('watched'):
        ctx.mon('M.watch', stats['watched'])


def _count_refusals(ctx, case, stats):
    """Counters of the refused-assignment / repeated-pattern classes for one document spec that was judged."""
    rep = set()
    for op in case.get('ops', []):
        if op['t'] == 'F':
            for cl in repeat_classes(op['files']):
                rep.add('create:' + cl)
            for attr, val in op.get('then', []):
                if attr == 'files':
                    for cl in repeat_classes(val):
                        rep.add('assigned:' + cl)
    for _target, attr, val in case.get('late', []):
        if attr == 'files' and val is not None:
            for cl in repeat_classes(val):
                rep.add('assigned-late:' + cl)
    for name in rep:
        ctx.count('repeat:%s' % name)
    done = stats.get('refused')
    if not done:
        return
    ctx.count('refuse:documents')
    if case.get('enumerated_refusal'):
        ctx.count('refuse:enumerated')
    if stats.get('refuse_between_dumps'):
        ctx.count('refuse:document-dumped-before-and-after')
    ctx.mon('M.refuse', len(done))
    for stage, target, t, attr, cls, raised, n in done:
        ctx.mon('M.refuse-value', n)
        ctx.count('refuse:stage:%s' % stage)
        ctx.count('refuse:target:%s' % target)
        ctx.count('refuse:%s.%s:%s' % (t, attr, cls))
        ctx.count('refuse:value:%s' % cls)
        ctx.count('refuse:property:%s.%s' % (t, attr))
        if raised:
            ctx.count('refuse:raised:%s' % raised)
        else:
            ctx.count('refuse:recorded:accepted-without-exception')
            ctx.count('refuse:recorded:accepted-without-exception:%s.%s:%s' % (t, attr, cls))


def _count_formats(ctx, case, stats):
    """Counters of the header-format class for one document spec that was judged."""
    fvals = format_values(case)
    if not fvals:
        return
    ctx.count('fmt:documents')
    if case.get('enumerated'):
        ctx.count('fmt:enumerated')
    parsed_run = set(tuple(x) for x in stats.get('fmt_parsed_styles', []))
    seen = set()
    for how, v in fvals:
        if how.startswith('parsed') and (how[7:] or 'format', v) not in parsed_run:
            continue                # the parsed stage was not reached for this value
        cls = format_class(v)
        if how == 'assign-late' and stats.get('late_after_dump'):
            how = 'assign-late-after-first-dump'
        for name in ('fmt:how:%s' % how, 'fmt:class:%s' % cls, 'fmt:%s:%s' % (how, cls)):
            if name not in seen:
                seen.add(name)
                ctx.count(name)
        for f in url_features('format', v):
            name = 'fmt:url:%s' % f
            if name not in seen:
                seen.add(name)
                ctx.count(name)
        if how == 'data' and cls == 'fixable-known':
            ctx.count('fmt:rewritten-at-construction')
        if how.startswith('parsed') and cls == 'fixable-known':
            ctx.count('fmt:rewritten-when-parsed')
    if stats.get('fmt_rewritten_on_reparse'):
        ctx.count('fmt:assigned-spelling-rewritten-on-reparse')
    if stats.get('fmt_unsplittable'):
        ctx.count('fmt:unsplittable')
    if stats.get('fmt_parsed_runs'):
        ctx.mon('M.fmt-parsed', stats['fmt_parsed_runs'])
        ctx.mon('M.fmt-parsed-value', stats.get('fmt_parsed_values', 0))
    if stats.get('second_round_values'):
        ctx.mon('M.second-round')
        ctx.mon('M.second-round-value', stats['second_round_values'])
    ctx.mon('M.fmt')


def _report_doc_findings(ctx, case, found):
    seen = set()
    for key, msg in found:
        if key in seen:
            continue
        seen.add(key)
        small = case
        if ctx.viol_count[key] < 3:          # shrinking / confirming is only worth it for the witnesses that are kept
            try:
                small = shrink(case, key)
            except Exception:
                small = case
            if small is not case:
                again = [m for k, m in check_doc(small) if k == key]
                if again:
                    msg = again[0]
                else:
                    small = case
            cands = [small] + ([case] if small is not case else [])
            cands.append({'kind': 'multi', 'docs': [small, small]})
            if PREV_DOCS:
                cands.append({'kind': 'multi', 'docs': list(PREV_DOCS) + [case]})
            key, msg, small = confirm(ctx, key, msg, cands)
        ctx.violation(key, msg, small)


def run_lists(ctx, case):
    if not lists_in_domain(case):
        ctx.count('lists:outside-domain')
        return
    field = case['field']
    lists = case['lists']
    ctx.evaluations += max(0, len(lists) - 1)
    stats = {}
    found = check_lists(case, stats)
    ctx.mon('M.list', stats.get('fresh', 0))
    ctx.mon('M.list-reassigned', stats.get('reassigned', 0))
    ctx.mon('M.list-reparsed', stats.get('reparsed', 0))
    ctx.mon('M.list-kept', stats.get('kept', 0))
    ctx.mon('M.list-doc', stats.get('doc', 0))
    ctx.count('lists:%s' % field, len(lists))
    if case.get('enumerated'):
        ctx.count('lists:enumerated', len(lists))
    if case.get('wide'):
        ctx.count('lists:unicode:%s' % field, len(lists))
        for L in lists:
            ucl = uni_classes('\n'.join(L))
            for cl in ucl:
                ctx.count('lists:uni-%s' % cl)
            if ucl:
                ctx.nontrivial(case={'lists': [field, L]})
    for L in lists:
        cls = list_punct_classes(L)
        for cl in cls:
            ctx.count('lists:%s:%s' % ('files' if field == 'files' else 'lines', cl))
        if cls:
            ctx.nontrivial(case={'lists': [field, L]})
    seen = set()
    for key, msg, index in found:
        if key in seen:
            continue
        seen.add(key)
        small = case
        if ctx.viol_count[key] < 3:
            try:
                small = shrink_lists(case, key, index)
            except Exception:
                small = case
            again = [m for k, m, _i in check_lists(small) if k == key]
            if again:
                msg = again[0]
            else:
                small = case
            cands = [small] + ([case] if small is not case else [])
            cands.append(dict(case, lists=case['lists'] + case['lists']))
            key, msg, small = confirm(ctx, key, msg, cands)
        ctx.violation(key, msg, small)


def run_rawdoc(ctx, case):
    if not rawdoc_in_domain(case):
        ctx.count('raw:outside-domain')      # e.g. a hand-edited replay file: nothing is demanded
        return
    stats = {}
    found = check_rawdoc(case, stats)
    ctx.mon('M.raw')
    ctx.mon('M.raw-value', stats.get('values', 0))
    ctx.count('raw:via:%s' % case['via'])
    if case['via'] == 'text':
        ctx.count('raw:parsed-from:%s' % case['input'])
    ctx.count('raw:dump-reparsed-from:%s' % case['input2'])
    if case.get('enumerated'):
        ctx.count('raw:enumerated')
        ctx.count('raw:enumerated:%s' % case['enumerated'])
    feats = rawdoc_features(case)
    for f in feats:
        ctx.count('raw:%s' % f)
    if 'dump_equals_written_text' in stats and case['via'] == 'text':
        ctx.count('raw:dump-equals-the-parsed-text' if stats['dump_equals_written_text']
                  else 'raw:dump-differs-from-the-parsed-text(not-judged)')
    for o in stats.get('undecodable_license_outcomes', []):
        ctx.count('raw:recorded:license-getter-on-tab-marked-text:%s' % o)
    if feats:
        ctx.nontrivial()
    seen = set()
    for key, msg in found:
        if key in seen:
            continue
        seen.add(key)
        small = case
        if ctx.viol_count[key] < 3 and not ctx.replay:
            try:
                small = shrink_rawdoc(case, key)
            except Exception:
                small = case
            if small is not case:
                again = [m for k, m in check_rawdoc(small) if k == key]
                if again:
                    msg = again[0]
                else:
                    small = case
        ctx.violation(key, msg, small)


def run_multi(ctx, case):
    if not multi_in_domain(case):
        ctx.count('multi:outside-domain')
        return
    stats = {}
    found = check_multi(case, stats)
    docs = case['docs']
    ctx.mon('M.multi')
    ctx.mon('M.multi-doc', stats.get('docs', 0))
    ctx.mon('M.multi-value', stats.get('values', 0))
    ctx.mon('M.watch', stats.get('watched', 0))
    ctx.count('multi:docs:%d' % len(docs))
    if stats.get('reused'):
        ctx.count('multi:reused-license-object', stats['reused'])
    lic_sets = []
    for d in docs:
        final = final_values(d)
        lic_sets.append(set(tuple(v['license']) for _t, v in final['paras']))
        if len([1 for t, _v in final['paras'] if t == 'L']) >= 2:
            ctx.count('multi:doc-with-license-paragraphs>=2')
    if any(lic_sets[i] & lic_sets[j] for i in range(len(docs)) for j in range(i + 1, len(docs))):
        ctx.count('multi:equal-license-in-two-documents')
    if len(docs) >= 2:
        ctx.nontrivial()
    seen = set()
    for key, msg, index in found:
        if key in seen:
            continue
        seen.add(key)
        # does the document show the same mechanism when it is built alone?  then it is an ordinary document witness
        if index is not None:
            alone = check_doc(docs[index])
            if any(k == key for k, _m in alone):
                _report_doc_findings(ctx, docs[index], [(k, m) for k, m in alone if k == key])
                continue
        key2 = key + MULTI_SUFFIX
        small = case
        if ctx.viol_count[key2] < 3:
            try:
                small = shrink_multi(case, key)
            except Exception:
                small = case
            cands = [small] + ([case] if small is not case else [])
            key2, msg, small = confirm(ctx, key2, msg, cands)
        ctx.violation(key2, msg, small)


def run_case(ctx, case):
    kind = case.get('kind')
    if kind == 'codec':
        lists = case['lists']
        ctx.evaluations += max(0, len(lists) - 1)
        enumerated = bool(case.get('enumerated'))
        if enumerated:
            ctx.count('codec:enumerated', len(lists))
        for lines in lists:
            check_codec_list(ctx, lines, enumerated)
            if case.get('uni') and codec_domain(lines):
                for cl in uni_classes('\n'.join(lines)):
                    ctx.count('codec:uni-%s' % cl)
        return
    if kind == 'license':
        ctx.evaluations += max(0, len(case['licenses']) - 1)
        for lic in case['licenses']:
            check_license(ctx, lic)
            if case.get('uni') and license_ok(lic):
                for cl in uni_classes(lic[0] + '\n' + lic[1]):
                    ctx.count('lic:uni-%s' % cl)
        return
    if kind == 'lists':
        run_lists(ctx, case)
        return
    if kind == 'multi':
        run_multi(ctx, case)
        return
    if kind == 'rawdoc':
        run_rawdoc(ctx, case)
        return
    if kind == 'handout':
        run_handout(ctx, case)
        return
    if kind != 'doc':
        ctx.count('unknown-case-kind')
        return
    if not spec_in_domain(case):
        ctx.count('doc:outside-domain')      # e.g. a hand-edited replay file: nothing is demanded
        return
    stats = {}
    found = check_doc(case, stats)
    ctx.mon('M.doc')
    ctx.mon('M.para', stats.get('paras', 0))
    ctx.mon('M.value', stats.get('values', 0))
    ctx.count('input:%s' % case['input'])
    final = final_values(case)
    feats, nontrivial = doc_features(final, uni=bool(case.get('allforms')))
    for f in feats:
        ctx.count('feat:%s' % f)
    if any(v is None for _a, v in case.get('header', [])) or \
            any(v is None for op in case.get('ops', []) for _a, v in op.get('then', [])):
        ctx.count('feat:set-then-clear')
    if any(op.get('then') for op in case.get('ops', [])):
        ctx.count('feat:reassigned')
    order = stats.get('order')
    if order is not None and order != sorted(order):
        ctx.count('feat:files-added-after-license')
    ctx.count('paras:%d' % len(real_ops(case)))
    _count_formats(ctx, case, stats)
    _count_factory(ctx, case, stats)
    _count_refusals(ctx, case, stats)
    if stats.get('allforms'):
        ctx.mon('M.allforms', stats['allforms'])
        ctx.mon('M.allforms-value', stats.get('allforms_values', 0))
        ctx.count('uni:documents')
        ctx.count('uni:first-input:%s' % case['input'])
    perm = stats.get('perm')
    if perm is not None:
        ctx.count('perm:%s' % perm)
    if perm == 'run':
        ctx.mon('M.perm')
        ctx.mon('M.perm-para', stats.get('perm_paras', 0))
        ctx.mon('M.perm-value', stats.get('perm_values', 0))
        ctx.mon('M.perm-fixpoint', stats.get('perm_fixpoint', 0))
        for cl in stats.get('perm_classes', ()):
            ctx.count('perm:%s' % cl)
        ctx.count('perm-input:%s' % case['input'])
    if nontrivial or any(f.startswith('punct-') for f in feats) or \
            any(v != CUR_FORMAT for _how, v in format_values(case)) or stats.get('refused'):
        ctx.nontrivial()
    if found:
        _report_doc_findings(ctx, case, found)
    elif not ctx.replay:
        PREV_DOCS.append(case)
        del PREV_DOCS[:-4]


def finish(ctx):
    from .. import contracts
    contracts.flush_evals(ctx)
    for name, n in LOGGED.items():
        ctx.count('recorded:%s' % name, n)


LEVEL_TEXT = ('Runtime monitoring: seeded specs of copyright documents (header fields, 0..4 Files paragraphs, 0..3 '
              'stand-alone License paragraphs; texts with empty lines, indentation, tabs, non-ASCII, trailing blanks, '
              'field-like/comment-like/dot lines; pattern lists beyond 80/120 columns, single patterns beyond 80 '
              'characters, hyphenated patterns) are built through the public API of the live tree, dumped, parsed back '
              'in strict mode from four input forms, and every value of every re-parsed paragraph is compared with the '
              'value the generator wrote (9000 documents quick / 560000 thorough); the re-dump must be identical.  The '
              'multiline codec and License.to_str/from_str are driven with 2e5 / 1.12e7 random line lists plus all '
              '16105 lists of length <= 4 over an 11-line alphabet, judged only inside the stated precondition.  '
              'Header Format values other than the canonical URL (every fixed value x every way of giving it, plus '
              'seeded ones) and URL-ish header values are judged against the module\'s own model of the documented '
              'fix-up.  Text values with non-normalised Unicode (decomposed sequences, singletons, compatibility '
              'ideographs, Hangul jamo, ligatures / full-width / superscripts) and raw multi-line values whose continuation '
              'lines start with a TAB, several blanks or blank+tab go through the API and through raw field text, are '
              'fed back in ten input forms (str / utf-8 bytes lines and documents, streams, real files) and must come '
              'back code point for code point.  Held-on-observed, not a proof: reach is the generated documents and lists.')
LEVEL_NOTE = ('Trusted: CPython, the spec generator and its own Deb822 value encoder for raw fields, the domain '
              'predicates (texts end in a non-blank line, no whitespace-only or lone-"." line, only \\n as line '
              'boundary, no outer blanks on first lines). Paragraph order is taken from the built document by object '
              'identity, all values from the spec.')
TECHNIQUE = ('runtime monitoring: boundary oracle M.doc (values of the strict re-parse of the dump compared with the '
             'generator\'s spec, re-dump identity) decides; M.codec/M.license inverse-law monitors on the multiline '
             'codec; auxiliary contract K.codec on every call of format_multiline_lines')
