"""C01 - the format-preserving parser is lossless (parse -> dump == input; token
texts concatenate to the input; un-terminated lines come back newline-terminated).

Deciding monitor M: string equality between what went in (tee'd by the harness)
and every way of getting text back out of the live objects: token stream,
dump(), dump(fd), convert_to_text(), concatenation of the top-level parts,
iter_tokens().
"""
import io
import itertools
import os
import re

PROP = 'C01'
LEVEL = 'exploration'
RULE = ('(a) every sequence of 1..k lines (k=3 quick, 4 thorough) over 29 line-class representatives x the input '
        'forms {all terminated, last line un-terminated, no line terminated}; (b) random documents of 1..12 lines over '
        'a 30-symbol hostile alphabet (CR, VT, FF, U+0085, NBSP, NUL, DEL, non-ASCII, U+2028), as str and as UTF-8 bytes '
        'lines, from a list, a tuple, a one-shot iterator, a generator, bytes-subclass lines, an in-memory stream and a real file (text '
        'streams splitting at LF only); (c) every deb822-shaped fixture of the repository, whole and '
        'with lines shuffled/dropped/duplicated.  Every result is dumped a SECOND time after read-only traffic over every field (get, in, '
        'get_kvpair_element, both list interpretations opened and listed): it is still the unmodified result.  Non-trivial: >= 2 distinct line classes, or an un-terminated form, '
        'or an error/comment/whitespace-only line present.')
ASSUMPTIONS = ['pre-condition of the statement respected: no newline inside a line; either all lines terminated except possibly '
               'the last, or (>= 2 lines) none terminated; a lone un-terminated line is the "last line without newline" form',
               'an empty string is not a line in the terminated form (the tokenizer documents that it rejects it)']
ANCHORS = ['debian._deb822_repro.tokens:tokenize_deb822_file',
           'debian._deb822_repro.tokens:Deb822Token._verify_token_text',
           'debian._deb822_repro.parsing:parse_deb822_file',
           'debian._deb822_repro.parsing:_build_value_line',
           'debian._deb822_repro.parsing:_build_field_with_value',
           'debian._deb822_repro.parsing:Deb822FileElement.dump',
           'debian._deb822_repro.parsing:Deb822Element.iter_tokens',
           'debian._deb822_repro.parsing:Deb822Element.convert_to_text']
MUST_REACH = ANCHORS[:6]
FLOORS = {'quick': {'nontrivial': 15000, 'monitors': {'M.tokens': 20000, 'M.dump': 20000, 'M.parts': 20000, 'M.redump': 20000},
                    'counters': {'after-aborted-parse:ioerror': 250, 'after-aborted-parse:bad-line': 250,
                                 'read-only-accesses-before-second-dump': 150000, 'handed-over-as:stream': 1200, 'handed-over-as:file': 1200,
                                 'handed-over-as:gen': 1600, 'handed-over-as:tuple': 1600, 'handed-over-as:subclass': 1600}},
          'thorough': {'nontrivial': 400000, 'monitors': {'M.tokens': 500000, 'M.dump': 500000, 'M.parts': 500000, 'M.redump': 500000},
                       'counters': {'after-aborted-parse:ioerror': 25000, 'after-aborted-parse:bad-line': 25000,
                                    'read-only-accesses-before-second-dump': 4000000, 'handed-over-as:stream': 40000, 'handed-over-as:file': 40000,
                                    'handed-over-as:gen': 50000, 'handed-over-as:tuple': 50000, 'handed-over-as:subclass': 50000}}}
LEVEL_TEXT = ('Runtime monitoring of tokenize_deb822_file / parse_deb822_file on the live tree: a bounded-exhaustive sweep of '
              'line-class adjacencies plus a large seeded random workload over a hostile alphabet and mutated fixtures; '
              'after every execution the harness compares all text-producing views of the result with the text it fed in. '
              'Held-on-observed: reach is the workload (adjacencies up to 4 lines are complete over the class representatives).')
LEVEL_NOTE = 'Trusted: CPython, the harness tee of the input. The class-representative list is a sample of each line class, not all lines.'
TECHNIQUE = 'runtime monitoring: boundary oracle (input text tee) on every parse/tokenize execution; bounded-exhaustive line-class adjacency driver + seeded random documents'

BODIES = ['', ' ', '\t', '\x0b', '\xa0', ' \r', '# c', '#', ' cont', '\tcont', ' # not-comment', 'A: b', 'A:', 'A:  ',
          'A : b', 'a:b:c', '-x: y', 'garbage', ' .', 'A: \xe9 ', '\xe9: x', 'A: b\r', 'A:\x0b', 'B: c ', '\ufeffA: b',
          # text that a message template would choke on (str.format / % formatting / re.sub replacement)
          ' ${misc:Depends} {0} {', 'A: %s %(x)s 100% \\1 }', '{x}: %d', '# {no} %']
ALPHA = ['a', 'B', ':', '#', ' ', '\t', '\r', '\x0b', '\x0c', '\x85', ' ', '\xa0', '-', '\xe9', '\u6f22', ',', '\x00',
         '\x7f', '.', '~', '\u2028', '\x1c', '\ufeff', '\u200b', '\U0001f600', '{', '}', '%', '\\', '$']
_WS = re.compile(r'^\s+$')


def line_class(body):
    if body == '':
        return 'empty'
    if _WS.match(body):
        return 'ws'
    if body[0] == '#':
        return 'comment'
    if body[0] in ' \t':
        return 'cont'
    if re.match(r'^[\x21\x22\x24-\x2C\x2F-\x39\x3B-\x7F][\x21-\x39\x3B-\x7F]*:', body):
        return 'field'
    return 'other'


def make_lines(bodies, form):
    if form == 'term':
        return [b + '\n' for b in bodies]
    if form == 'lastno':
        if bodies[-1] == '':
            return None
        return [b + '\n' for b in bodies[:-1]] + [bodies[-1]]
    if form == 'nonl':
        if len(bodies) < 2:
            return None
        return list(bodies)
    raise ValueError(form)


def expected(lines, form):
    if form == 'nonl':
        return ''.join(l + '\n' for l in lines)
    return ''.join(lines)


def rand_line(r):
    k = r.random()
    if k < .13:
        return ''
    if k < .25:
        return r.choice([' ', '\t', '  ', '\x0b', ' \r', '\xa0', '\r', '\x0c', ' \t '])
    if k < .35:
        return '#' + ''.join(r.choice(ALPHA) for _ in range(r.randint(0, 4)))
    if k < .60:
        return r.choice(['A', 'Foo-Bar', 'x', 'a', 'A', 'X-1!']) + ':' + ''.join(r.choice(ALPHA) for _ in range(r.randint(0, 6)))
    if k < .80:
        return r.choice(' \t') + ''.join(r.choice(ALPHA) for _ in range(r.randint(0, 6)))
    return ''.join(r.choice(ALPHA) for _ in range(r.randint(1, 6)))


def fixture_files():
    from .. import core
    out = []
    tests = os.path.join(core.REPO, 'lib', 'debian', 'tests')
    for name in ('test_BuildInfo', 'test_Changes', 'test_Dsc.badsig', 'test_Packages', 'test_Release', 'test_Sources',
                 'test_Sources.iso8859-1', 'test_removals.822', 'test_Packages.diff'):
        out.append(os.path.join(tests, name))
    out.append(os.path.join(core.REPO, 'debian', 'control'))
    out.append(os.path.join(core.REPO, 'debian', 'copyright'))
    return [p for p in out if os.path.isfile(p)]


def cases(ctx):
    # (a) enumerated adjacencies
    kmax = 3 if ctx.quick else 4
    idx = 0
    for k in range(1, kmax + 1):
        for combo in itertools.product(range(len(BODIES)), repeat=k):
            idx += 1
            if not ctx.mine(idx):
                continue
            bodies = [BODIES[i] for i in combo]
            for form in ('term', 'lastno', 'nonl'):
                lines = make_lines(bodies, form)
                if lines is not None:
                    yield {'kind': 'doc', 'lines': lines, 'form': form, 'as': 'str', 'it': 'iter', 'src': 'enum'}
    # (b) random documents
    r = ctx.rng('random')
    for i in range(ctx.size(24000, 2400000)):
        n = r.randint(1, 12)
        bodies = [rand_line(r) for _ in range(n)]
        if r.random() < .04:
            # text that starts with a byte-order mark or another invisible character (files written by some editors)
            bodies[0] = r.choice(['\ufeff', '\ufeff', '\u200b', '\ufffe', '\x00']) + bodies[0]
        form = r.choice(['term', 'term', 'lastno', 'nonl'])
        lines = make_lines(bodies, form)
        if lines is None:
            continue
        case = {'kind': 'doc', 'lines': lines, 'form': form, 'as': r.choice(['str', 'str', 'bytes']),
                'it': r.choice(['iter', 'list', 'tuple', 'gen', 'subclass', 'stream', 'file']), 'src': 'random'}
        if r.random() < .06:
            case['abort'] = {'mode': r.choice(['ioerror', 'bad-line']),
                             'lines': [rand_line(r) + '\n' for _ in range(r.randint(1, 6))]}
            case['src'] = 'random-after-abort'
        yield case
    # (c) fixtures, whole and mutated
    r = ctx.rng('fixtures')
    files = fixture_files()
    for fi, path in enumerate(files):
        with open(path, 'rb') as f:
            raw = f.read()
        try:
            text = raw.decode('utf-8')
        except UnicodeDecodeError:
            text = raw.decode('latin-1')
        base = text.split('\n')
        if base and base[-1] == '':
            base.pop()
        base = base[:400]
        if ctx.mine(fi):
            yield {'kind': 'doc', 'lines': [b + '\n' for b in base], 'form': 'term', 'as': 'str', 'it': 'list', 'src': 'fixture'}
        for m in range(ctx.size(40, 1400) // max(1, len(files)) + 1):
            start = r.randrange(max(1, len(base) - 30))
            bodies = base[start:start + r.randint(3, 30)]
            for _ in range(r.randint(1, 5)):
                op = r.choice(['drop', 'dup', 'swap', 'junk'])
                if not bodies:
                    break
                i = r.randrange(len(bodies))
                if op == 'drop':
                    del bodies[i]
                elif op == 'dup':
                    bodies.insert(i, bodies[i])
                elif op == 'swap':
                    j = r.randrange(len(bodies))
                    bodies[i], bodies[j] = bodies[j], bodies[i]
                else:
                    bodies.insert(i, rand_line(r))
            if not bodies:
                continue
            form = r.choice(['term', 'lastno', 'nonl'])
            lines = make_lines(bodies, form)
            if lines is not None:
                yield {'kind': 'doc', 'lines': lines, 'form': form, 'as': 'str', 'it': 'list', 'src': 'fixture-mutated'}


class _S(str):
    """A str subclass: still a str."""


class _B(bytes):
    pass


def _feed(case):
    """The same sequence of lines, handed over as the different objects 'an iterable of lines' can be."""
    lines = case['lines']
    as_bytes = case['as'] == 'bytes'
    if as_bytes:
        lines = [l.encode('utf-8') for l in lines]
    it = case['it']
    if it == 'iter':
        return iter(lines)
    if it == 'tuple':
        return tuple(lines)
    if it == 'gen':
        return (l for l in lines)
    if it == 'subclass':
        # bytes subclass lines only: str SUBCLASS lines make the tokenizer raise TypeError("can't intern _S") on the unchanged
        # tree (sys.intern takes exact str) - "lines of text" is read as str / bytes proper, so that is noted, not judged
        return [_B(l) for l in lines] if as_bytes else list(lines)
    if it in ('stream', 'file') and case['form'] != 'nonl':
        # a stream yields exactly these lines when it only splits at LF (text: newline='\n', no translation)
        if it == 'stream':
            return io.BytesIO(b''.join(lines)) if as_bytes else io.StringIO(''.join(lines), newline='\n')
        import tempfile
        f = tempfile.TemporaryFile('w+b') if as_bytes else tempfile.TemporaryFile('w+', encoding='utf-8', newline='\n')
        f.write((b'' if as_bytes else '').join(lines))
        f.seek(0)
        return f
    return list(lines)


def _classify_exception(case, exc):
    lines, form = case['lines'], case['form']
    msg = str(exc)
    if isinstance(exc, ValueError) and 'must end on a newline' in msg:
        bodies = [l.rstrip('\n') for l in lines]

        def ws(b):
            return _WS.match(b + '\n') is not None
        if form == 'lastno' and len(bodies) >= 2 and _WS.match(lines[-1]) and ws(bodies[-2]):
            return 'ws-only-unterminated-last-line-after-ws-line'
        if form == 'nonl' and any(ws(a) and ws(b) for a, b in zip(bodies, bodies[1:])):
            return 'adjacent-ws-only-lines-in-unterminated-form'
    return None


class _SourceFailed(OSError):
    pass


def _failing_source(lines, mode):
    for l in lines:
        yield l
    if mode == 'ioerror':
        raise _SourceFailed(5, 'read error in the middle of the file (injected)')
    yield 'unterminated line in the middle'       # mode == 'bad-line': violates the pre-condition -> ValueError
    yield 'Z: z\n'


def _interp(which):
    from debian._deb822_repro import LIST_SPACE_SEPARATED_INTERPRETATION as SP, LIST_COMMA_SEPARATED_INTERPRETATION as CM
    return CM if which == 'comma' else SP


def run_case(ctx, case):
    from debian._deb822_repro import parse_deb822_file
    from debian._deb822_repro.tokens import tokenize_deb822_file
    ab = case.get('abort')
    if ab:
        # an EARLIER parse that does not complete (I/O error of the line source / malformed line) must leave nothing
        # behind that shows up in the next, unrelated parse
        ctx.count('after-aborted-parse:' + ab['mode'])
        for fn in (lambda src: list(tokenize_deb822_file(src)),
                   lambda src: parse_deb822_file(src, accept_files_with_error_tokens=True, accept_files_with_duplicated_fields=True)):
            try:
                fn(_failing_source(ab['lines'], ab['mode']))
            except (_SourceFailed, ValueError):
                pass
    lines, form = case['lines'], case['form']
    exp = expected(lines, form)
    classes = set(line_class(l.rstrip('\n')) for l in lines)
    ctx.count('form:' + form)
    ctx.count('src:' + case.get('src', '?'))
    ctx.count('handed-over-as:%s' % (case['it'] if not (case['it'] in ('stream', 'file') and form == 'nonl') else 'list'))
    if len(classes) >= 2 or form != 'term' or classes & {'ws', 'comment', 'other', 'empty'}:
        ctx.nontrivial()
    # --- token stream
    try:
        fed = _feed(case)
        before = list(fed) if isinstance(fed, list) else None
        if case['it'] == 'list' and len(lines) % 3 == 0:
            # two tokenizers advanced alternately (this input and an unrelated one): neither may disturb the other
            ctx.count('tokenizers-interleaved')
            other = ['Source: x\n', '# c\n', ' cont\n', '\n', 'junk\n', 'Package:  y \n']
            ga, gb = tokenize_deb822_file(fed), tokenize_deb822_file(list(other))
            toks, otoks = [], []
            while ga is not None or gb is not None:
                for which in ('a', 'b'):
                    g = ga if which == 'a' else gb
                    if g is None:
                        continue
                    try:
                        (toks if which == 'a' else otoks).append(next(g))
                    except StopIteration:
                        if which == 'a':
                            ga = None
                        else:
                            gb = None
            if ''.join(t.text for t in otoks) != ''.join(other):
                ctx.violation('token-stream-differs-from-input', 'the OTHER tokenizer, interleaved with lines=%r, gave %r'
                              % (lines, [t.text for t in otoks]))
        else:
            toks = list(tokenize_deb822_file(fed))
        if before is not None and fed != before:
            ctx.violation('input-list-modified-by-the-tokenizer', 'lines=%r now %r' % (before, fed))
    except Exception as e:
        key = _classify_exception(case, e) or 'tokenizer-raises/%s' % type(e).__name__
        ctx.violation(key, 'tokenize_deb822_file(%r) raised %r' % (lines, e))
        toks = None
    if toks is not None:
        ctx.mon('M.tokens')
        got = ''.join(t.text for t in toks)
        if got != exp:
            ctx.violation('token-stream-differs-from-input', 'lines=%r tokens=%r' % (lines, [t.text for t in toks]))
        if any(t.text == '' for t in toks):
            ctx.violation('empty-token', 'lines=%r' % (lines,))
    # --- parse + every text-producing view
    try:
        fed = _feed(case)
        before = list(fed) if isinstance(fed, list) else None
        f = parse_deb822_file(fed, accept_files_with_error_tokens=True, accept_files_with_duplicated_fields=True)
        if before is not None and fed != before:
            ctx.violation('input-list-modified-by-the-parser', 'lines=%r now %r' % (before, fed))
    except Exception as e:
        key = _classify_exception(case, e) or 'parser-raises/%s' % type(e).__name__
        ctx.violation(key, 'parse_deb822_file(%r) raised %r' % (lines, e))
        return
    ctx.mon('M.dump')
    d = f.dump()
    if d != exp:
        ctx.violation('dump-differs-from-input', 'lines=%r dump=%r' % (lines, d))
        return
    buf = io.BytesIO()
    f.dump(buf)
    if buf.getvalue() != exp.encode('utf-8'):
        ctx.violation('dump-to-fd-differs-from-input', 'lines=%r dump(fd)=%r' % (lines, buf.getvalue()))
    if f.convert_to_text() != exp:
        ctx.violation('convert_to_text-differs-from-input', 'lines=%r' % (lines,))
    ctx.mon('M.parts')
    parts = ''.join(p.convert_to_text() for p in f.iter_parts())
    if parts != exp:
        ctx.violation('top-level-parts-differ-from-input', 'lines=%r parts=%r' % (lines, parts))
    its = ''.join(t.text for t in f.iter_tokens())
    if its != exp:
        ctx.violation('iter_tokens-differs-from-input', 'lines=%r' % (lines,))
    # paragraphs dump to a sub-string of the document, in order
    pos = 0
    for para in f:
        pd = para.dump()
        at = exp.find(pd, pos)
        if at < 0:
            ctx.violation('paragraph-dump-not-in-document-order', 'lines=%r para=%r' % (lines, pd))
            break
        pos = at + len(pd)
    # --- the result is still UNMODIFIED after any amount of reading: read through every read-only route, dump again
    ctx.mon('M.redump')
    reads = 0
    for para in f:
        try:
            keys = list(para.keys())
        except Exception:
            continue
        for k in keys:
            for route in (lambda: para.get(k), lambda: k in para, lambda: para.get_kvpair_element(k, use_get=True),
                          lambda: para.as_interpreted_dict_view(_interp('comma')).get(k),
                          lambda: para.as_interpreted_dict_view(_interp('space')).get(k)):
                try:
                    v = route()
                    if hasattr(v, '__enter__'):
                        with v as l:
                            list(l)
                    elif hasattr(v, 'convert_to_text'):
                        v.convert_to_text()
                    reads += 1
                except Exception:       # what a read of an odd field returns or raises is not this property's business
                    pass
    ctx.count('read-only-accesses-before-second-dump', reads)
    d2 = f.dump()
    if d2 != exp:
        ctx.violation('dump-changed-after-read-only-access', 'lines=%r second dump=%r' % (lines, d2))
    its2 = ''.join(t.text for t in f.iter_tokens())
    if its2 != exp:
        ctx.violation('dump-changed-after-read-only-access', 'lines=%r iter_tokens after reads=%r' % (lines, its2))
