"""C05 - edits through the format-preserving dict interface are local and read back.

Deciding monitor M: span arithmetic on the generator's own layout model.  The
harness knows the exact text of every field (own comment lines + body), every
separator and the leading/trailing blocks.  After each `p[k] = v` / `del p[k]`
the dump must be  prefix + <region> + suffix  with prefix and suffix taken
byte-for-byte from the model; only the region of the edited field may differ,
and the region itself is constrained (whole lines, starts with the field name in
its original spelling, own comment lines kept).  A fresh parse of the dump and
the live dict interface must both show the model's names/values.
Auxiliary: K3/K4/K5/K6 (vp.kmon_repro), K1/K2 (vp.kmon) on every underlying call.
"""
import os

from .. import contracts
from ..gens import rtdoc

PROP = 'C05'
LEVEL = 'exploration'
RULE = ('Generated valid documents (1..4 paragraphs, fields with 0..2 own comment lines, ":" followed by none/space/tab/'
        'spaces, trailing blanks, 0..3 continuation lines with space/tab/multi-space markers and interleaved comment lines, '
        'separators "\\n", "\\n\\n", " \\n", free comment blocks, leading/trailing blocks, with/without final newline) x '
        'histories of 1..6 set/add/delete operations with single- and multi-line new values and keys in original/upper/'
        'lower case; about 1% of the documents are BIG (8..30 paragraphs of 10..40 fields); 40% of the histories also hold 1-3 REFUSED operations '
        '(values that cannot be field values, names that cannot be field names, deletion of an absent field), after which the document must be as before.  Non-trivial: document has >= 2 paragraphs or comments or multi-line values, and >= 1 mutating op.')
ASSUMPTIONS = ['only the position, line-wholeness and name of the rewritten field text are constrained, never its exact formatting',
               'deleting a field may or may not take the field\'s own comment lines with it (the statement leaves that open); both accepted',
               'a paragraph is emptied only transiently: deleting its only field is always followed at once by adding a field to it (the dump is still compared byte-for-byte in between; the fresh-parse comparison resumes after the refill)',
               'new multi-line values have continuation lines starting with space/tab and non-blank content']
ANCHORS = ['debian._deb822_repro.parsing:Deb822ParagraphToStrWrapperMixin.__setitem__',
           'debian._deb822_repro.parsing:Deb822ParagraphToStrWrapperMixin._convert_value_to_str',
           'debian._deb822_repro.parsing:Deb822ParagraphElement.set_field_to_simple_value',
           'debian._deb822_repro.parsing:Deb822ParagraphElement.set_field_from_raw_string',
           'debian._deb822_repro.parsing:Deb822NoDuplicateFieldsParagraphElement.set_kvpair_element',
           'debian._deb822_repro.parsing:Deb822NoDuplicateFieldsParagraphElement.remove_kvpair_element',
           'debian._deb822_repro.parsing:Deb822ValueElement.add_final_newline_if_missing',
           'debian._deb822_repro.parsing:Deb822ValueLineElement.add_newline_if_missing']
MUST_REACH = ANCHORS[:6]
FLOORS = {'quick': {'nontrivial': 1500, 'monitors': {'M.step': 8000, 'M.reparse': 8000, 'K4': 5000, 'K5': 5000},
                    'counters': {'op:set': 1500, 'op:add': 1000, 'op:del': 500, 'op:del-to-empty': 60, 'add-after-missing-final-newline': 30, 'big-document': 12, 'key-kind:stale-name-token': 150, 'key-kind:current-name-token': 150, 'key-kind:name-index-tuple': 150, 'refused:attempt:value': 700, 'refused:attempt:name': 140, 'refused:attempt:del-absent': 80}},
          'thorough': {'nontrivial': 100000, 'monitors': {'M.step': 500000, 'M.reparse': 500000, 'K4': 300000, 'K5': 300000},
                       'counters': {'op:set': 100000, 'op:add': 60000, 'op:del': 35000, 'op:del-to-empty': 4000, 'add-after-missing-final-newline': 2000, 'big-document': 1500, 'key-kind:stale-name-token': 15000, 'key-kind:current-name-token': 15000, 'key-kind:name-index-tuple': 15000, 'refused:attempt:value': 100000, 'refused:attempt:name': 20000, 'refused:attempt:del-absent': 12000}}}
LEVEL_TEXT = ('Runtime monitoring: seeded edit histories on live format-preserving documents; after every operation the dump is '
              'compared byte-for-byte with the layout model outside the edited field, the edited region is checked for '
              'line-wholeness/name/comment hand-over, and a fresh parse plus the live dict view are compared with a list model; '
              'representation invariants K1-K6 run on every underlying call.  Held-on-observed.')
LEVEL_NOTE = 'Trusted: CPython, the generator\'s own layout bookkeeping (vp.gens.rtdoc), the list model.'
TECHNIQUE = 'runtime monitoring: operation history vs layout/list reference model with span arithmetic (deciding) + representation-invariant hooks K1-K6'


HOWS = ['item', 'item', 'item', 'view', 'simple', 'raw']


def do_set(live, key, value, how):
    """The same assignment through the different public entry points."""
    if how == 'simple' and '\n' in value:
        how = 'raw'
    if how == 'item':
        live[key] = value
    elif how == 'view':       # dict view that does not auto-resolve: takes the preserve_original_field_comment=True path
        live.configured_view(auto_resolve_ambiguous_fields=False)[key] = value
    elif how == 'simple':
        live.set_field_to_simple_value(key, value)
    else:
        raw = value if value.startswith((' ', '\t')) else ' ' + value
        if not raw.endswith('\n'):
            raw += '\n'
        live.set_field_from_raw_string(key, raw)


def new_value(r, ids):
    k = r.random()
    if k < .5:
        v = rtdoc.gen_content(r, ids) or ids.next()
        if r.random() < .3:
            v = r.choice([' ', '  ', '\t']) + v + r.choice(['', ' ', '\t'])
        return v
    lines = [rtdoc.gen_content(r, ids, allow_empty=True)]
    if r.random() < .3:
        lines[0] = ' ' + lines[0] + ' '
    for _ in range(r.randint(1, 3)):
        if r.random() < .15 and len(lines) >= 1:
            lines.append('# %s' % ids.next('nc'))
        lines.append(r.choice([' ', '\t', '  ']) + rtdoc.gen_content(r, ids) + r.choice(['', '', ' ']))
    v = '\n'.join(lines)
    if r.random() < .25:
        v += '\n'
    return v


def readback(v):
    """What a value assigned through the dict interface must read back as."""
    if '\n' not in v:
        return v.strip()
    first, rest = v.split('\n', 1)
    if rest == '':
        return first.strip()
    if rest.endswith('\n'):
        rest = rest[:-1]
    lines = [l for l in rest.split('\n') if not l.startswith('#')]
    return '\n'.join([first.strip()] + lines)


BAD_NAMES = ['Bad Name', '', ' x', 'x\n', 'Na\tme']


def bad_value(r, ids):
    """A value the unchanged tree refuses with ValueError through every entry point (a later line that is no continuation
    line, an empty or whitespace-only line in the middle, a trailing comment line, a line that reads as another field)."""
    a, b = ids.next(), ids.next()
    return r.choice(['%s\n%s' % (a, b), '%s\n\n %s' % (a, b), '%s\n \n %s' % (a, b), '%s\n#%s' % (a, b), '%s\n %s\nInjected: x' % (a, b),
                     '%s\n.' % a, '%s\n %s\n\n' % (a, b), '%s\n %s\n%s' % (a, b, b), '\n%s' % a])


def cases(ctx):
    r = ctx.rng('docs')
    r2 = ctx.rng('refused')
    for _ in range(ctx.size(3000, 450000)):
        big = r.random() < .012
        doc = rtdoc.gen_doc(r, big=big)
        ids = rtdoc.Ids()
        ids.n = 100000 if big else 1000
        ops = []
        # shadow name lists so that generated ops are mostly applicable
        names = [[f['name'] for f in p] for p in doc['paras']]
        for _ in range(r.randint(1, 6)):
            pi = r.randrange(len(names))
            k = r.random()
            if k < .45:
                n = r.choice(names[pi])
                key = r.choice([n, n, n.upper(), n.lower(), n.swapcase()])
                ops.append(['set', pi, key, new_value(r, ids), r.choice(HOWS)])
            elif k < .75:
                cand = [n for n in rtdoc.NAMES + ['New-Field', 'zz'] if n.lower() not in [x.lower() for x in names[pi]]]
                n = r.choice(cand)
                if r.random() < .2:
                    n = n.lower()
                names[pi].append(n)
                ops.append(['set', pi, n, new_value(r, ids), r.choice(HOWS)])
            else:
                if len(names[pi]) < 2:
                    # transiently EMPTY the paragraph (delete its only field), then refill it at once
                    if len(names[pi]) == 1 and doc['final_newline'] and r.random() < .6:
                        n = names[pi][0]
                        ops.append(['del', pi, n, 'to-empty'])
                        nn = r.choice(['Refill', 'x-refill', n])
                        ops.append(['set', pi, nn, new_value(r, ids), r.choice(HOWS)])
                        names[pi] = [nn]
                    continue
                n = r.choice(names[pi])
                names[pi] = [x for x in names[pi] if x != n]
                ops.append(['del', pi, r.choice([n, n, n.upper(), n.lower()])])
        if ops:
            # REFUSED operations among the edits (own stream; the 'docs' stream above is untouched): an assignment of a value that
            # cannot be a field value, an assignment under a name that cannot be a field name, a deletion of an absent field.
            # Whatever was refused is no edit: the document - above all the field's own comment lines - stays as it was.
            if r2.random() < .4:
                for _ in range(r2.choice([1, 1, 2, 3])):
                    pi = r2.randrange(len(doc['paras']))
                    k = r2.random()
                    if k < .6:
                        n = r2.choice([f['name'] for f in doc['paras'][pi]])
                        bad = ['bad', pi, r2.choice([n, n, n.upper(), n.lower()]), bad_value(r2, ids), r2.choice(HOWS), 'value']
                    elif k < .75:
                        bad = ['bad', pi, r2.choice(['Brand-New', 'zz-new']), bad_value(r2, ids), r2.choice(HOWS), 'value']
                    elif k < .9:
                        bad = ['bad', pi, r2.choice(BAD_NAMES), ids.next(), 'item', 'name']
                    else:
                        bad = ['bad', pi, r2.choice(['No-Such-Field', 'absent']), None, 'del', 'del-absent']
                    ops.insert(r2.randint(0, len(ops)), bad)
            yield {'kind': 'edit', 'doc': doc, 'ops': ops}


def setup(ctx):
    if os.environ.get('VP_NO_K'):
        return
    from .. import kmon, kmon_repro
    kmon.attach_K1()
    kmon.attach_K2()
    kmon_repro.attach_all()


def finish(ctx):
    contracts.flush_evals(ctx)


def _find(fields, key):
    for i, f in enumerate(fields):
        if f['name'].lower() == key.lower():
            return i
    return None


def run_case(ctx, case):
    from debian._deb822_repro import parse_deb822_file
    try:
        from .. import kmon
        kmon.reset()
    except Exception:
        pass
    doc = case['doc']
    if sum(len(p) for p in doc['paras']) >= 80:
        ctx.count('big-document')
    # deep-ish copy of the model (the case itself must stay untouched for replay files)
    model = {'lead': doc['lead'], 'seps': list(doc['seps']), 'trail': doc['trail'], 'final_newline': doc['final_newline'],
             'paras': [[dict(f) for f in p] for p in doc['paras']]}
    text = rtdoc.doc_text(model)
    f = parse_deb822_file(text.splitlines(keepends=True))
    tokens0 = {}
    for _pi, _p in enumerate(f):
        for _k in list(_p.keys()):
            _el = _p.get_kvpair_element(_k, use_get=True)
            if _el is not None:
                tokens0[(_pi, str(_k).lower())] = _el.field_token
    if f.dump() != text:
        ctx.violation('initial-dump-differs', 'text %r' % text)
        return
    paras = list(f)
    if len(paras) != len(model['paras']):
        ctx.violation('harness/paragraph-count', 'generator and parser disagree on paragraphs for %r' % text)
        return
    mutated = 0
    adj = ctx.extra.setdefault('op_adjacencies_observed', set())
    prev_kind = 'start'
    for step, op in enumerate(case['ops']):
        kind, pi, key = op[0], op[1], op[2]
        adj.add('%s->%s' % (prev_kind, op[0]))
        prev_kind = op[0]
        fields = model['paras'][pi]
        live = paras[pi]
        before = rtdoc.doc_text(model)
        idx = _find(fields, key)
        is_last_para = pi == len(model['paras']) - 1
        if kind == 'bad':
            what = op[5]
            ctx.count('refused:attempt:' + what)
            try:
                if what == 'del-absent':
                    if idx is not None:
                        continue
                    del live[key]
                else:
                    do_set(live, key, op[3], op[4])
                raised = None
            except Exception as e:
                raised = e
            try:
                after = f.dump()
            except Exception as e:
                ctx.violation('dump-raises-after-refused-operation/%s' % type(e).__name__, 'step %d %r on %r (refused with %r): %r' % (step, op, before, raised, e))
                return
            if raised is None:
                # accepted (an implementation's choice I have no model for): nothing demanded, the history ends here
                ctx.count('refused:accepted-instead:' + what)
                if after == before:
                    continue
                return
            ctx.count('refused:raised:%s:%s' % (what, type(raised).__name__))
            ctx.mon('M.refused')
            if after != before:
                # the field's own lines may be the implementation's business; everything else is not
                pre = model['lead']
                for j in range(pi):
                    pre += rtdoc.para_text(model['paras'][j]) + model['seps'][j]
                post = ''
                for j in range(pi + 1, len(model['paras'])):
                    post += model['seps'][j - 1] + rtdoc.para_text(model['paras'][j])
                post += model['trail']
                if idx is None or what != 'value':
                    inside_only = False
                else:
                    pre += rtdoc.para_text(fields[:idx]) + fields[idx]['comments']
                    post = rtdoc.para_text(fields[idx + 1:]) + post
                    inside_only = after.startswith(pre) and after.endswith(post) and len(after) >= len(pre) + len(post)
                if not inside_only:
                    ctx.violation('refused-operation-changed-bytes-outside-the-field/%s' % what,
                                  'step %d %r raised %r, yet\nbefore=%r\nafter =%r' % (step, op, raised, before, after))
                    return
                ctx.count('refused:changed-inside-the-field-only')
                return
            if idx is not None and what == 'value' and fields[idx]['comments']:
                ctx.count('refused:on-field-with-comments')
            if not _check_views(ctx, step, op, f, paras, model, parse_deb822_file):
                return
            continue
        if kind == 'set':
            value = op[3]
            is_add = idx is None
            ctx.count('op:add' if is_add else 'op:set')
            how = op[4] if len(op) > 4 else 'item'
            ctx.count('how:' + how)
            skey = key
            if not is_add and how == 'item':
                # the same field addressed by the other documented key kinds: (name, 0), the field's current name token,
                # a name token taken before earlier replacements (stale, still naming the field)
                kf = (step + len(key)) % 6
                if kf == 0:
                    skey = (key, 0)
                elif kf == 1:
                    el = live.get_kvpair_element(key, use_get=True)
                    skey = el.field_token if el is not None else key
                elif kf == 2 and (pi, key.lower()) in tokens0:
                    skey = tokens0[(pi, key.lower())]
                if skey is not key:
                    ctx.count('key-kind:%s' % ({0: 'name-index-tuple', 1: 'current-name-token', 2: 'stale-name-token'}[kf]))
            try:
                do_set(live, skey, value, how)
            except Exception as e:
                ctx.violation('set-raises/%s' % type(e).__name__, 'step %d %r on %r: %r' % (step, op, before, e))
                return
            mutated += 1
            after = f.dump()
            # prefix / suffix from the model, as complete lines
            pre = model['lead']
            for j in range(pi):
                pre += rtdoc.para_text(model['paras'][j]) + model['seps'][j]
            post = ''
            for j in range(pi + 1, len(model['paras'])):
                post += model['seps'][j - 1] + rtdoc.para_text(model['paras'][j])
            post += model['trail']
            if is_add:
                pre += rtdoc.para_text(fields)
                own_comments, name_out = '', key
                if not model['final_newline'] and post == '':
                    # the one permitted side effect: the missing final newline is supplied (it is part of `pre`)
                    ctx.count('add-after-missing-final-newline')
            else:
                pre += rtdoc.para_text(fields[:idx])
                post = rtdoc.para_text(fields[idx + 1:]) + post
                own_comments, name_out = fields[idx]['comments'], fields[idx]['name']
            # the end of the document is untouched unless the edited field is the very last thing in it
            post_cmp = post if (model['final_newline'] or post == '') else post[:-1]
            ctx.mon('M.step')
            ok = after.startswith(pre + own_comments) and after.endswith(post_cmp) \
                and len(after) >= len(pre) + len(own_comments) + len(post_cmp)
            if not ok:
                key_ = 'added-field-not-at-end-of-paragraph-on-own-lines' if is_add else 'set-changed-bytes-outside-the-field'
                if is_add and post == '' and not model['final_newline'] and after.startswith(pre[:-1]) \
                        and not after.startswith(pre):
                    key_ = 'field-added-after-missing-final-newline-is-glued'
                ctx.violation(key_, 'step %d %r\nbefore=%r\nafter =%r\nwant prefix=%r\nwant suffix=%r'
                              % (step, op, before, after, pre + own_comments, post_cmp))
                return
            region = after[len(pre) + len(own_comments): len(after) - len(post_cmp)]
            if not region.startswith(name_out + ':'):
                ctx.violation('rewritten-field-does-not-start-with-its-name', 'step %d %r region=%r' % (step, op, region))
                return
            if (post != '' or model['final_newline']) and not region.endswith('\n'):
                ctx.violation('rewritten-field-not-on-whole-lines', 'step %d %r region=%r after=%r' % (step, op, region, after))
                return
            if post == '':
                model['final_newline'] = region.endswith('\n')
            body = region if region.endswith('\n') else region + '\n'
            newf = {'name': name_out, 'comments': own_comments, 'body': body, 'value': readback(value), 'id': 'e%d' % step}
            if is_add:
                fields.append(newf)
            else:
                fields[idx] = newf
        elif kind == 'del':
            to_empty = len(op) > 3 and op[3] == 'to-empty'
            if idx is None or (len(fields) < 2 and not to_empty):
                continue
            ctx.count('op:del-to-empty' if to_empty and len(fields) == 1 else 'op:del')
            try:
                del live[key]
            except Exception as e:
                ctx.violation('del-raises/%s' % type(e).__name__, 'step %d %r on %r: %r' % (step, op, before, e))
                return
            mutated += 1
            after = f.dump()
            ctx.mon('M.step')
            gone = fields[idx]
            was_last = _is_last_field(model, pi, idx)
            variants = [fields[:idx] + fields[idx + 1:]]
            if gone['comments'] and idx + 1 < len(fields):
                # variant: the field's own comment lines stay behind (they then lead the next field)
                nxt = dict(fields[idx + 1], comments=gone['comments'] + fields[idx + 1]['comments'])
                variants.append(fields[:idx] + [nxt] + fields[idx + 2:])
            chosen = None
            wanted = []
            for rest in variants:
                for fn in ((True, False) if (was_last and not model['final_newline']) else (model['final_newline'],)):
                    m = dict(model, final_newline=fn, paras=[p if j != pi else rest for j, p in enumerate(model['paras'])])
                    t = rtdoc.doc_text(m)
                    wanted.append(t)
                    if t == after and chosen is None:
                        chosen = (rest, fn)
            if chosen is None:
                ctx.violation('delete-changed-more-than-the-field', 'step %d %r\nbefore=%r\nafter =%r\nwant one of %r'
                              % (step, op, before, after, wanted))
                return
            model['paras'][pi], model['final_newline'] = chosen
        # ---- after every op: live dict view + fresh parse against the list model
        if not _check_views(ctx, step, op, f, paras, model, parse_deb822_file):
            return
    d = case['doc']
    if mutated and (len(d['paras']) >= 2 or rtdoc.has_comments(d) or rtdoc.has_multiline(d)):
        ctx.nontrivial()


def _is_last_field(model, pi, idx):
    return pi == len(model['paras']) - 1 and idx == len(model['paras'][pi]) - 1 and model['trail'] == ''


def _check_views(ctx, step, op, f, paras, model, parse):
    ctx.mon('M.reparse')
    after = f.dump()
    want = [[(fl['name'], fl['value']) for fl in p] for p in model['paras']]
    # live dict interface
    for live, p in zip(paras, want):
        if op[0] == 'bad' and not p:
            continue
        got = [(k, live[k]) for k in live.keys()]
        if got != p:
            ctx.violation('live-dict-view-differs-from-model', 'step %d %r: live %r model %r' % (step, op, got, p))
            return False
        for name, val in p:
            for variant in (name.lower(), name.upper()):
                if variant not in live or live[variant] != val:
                    ctx.violation('case-insensitive-lookup-fails', 'step %d %r: key %r' % (step, op, variant))
                    return False
        if len(live) != len(p):
            ctx.violation('live-len-differs', 'step %d' % step)
            return False
    if any(not p for p in model['paras']):
        # a transiently empty paragraph: the document is not valid at this instant; judged again after the refill
        if rtdoc.doc_text(model) != after:
            ctx.violation('harness/model-text-drift', 'step %d %r: model %r dump %r' % (step, op, rtdoc.doc_text(model), after))
            return False
        return True
    try:
        re = parse(after.splitlines(keepends=True))
    except Exception as e:
        ctx.violation('dump-does-not-reparse/%s' % type(e).__name__, 'step %d %r: dump %r: %r' % (step, op, after, e))
        return False
    got = [[(k, p[k]) for k in p.keys()] for p in re]
    if got != want:
        key = 'reparsed-dump-differs-from-model'
        if len(got) != len(want):
            key = 'reparsed-dump-has-different-paragraphs'
        elif [[n for n, _ in p] for p in got] != [[n for n, _ in p] for p in want]:
            key = 'reparsed-dump-has-different-field-names'
        ctx.violation(key, 'step %d %r\ndump=%r\nreparsed=%r\nmodel   =%r' % (step, op, after, got, want))
        return False
    if rtdoc.doc_text(model) != after:
        ctx.violation('harness/model-text-drift', 'step %d %r: model %r dump %r' % (step, op, rtdoc.doc_text(model), after))
        return False
    return True
