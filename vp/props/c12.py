"""C12 - structured multi-line fields round-trip as records; dump never fails
because optional structured fields are absent; size column right-aligned.

Deciding monitor M (boundary oracle = record model, vp.models.mvrecords):

* text mode   : generated control text -> ``cls(text)`` (str / bytes / line list /
                file object / PGP-armoured) ; every structured field of the class
                must expose exactly the generated records under the documented
                sub-field names (independent table), absent fields stay absent;
                ``dump()`` of that parsed object must not raise; the dumped text
                re-parses to the same records in the same order.
* build mode  : ``cls()`` filled from record lists (plain dicts or Deb822Dicts,
                sizes optionally ints) -> ``dump()`` must not raise -> re-parse
                gives the same records in the same order.
* column check: for Release and PdiffIndex the size token of every dumped record
                line is right-aligned to 16 (apt-ftparchive) / the longest size of
                that field (dak, pdiff), measured directly on the dumped lines.

Workload: per class x Release size_field_behavior, EVERY subset of the 4
structured fields (16) and every subset of <= 3 (quick) / <= 4 (thorough) of
PdiffIndex's 14 fields, plus random larger subsets, x {text, build} x several
random fillings (1..4 records, rarely more; sizes 1..18 digits; hostile
whitespace-free tokens), plus a purely random stream.

Histories (one object, several dumps): a case may carry ``ops`` - a list of
public-API mutations interleaved with 2..4 dumps.  After EVERY dump the same
three judgements are made against the record model as it stands at that moment
(dump returns; size column obeys the width rule of the CURRENT
size_field_behavior and the CURRENT records; the text re-parses to the CURRENT
records).  Mutations: Release.size_field_behavior switched (attribute or
``set_size_field_behavior``); a structured field re-assigned with a new record
list (longer / shorter sizes); an absent one added; a present one deleted
(``del`` / ``pop``); the list object returned by ``obj[field]`` edited in place
(append / insert / pop a record, change a record's size or another sub-field).
PdiffIndex additionally gets SHA*-Current given as a list of >= 2 records whose
sizes differ in length, and parsed Indexes whose History / Patches / Download
fields carry their only record on the field line.

Text layouts (every class): a parsed field is written in one of the three layouts deb822 allows -
'single' (the only record on the field line), 'multi' (every record on a continuation line) and 'mixed'
(the FIRST record on the field line, the further 1..3 records on continuation lines:
``SHA1-History: a 1 d1\n b 2 d2\n c 3 d3``).  The mixed layout is driven (a) for every structured field of
every configuration x 2, 3, 4 records (enumerated, case['wl'] = ['mixed-enum', field, n]), (b) in paragraphs
whose fields mix the three layouts (case['wl'] = ['mixed-par']), (c) with probability MIXED_P for any
>= 2-record field of every other parsed case, histories included.  Judgement is the ordinary one: all
records exposed in order under the documented names, dump() returns, the dumped text re-parses to the same
records (whatever layout the dump chooses).

Token alphabet - invisible / format characters: tokens of every sub-field column (hash, size, name, section,
priority, date, filename) may carry a character that is NOT whitespace for str.split() / str.isspace() and not a
line boundary, yet is the kind of character a well-meaning decoder or normaliser deletes or alters: U+FEFF,
U+200B, U+200C, U+200D, U+2060, U+00AD, U+0301 (core; thorough adds directional marks, variation selectors,
further combining marks, U+FFFE / U+FFFF, tag characters ...), at the start, in the middle, at the end of the
token, as the whole token, or at both ends.  Driven (a) enumerated: every configuration x structured field x
sub-field column x character x position x {parsed text, built object} (case['wl'] = ['inv-enum', ...]; input
form, dump route, text layout and carrying record rotate deterministically), (b) paragraphs with many such tokens
(['inv-par']), (c) with probability INV_P in every other generated token, history mutations included (a quarter
of the histories with a raised share).  Judgement is the ordinary one: the records exposed / re-read are the
records written, character for character; the size column is padded to the documented width counted in
characters (len()), whatever the characters are.

Position of the longest size: for every configuration x structured field x 2..6 records the strictly longest
size token is put in the FIRST record only / the LAST record only / one MIDDLE record only (['lpos', field, n,
where]); every judged dump of every workload counts where the strictly longest size of each >= 2-record field sat
(longest:* per dump, align:longest:* once every dumped line of the field passed the column check).

Build routes (case['mode'] == 'route'): a paragraph "built from a list of records" is also built incrementally and
indirectly - para[f] = [] followed by para[f].append / .extend / .insert(0, ..) / += per record; para.setdefault(f,
[]).append(rec) per record from an absent field (the first record travels through the list setdefault RETURNS), also
with a default that already holds records and with a default that must be ignored because the key is present;
para.update({f: recs}) / update([(f, recs)]) / update(**{f: recs}); para.get(f).append; para[f] = para[f] + [rec];
the list kept in a variable (lst = para[f] / para.get(f) / para.setdefault(f, [])) and appended to; the object made
from a mapping (cls(m), cls(sequence=m), cls(Deb822Dict(m))) of plain fields, of record lists (refused by the
unchanged tree: counted, then assigned) or of record TEXT (exposed as records by the unchanged tree); a field that is
deleted and rebuilt, or reset to [] and refilled; para.update(<another parsed paragraph>); the very list object of
another parsed paragraph handed over; records that are the library's OWN record objects taken out of another parsed
paragraph (one by index, several by index, sliced, reversed, sorted, filtered, whole; the object itself, dict(r),
r.copy(), Deb822Dict(r), dict(r.items())) mixed with caller-made records (dict in documented / reversed key order,
OrderedDict, Deb822Dict, int sizes) in one list.  Between the steps the paragraph is READ (para[f], para.get(f),
get with a default, len, bool, iteration with sub-field access, copies of the list, record reads, f in para, items /
values / keys / len / repr / dict / == of the paragraph, get_as_string, str; reads of ABSENT fields) and sometimes
DUMPED (judged like the final dump).  Steps of different fields run field after field or interleaved.  Every judged
dump is the ordinary judgement (dump returns, width rule, re-parse = the model's records).  A caller-held list that
is mutated AFTER it was assigned (lst = [..]; para[f] = lst; lst.append(..)) is driven on a throw-away object,
counted (route:callerlist:*) and never judged.

Constructor spellings and argument types (case['mode'] == 'ctor'): the paragraph text of the parsed cases above reaches
the class as ONE positional argument.  This class hands the same kind of text over in every equivalent spelling of the
call - cls(x), cls(sequence=x), with fields= (keyword or positional, before or behind sequence=), with encoding= /
strict= / every parameter spelled out with its default - and in every kind of argument the constructor documents: str,
bytes, list / tuple of str or bytes lines (with / without newline) and the ONE-SHOT sources io.StringIO, io.BytesIO,
an open text file, an open binary file, generators of str / bytes lines, iter(list); and MAPPINGS that are not plain
dicts: an already parsed generic Deb822 paragraph (made from str / bytes / lines / a file / iter_paragraphs / copy() /
item assignment / a dict), Deb822Dict, OrderedDict, MappingProxyType (of a dict, an OrderedDict, a Deb822), UserDict,
ChainMap, defaultdict, a bare collections.abc.Mapping, all holding the fields as raw text.  cls.iter_paragraphs gets
the same text sources and spellings (plus use_apt_pkg / shared_storage spelled out) over documents of 1..3
paragraphs, consumed by list(), a for loop, or next().  Judgement per paragraph = the ordinary one (records == model,
dump returns, width rule, dump re-parses to the model), plus: a paragraph with NO field although fields were handed
over is a finding of its own; iter_paragraphs yields exactly the paragraphs written; the dumped text goes once more
through the SAME spelling and must give the model again; a mapping argument holds afterwards what it held before.

Equality protocol of the exposed records: the harness reads records sub-field by sub-field, callers compare them with
==.  After every judged parse and after every judged dump -> re-parse, for one present field (rotating): the field
value == / is == to the same records as plain dicts in REVERSED or shuffled key order; after the parse of a generated
text and after the re-parse of what a built object dumped additionally, for one record: rec == d, d == rec, rec != d,
d != rec for d in column / reversed / shuffled key order, a dict differing in ONE sub-field value (first column, size,
middle, last column) compares unequal both ways and != says so, d in records / records.index(d) (first equal record) /
a differing dict is not in / a list differing in one sub-field of one record is unequal, the record against a
Deb822Dict made from the reversed pairs, and - counted only - against a dict whose NAMES are in another letter case.
Records of two parses compare equal: parsed text vs. the parse of its dump (every single-dump case), the same text
parsed twice and the dumped text parsed twice (the single-record class and a share of the other single-dump cases).

Single-record fields and stability (case['wl'] = ['one', field, shape]): every structured field of every
configuration with exactly ONE record in the four shapes it can come about - the record on the field line of parsed
text ('text-single'), on a continuation line ('text-multi'), a built object given a LIST holding the record
('build-list') or the BARE record ('build-bare'; case['bare'] lists such fields, also drawn for 30 % of the one-record
fields of the enumerated / random built cases).  For these, for every second other single-dump case with a one-record
field and for an eighth of the remaining ones parse -> dump -> parse must be stable: the value shape (list / bare record) of
every field after the re-parse equals the one after the first parse (parsed cases), and the re-parsed object dumps to
exactly the text it was parsed from (parsed and built cases; all three text layouts, both build shapes).

Record tokens that together spell a line with a meaning elsewhere in the format (case['wl'] = ['lk', field, class, shape]
/ ['lk-par']; case['lk'] = [[field, record index, record count, class] ..]): a record line is the record's tokens joined
by blanks behind the indentation (or behind "Field:").  Every token is an ordinary whitespace-free token, but joined
they read like an OpenPGP armor line ('-----BEGIN' 'PGP' 'SIGNATURE-----', '-----END PGP SIGNATURE-----', '-----BEGIN
PGP MESSAGE-----'; in the five-column Files of .changes '-----BEGIN PGP PUBLIC KEY BLOCK-----' and '-----BEGIN PGP SIGNED
MESSAGE-----' with one more token before / behind it), a field line ('Files:' 'x' 'y', 'Name:' .., the field's own
name, 'Files' ':' ..), a comment ('#' 'x' 'y'), a line whose first / every / last token is '.', a line starting with '-'
('-', '-----', '-' '-----BEGIN' ..: dash-escaping) or '+'.  Enumerated: every configuration x class x {parsed text:
only record on the field line / only record on a continuation line / first, middle, last record on continuation lines
/ first (= on the field line), middle, last record of the mixed layout; built object: list holding only that record /
first, middle, last record of a list / the bare record}; the field stands first / in the middle / last among the
structured fields.  Judgement: the ordinary one, then the generated text (parsed cases) and the dumped text go through
EVERY input form (str, bytes, lines with / without newline, text file, binary file, and cls.iter_paragraphs over str /
lines / a binary file, rotating) and - Dsc, Changes, BuildInfo - with the document wrapped in the clear-sign armor sign()
writes (as str and in two of the other forms, rotating); each time exactly one paragraph must come out that exposes all records of all structured fields
(those behind the look-alike included) and shows every field name that was written.
"""
import collections
import collections.abc
import copy
import io
import itertools
import json
import os
import random
import re
import sys
import tempfile
import traceback
import types
import warnings

from ..models import mvrecords as mv

PROP = 'C12'
LEVEL = 'exploration'
RULE = ('One case = one paragraph of one class (Dsc, Changes, BuildInfo, PdiffIndex, Release x {apt-ftparchive, dak}) '
        'with a chosen subset of the class\'s structured fields present, each with 1..4 (rarely up to 12) records over '
        'non-empty whitespace-free tokens (sizes 1..18 digits, up to 24 inside histories), either as generated text that is '
        'parsed, or as an object built from record lists; the case is dumped and re-parsed.  Subsets are enumerated completely '
        'for the 4-field classes and up to size 3 (quick) / 4 (thorough) for PdiffIndex, larger ones are sampled.  '
        'Workload classes beyond that: (a) PdiffIndex with SHA1-/SHA256-Current given as a list of 2..4 records whose sizes '
        'all differ in length (parsed multi-line text, or built), and PARSED PdiffIndex text in which 1..3 of the '
        'History/Patches/Download fields carry their only record on the field line; (b) HISTORIES: one parsed or built '
        'object, 2..4 dumps, 0..3 public-API mutations before each dump - Release.size_field_behavior switched (attribute '
        'assignment or set_size_field_behavior), a present structured field re-assigned with a new record list (sizes longer / '
        'shorter / of mixed length relative to the old ones), an absent one added, a present one removed (del / pop), and the '
        'list returned by obj[field] edited in place (append / insert / pop of a record, a record\'s size or other sub-field '
        'overwritten; on a field held as one mapping only the overwrite) - every dump of a history is judged (dump returns, '
        'width rule of the current behaviour and records, re-parse equals the current records); configurations rotate '
        'Release(apt) 3 : Release(dak) 3 : PdiffIndex 4 : Dsc 1 : Changes 1 : BuildInfo 1; '
        '(c) MIXED TEXT LAYOUT: parsed text in which a field with 2..4 (rarely up to 12) records carries its FIRST record on '
        'the field line and the further records on continuation lines ("SHA1-History: a 1 d1\\n b 2 d2\\n c 3 d3") - '
        'enumerated for every structured field of every configuration x exactly 2, 3 and 4 records (alone in the paragraph, '
        'or next to a random subset of the other structured fields), driven in paragraphs of 2..14 structured fields that '
        'mix the three layouts across their fields (only record on the field line / all records on continuation lines, '
        'one or several / mixed; also all fields mixed), and chosen with probability 1/4 for every >= 2-record field of any '
        'other parsed case, so that it also occurs under every enumerated presence subset, in every input form (str, bytes, '
        'line lists, file objects, PGP-armoured) and as the starting point of histories (in-place edits of the list parsed '
        'from such a field included).  '
        '(d) INVISIBLE / FORMAT CHARACTERS IN TOKENS: characters that are no whitespace for str.split() / str.isspace(), no line '
        'boundary for str.splitlines() and encodable in UTF-8 - U+FEFF, U+200B, U+200C, U+200D, U+2060, U+00AD, U+0301 (quick '
        'enumeration) plus U+200E/F, U+034F, U+FE0F, U+180E, U+061C, U+2061/3/4, U+FFFE, U+FFFF, U+0300, U+0308, U+20DD, U+E0001, '
        'U+E0100, U+FFF9, U+202A/E, U+2066/9 (thorough enumeration; sampled in quick) - at the start / in the middle (a combining '
        'mark mostly right after a base letter it composes with) / at the end of a token, as the whole token, or at both ends; '
        'enumerated for every configuration (Release apt-ftparchive and dak, Dsc, Changes, BuildInfo, PdiffIndex incl. the '
        'X-Unmerged twins) x structured field x sub-field column (hash, size, name, section, priority, date, filename) x character '
        'x position x {parsed text, built object}, with the input form (str, bytes, line lists with / without newline, text file '
        'object, bytes file object, PGP-armoured), the dump route (dump() -> str, dump(fd) binary, dump(fd, text_mode=True)), the '
        'text layout of the field (single / one or several continuation lines / mixed) and the record that carries the token '
        '(first / last / middle / any) rotated so that every (configuration, input form), (character, input form), (position, '
        'input form) and (character, dump route) pair occurs; plus paragraphs in which 15..80 % of all tokens carry one, plus a '
        'share of 0.6 % of all tokens of every other workload (30 % in a quarter of the histories, mutation arguments included).  '
        '(e) POSITION OF THE LONGEST SIZE: for every configuration x structured field x exactly 2, 3, 4, 5, 6 records, the '
        'strictly longest size token sits in the first record only, the last record only, or one middle record only (other sizes '
        'strictly shorter: unrelated lengths / all one shorter / all of length 1; longest 2..20 characters, so also 16, 17, 18 '
        'around the fixed width), parsed text and built object; every judged dump of every workload counts the position of the '
        'strictly longest size per >= 2-record field.  '
        '(f) BUILD ROUTES: a built paragraph whose structured fields are NOT filled by assigning one finished list each: every '
        'structured field of every configuration x each of 24 routes (enumerated; the other structured fields absent / some / all '
        'present, each on a route of its own), plus paragraphs in which every field draws its route - para[f] = [] (also via update / '
        'update(**kw) / update(pairs) / setdefault) then per record para[f].append / extend (list, generator, slice assignment) / '
        'insert(0, ..) / += ; para.get(f).append; para.setdefault(f, []).append(rec) for each record starting from an ABSENT field, '
        'the same with extend / += / insert / slice, with the returned list kept in a variable, with a default that already holds the '
        'first record, with a default that must be ignored because the key is present by then, and setdefault(f, finished list); '
        'update({f: records}) / update([(f, records)]) / update(**{f: records}); first record assigned then the others appended; '
        'para[f] = para[f] + [rec]; the stored list kept in a variable (from para[f] / para.get(f)) and grown in place; a field that '
        'held other records and was deleted (del / pop) and rebuilt, or reset to [] and refilled; the object constructed from a '
        'mapping (cls(m), cls(sequence=m), cls(Deb822Dict(m))) of plain fields, of record lists, or of record text (single / '
        'continuation / mixed layout) with appends behind it; para.update(another parsed paragraph of the class) with appends behind '
        'it; the list object of another parsed paragraph handed over as it is.  Records are caller-made (dict in documented or '
        'reversed key order, OrderedDict, Deb822Dict from a dict / from pairs / from reversed pairs, sizes str or int) or the '
        'library\'s own record objects taken from 1..4 other parsed paragraphs of the same class or of a class with identical '
        'sub-field names (any input form, any text layout, dumped first or not): the object itself, dict(r), r.copy(), Deb822Dict(r), '
        'dict(r.items()); one by index, several by index, a slice, reversed, sorted by a column, filtered by a column, all - both '
        'kinds mixed in one list.  Steps of different fields run field after field or interleaved; between them the paragraph is read '
        '(para[f], get, get with default, len, bool, iteration with sub-field access, list copies / slices / sorted, record reads, '
        'membership, items / values / keys / len / repr / dict() / == of the paragraph, get_as_string, str(), reads of absent fields) '
        'and with probability 0.1 per step dumped; every such intermediate dump and the final dump are judged like any built '
        'paragraph (dump returns, width rule, re-parse equals the model).  Release behaviour is set first, late, or left at its '
        'default.  A route case is non-trivial by the same rule as a single-dump case, applied to its final dump.  '
        '(g) CONSTRUCTOR SPELLINGS AND ARGUMENT TYPES: generated paragraph text (presence subsets, all three layouts, hostile and '
        'invisible-character tokens, PGP armour for Dsc / Changes / BuildInfo in a fifth of the cases, optional leading empty line, '
        'with / without final newline / with a trailing empty line) handed to the class in every combination of configuration x '
        'text source x call spelling (enumerated): sources str, bytes, list of lines, list of lines without newline, list of bytes '
        'lines, tuple (re-usable) and io.StringIO, io.BytesIO, open text file on disk (encoding utf-8), open binary file on disk, '
        'generator of lines, generator of lines without newline, generator of bytes lines, iter(list of lines), iter(list of bytes '
        'lines) (one-shot; files closed right after the constructor returned in half of the cases); spellings cls(x), '
        'cls(sequence=x), cls(sequence=x, fields=F), cls(fields=F, sequence=x), cls(x, F), cls(x, fields=F), cls(sequence=x, '
        'encoding="utf-8"), cls(x, encoding="utf-8"), cls(sequence=x, strict={"whitespace-separates-paragraphs": True|False}), '
        'cls(sequence=x, fields=None, encoding="utf-8", strict=None), cls(x, None, None, "utf-8"); F = all fields / the structured '
        'ones / a random subset, spelled exactly as in the text; the same sources x the same spellings plus use_apt_pkg=False, '
        'use_apt_pkg=True (python3-apt is absent: warns and falls back), shared_storage=True, and all six parameters spelled out, '
        'for cls.iter_paragraphs over documents of 1, 2 or 3 paragraphs separated by one or two empty lines, the iterator consumed '
        'by list() / a for loop that judges and dumps each paragraph before the next is pulled / explicit next(); and every '
        'configuration x mapping type x {cls(m), cls(sequence=m), cls(sequence=m, fields=F), cls(sequence=m, encoding=..), all '
        'spelled out} for mappings holding the fields of one paragraph as raw text: generic Deb822 paragraph parsed from str / bytes '
        '/ list of lines / StringIO / Deb822.iter_paragraphs, its copy(), one filled by item assignment, one made from a dict; '
        'Deb822Dict from pairs / from a dict / filled by item assignment; dict; OrderedDict; MappingProxyType of a dict / of an '
        'OrderedDict / of a Deb822; UserDict; a class that is only a collections.abc.Mapping; ChainMap; defaultdict; and an object '
        'of the class itself (holds records: counted, judged only if accepted).  Every paragraph obtained is judged like any parsed '
        'paragraph; afterwards the dumped text (for iter_paragraphs the dumped paragraphs joined into one document, for mappings a '
        'mapping of the same type made from the dump) goes through the same source form and spelling once more.  A ctor case is '
        'non-trivial when one of its paragraphs satisfies the single-dump rule.  '
        '(h) EQUALITY PROTOCOL OF THE EXPOSED RECORDS: on every judged parse and every judged dump -> re-parse (histories, build '
        'routes, constructor spellings included) one present field (rotating with the length of the text) is compared as a whole: '
        'value == dicts / dicts == value with the same records as plain dicts whose keys are in reversed or shuffled order (a list '
        'of dicts for a list-valued field, one dict for a field exposed as a bare record).  On every parse of a generated text and on '
        'the re-parse of every single-dump built case additionally one record of that field in detail: two of the three pairs rec == d, '
        'd != rec (keys in column order) / d == rec, rec != d (reversed) / rec == d, rec != d (shuffled), rotating; a dict that differs '
        'in exactly ONE sub-field value (the column rotates: first column, size, middle, last) must be unequal (rec == d or d == rec, '
        'alternating) and rec != d must be true; for a '
        'list-valued field d in records, records.index(d) == index of the first equal record, and either a differing dict is not in '
        'the list or a list of dicts differing in one sub-field of one record is unequal (== false, != true); every fourth time '
        'the record against a Deb822Dict built from the reversed pairs (both directions), every fourth time against a dict whose '
        'sub-field NAMES are in swapped letter case (answer counted, only "!= is the negation of ==" judged).  Records of two '
        'parses: in every single-dump parsed case one field value of the parsed text against the same field of the parse of its '
        'dump; in the single-record class, in every built case dumped through dump(fd, text_mode=True) and in every second parsed '
        'one such, the text (and the dumped text) is parsed a SECOND time, judged like the first, and one field value of the two '
        'parses compared (== one way or the other, != false).  '
        '(i) SINGLE-RECORD FIELDS IN BOTH VALUE SHAPES, STABILITY OF parse -> dump -> parse: every configuration x structured field '
        '(all 14 of PdiffIndex, SHA1-Current / SHA256-Current included; the library distinguishes the one-record form for every '
        'structured field of every class) x exactly one record x {text with the record on the field line, text with the record on '
        'a continuation line, built object given a LIST holding the record, built object given the BARE record (para[f] = rec)}, '
        'the other structured fields absent / a random subset with 1..4 records / a random subset with one record each in shapes '
        'of their own; input form and dump route rotate.  In the enumerated and random built cases 30 % of the one-record fields '
        'are handed over bare as well.  For every case of this class, for every second other single-dump case that has a one-record '
        'field and for an eighth of the rest (decided by the length of the dumped text), parse -> dump -> parse is judged for stability: (parsed cases, any of the '
        'three layouts) every field is exposed by the parse of the dump in the same value shape - list or bare record - as by '
        'the first parse; (parsed and built cases) the object parsed from the dump, given the same size_field_behavior, dumps '
        'to exactly the text it was parsed from (which implies that a third parse equals the second).  '
        '(j) RECORD TOKENS THAT TOGETHER SPELL A LINE WITH A MEANING ELSEWHERE IN THE FORMAT: a record line is the record\'s '
        'tokens joined by blanks behind the indentation of a continuation line (or behind "Field:" on the field line); records '
        'whose tokens - each a non-empty whitespace-free token - so joined read like (1..3) an OpenPGP armor line: '
        '"-----BEGIN PGP SIGNATURE-----", "-----END PGP SIGNATURE-----", "-----BEGIN PGP MESSAGE-----" / "-----END PGP '
        'MESSAGE-----" as three tokens in the three-column fields; in the five-column Files of .changes "-----BEGIN|END PGP '
        'PUBLIC KEY BLOCK-----" (five tokens), the three-token lines with two ordinary tokens behind or before them, and the '
        'four tokens of "-----BEGIN PGP SIGNED MESSAGE-----" with one ordinary token behind / before them or with the closing '
        'dashes as a token of their own; (4) a field line: first token "Files:", "Name:", the field\'s own name, another '
        'structured / plain field\'s name, "X-Foo:" (each with the colon), "Files:x", or the two tokens "Files" ":"; (5) a '
        'comment: first token "#", "#x", "##", "#Files:", "#-----BEGIN"; (6) the first / the first two / every / the last token '
        'is "."; (7) first token "-", "--", "---", "-----", "-x", "-1", "-----BEGIN", or "-" followed by "-----BEGIN" .. (the '
        'shape dash-escaping gives an armor line); (8) first token "+", "++", "+++", "+x", "+1" (classes 4..8 also in the '
        'two-column SHA*-Current fields).  Enumerated: every configuration x class x 13 shapes - parsed text with the look-alike '
        'as the only record on the field line / the only record on a continuation line / the first, a middle, the last of 2..4 '
        'records on continuation lines / the first (= on the field line), a middle, the last record of the mixed layout; built '
        'object given a list holding only that record / a list with it as first, middle, last record / the bare record - with '
        'the structured field rotating (thorough: every structured field the class fits), the field standing first / in the '
        'middle / last among 1..4 structured fields of the paragraph (plain fields around them), the record line written '
        'with ONE blank between tokens (always for the armor classes, else in two of three cases), input form and dump route '
        'rotating; plus paragraphs in which 2 or more records of 1..8 fields are look-alikes of random classes (in four of ten '
        'the first one reads like an armor BEGIN line and the last one like an armor END line).  Each such case is judged the '
        'ordinary way (records exposed, dump returns, width rule, re-parse, equality protocol, stability) and then the generated '
        'text (parsed cases) and the dumped text are read through every input form - cls(str), cls(bytes), cls(lines), cls(lines '
        'without newline), cls(text file), cls(binary file), cls.iter_paragraphs over str / lines / a binary file (one of the three, rotating) - and, for '
        'Dsc / Changes / BuildInfo, wrapped in the clear-sign armor ("-----BEGIN PGP SIGNED MESSAGE-----", Hash header, empty line, '
        'the document, "-----BEGIN PGP SIGNATURE-----" .. "-----END PGP SIGNATURE-----") as str and in two of the other seven '
        'forms (rotating): every time exactly one paragraph must come out, with all records of all structured fields - the '
        'look-alike one and everything behind it - and with every field name that was written.  '
        'A single-dump case is non-trivial when at least one structured field of the class is absent and at least one present '
        'field has >= 2 records; a history is non-trivial when it has >= 2 judged dumps and that condition held at one of them.')
ASSUMPTIONS = [
    'vp.models.mvrecords.DOC is a faithful transcription of the documented sub-field names/order of every structured field',
    'domain: records over NON-EMPTY tokens without any str.isspace() character; >= 1 record per present field '
    '(an empty record list is outside the oracle); single-line text form only for single-record fields',
    'size column check assumes one separating space between the first column and the (padded) size column, as apt-ftparchive/dak write it; '
    'it is applied to multi-line (one record per continuation line) output only, not to a record dumped on the field line',
    'generated text separates tokens with runs of plain spaces only and continuation lines start with one space',
    'mixed text layout (first record on the field line after "Name:" and zero, one or two spaces, further records on '
    'continuation lines): deb822 allows it and the statement says "parsing exposes each line as a record", so ALL records - the one '
    'on the field line first - are demanded in order under the documented names.  Confirmed on the unchanged tree before judging: '
    'every class exposes such a field as a list of all its records in text order, dump() writes that list with every record on a '
    'continuation line (Release / PdiffIndex padded as usual) and the dump re-parses to the same records; no disagreement was seen.  '
    'Nothing is demanded about the layout dump() chooses for such a field: a dump that keeps the first record on the field line is '
    'accepted (the size-column check skips a field whose field line carries data), only the re-parsed records count',
    'histories on a field parsed from the mixed layout treat the value returned by obj[field] as THE stored list, exactly as for a '
    'field parsed from continuation lines only (that is what the unchanged tree exposes; a 2..4-record field cannot be one mapping)',
    'sub-field names are checked by item access (rec[name]) and record length, not by key order or key spelling case',
    'histories: the value returned by obj[field] for a field parsed from multi-line text or assigned as a list is taken to be THE stored '
    'list (comment in _multivalued.validate_input: "we allow mutable lists"), so an in-place edit must show in the next dump; a history never '
    'pops the last record of a field (empty list = outside the domain) and appends/inserts/pops only on fields the model holds as a list; '
    'on a field parsed from a record on the field line only rec[name] = token is used, through whatever obj[field] returns '
    '(the mapping itself, or element [i] if it is a list)',
    'histories: after a mutation the width rule is the documented one for the CURRENT size_field_behavior and the CURRENT records of '
    'that field (16, or the longest size now present); nothing is demanded about the live object other than through its dump '
    '(the records exposed by the mutated object itself, e.g. int vs str sizes, are not compared)',
    'histories: fields are addressed with any letter case of the field name (mappings are documented case-insensitive); which spelling '
    'a dump prints is not judged; record sub-fields are addressed by their documented names only',
    'invisible / format characters: the statement quantifies over whitespace-free tokens; U+FEFF, U+200B..U+200D, U+2060, U+00AD, '
    'combining marks, directional marks, variation selectors, tag characters and the noncharacters U+FFFE / U+FFFF are not whitespace '
    '(str.isspace() is False, str.split() keeps them inside the token, str.splitlines() does not break at them), so a token that '
    'contains them - or consists of them only - is inside the domain and must come back character for character; no Unicode '
    'normalisation form is assumed on either side (e + U+0301 is not the same token as U+00E9).  The alphabet is filtered at import '
    'time by exactly those three tests plus a UTF-8 encode/decode round trip on the running interpreter, so a character that a '
    'different Unicode database treats as whitespace or a lone surrogate is never generated.  Confirmed on the unchanged tree '
    'before judging: all input forms and all three dump routes return such tokens unchanged',
    'size column width is counted in characters (len() of the size token as written), also when the size token carries zero-width or '
    'combining characters or non-ASCII digits: "the longest size present" / "16" are taken as lengths of the token string, not display '
    'cells and not encoded bytes (that is what the unchanged tree does and what makes the column a fixed number of characters)',
    'position of the longest size: nothing new is demanded - the documented width (16, or the longest size present) holds wherever the '
    'longest size sits; the counters only make sure first-only / last-only / middle-only x 2..6 records were dumped and column-checked',
    'histories: a mutation through the public API that raises is reported (history-mutation-raises/...): every mutation used is plain '
    'mapping/list/attribute use on values inside the domain, and size_field_behavior is only ever set to its two documented values',
    'build routes: the paragraph is a MutableMapping (the class derives from collections.abc.MutableMapping), so setdefault(key, default) '
    'returns the object that is stored under the key afterwards (the first record appended through the returned list must be in the '
    'dump) and leaves a present key alone (a default given for a present key must not show up); update() takes a mapping, pairs, or '
    'keyword arguments; get(key) / para[key] return THE stored list, exactly as the in-place-edit histories assume.  A list kept in a '
    'variable is only used while no assignment to that field happened since it was obtained (para[f] = .., para[f] += .., update, '
    'delete all end its use): whether an assignment stores the object given or a copy is the library\'s choice',
    'build routes: a caller-held list mutated AFTER it was assigned (lst = [..]; para[f] = lst; lst.append(..)) is NOT judged.  It is '
    'driven on a throw-away object and counted: the unchanged tree stores the caller\'s list (route:callerlist:paragraph-shows-the-'
    'later-appends).  A scratch library that copies on assignment and whose setdefault returns the stored copy was run through the '
    'whole workload and stayed silent (only that counter flips), so the workload does not depend on that choice.  Likewise the list '
    'object of another paragraph handed over as it is (para2[f] = para1[f], para2.update(para1)) is never appended to through the '
    'OTHER paragraph afterwards, and a field that received such a list by a plain assignment is not grown at all',
    'build routes: a build step that raises is reported (build-step-raises/<step>/<exception>): every step is plain mapping / list use on '
    'values inside the domain.  Exception: a CONSTRUCTOR that is given a mapping holding record lists or record text may refuse - the '
    'statement speaks of paragraphs built from record lists, not of constructor arguments.  Established on the unchanged tree: record '
    'lists in the mapping are refused with AttributeError by every class (counted route:ctor-records-in-mapping:refused:*; the object '
    'is then made from the plain fields and the lists go in with update()), record text in the mapping is accepted and exposed as '
    'records in all three layouts (counted route:ctor-text-in-mapping:*); if a tree accepts, the result is judged like any built '
    'paragraph; if record text is accepted but not exposed as the records it spells, nothing is demanded and the records are assigned',
    'build routes: reads must not raise and must not change anything (a read of an ABSENT structured field included: it must not create '
    'the field - that would show as a phantom field in the dump).  get_as_string() / str() / an intermediate dump() are only used '
    'while every present structured field holds >= 1 record: an empty record list is outside the domain (on the unchanged tree '
    'PdiffIndex and Release(dak) raise ValueError when asked to dump one, Release(apt-ftparchive) and the others print an empty field)',
    'build routes: records of the library\'s own making are taken from another parsed paragraph only after that paragraph was seen to '
    'expose exactly the records written (otherwise the ordinary parse finding is reported); they are reused only under a field whose '
    'documented sub-field names are identical (same class, PdiffIndex twins, Release <-> Dsc / Changes / BuildInfo checksum fields); '
    'dict(r), r.copy(), Deb822Dict(r), dict(r.items()) of such a record are records with the same tokens; taking records out (reading, '
    'copying, slicing, sorting) must leave the source paragraph exposing what it exposed before (re-checked at the end, except for a '
    'source whose lists were handed over whole by update())',
    'build routes: a caller-made record is a mapping from the documented sub-field names to tokens; the order in which the mapping holds '
    'its keys is not part of the record (plain dict in documented or reversed order, OrderedDict, Deb822Dict all denote the same record)',
    'build routes: an empty paragraph of the class made just before, and one made just after, the incrementally built one must show no '
    'structured field (records given to one paragraph do not appear in another)',
    'constructor spellings: the docstring of Deb822 documents the first parameter as `sequence` ("a string, or any object that returns a '
    'line of input each time, normally a file ... Alternately, sequence can be a dict that contains the initial key-value pairs") and '
    'iter_paragraphs takes "sequence: same as in __init__", so cls(x) and cls(sequence=x), with or without the other documented '
    'parameters spelled out with values that change nothing (encoding "utf-8" - every byte source is UTF-8 and text files are opened '
    'with encoding="utf-8" whatever the locale -, strict None or either value of whitespace-separates-paragraphs on text without '
    'whitespace-only lines, fields None, use_apt_pkg False, shared_storage either value: "not used"), denote the same parse.  '
    'Established on the unchanged tree before judging: every source form x spelling x class gives the paragraph the classic cls(str) '
    'gives; no disagreement was seen.  use_apt_pkg=True without python3-apt is documented to warn and use the internal parser: the '
    'warning is recorded inside warnings.catch_warnings and counted, never judged',
    'constructor spellings, one-shot sources: a StringIO / BytesIO / open file / generator / iterator is handed over fresh, positioned '
    'at its start, and never used by the harness afterwards except close(); in half of the constructor cases a file object is closed '
    'right after the constructor returned and BEFORE the object is read (the ubiquitous `with open(..) as f: d = Dsc(f)` idiom; the '
    'unchanged tree parses eagerly).  For iter_paragraphs the source is closed only after the iterator was consumed.  Lines are cut at '
    '"\\n" only; a list / generator "without newline" is text.split("\\n") (it ends with an empty string when the text ends with a '
    'newline).  Nothing is demanded about what is left in a one-shot source after the constructor took its paragraph',
    'constructor spellings, fields=F: F holds field names spelled exactly as the text spells them (the unchanged tree compares the '
    'spelling as written) and every paragraph of the case has at least one listed field (iter_paragraphs ends at the first paragraph '
    'that comes out empty).  A LISTED structured field must be exposed with the model\'s records.  "The rest will be discarded" is '
    'documented but is not part of this property: a structured field that is NOT listed may be absent; if the object shows it '
    'nevertheless (the unchanged tree does for mapping arguments, where fields= is ignored) it must show the right records, and it '
    'then takes part in the dump judgement.  An object with NO field at all although listed fields were handed over is a violation',
    'constructor spellings, mappings: the mapping holds every field of ONE generated paragraph as raw text in the form deb822 mappings '
    'hold text - what follows the colon on the field line, blanks stripped, then "\\n" + each continuation line verbatim (so "a 1 x", '
    '"\\n a 1 x\\n b 2 y", "a 1 x\\n b 2 y" for the three layouts); own splitter, and a generic Deb822 paragraph that does not hold '
    'exactly that (not this property\'s business) makes the case unjudged (counted ctor:map:<type>:source-does-not-hold-the-raw-text; '
    'never seen).  A constructor MAY REFUSE a mapping (any exception from the constructor call itself): counted '
    'ctor:map:<type>:refused:<exception>, never judged.  Established on the unchanged tree: every listed mapping type with raw-text '
    'values is accepted by all five classes and the structured fields come out as records exactly as when the same text is parsed '
    'directly; an object of the class itself (values are record lists) is refused with AttributeError unless it has no structured '
    'field.  What is accepted is judged like a parsed paragraph - but only after the CONTROL cls(text) of the same text was seen to '
    'expose the model\'s records (otherwise the ordinary parse finding is reported).  Only the total number of judged mapping '
    'constructions has a floor (M.ctor.map), not the acceptance of any single mapping type',
    'constructor spellings, mappings: "sequence can be a dict that contains the INITIAL key-value pairs" is read as: the constructor '
    'leaves its argument alone (the mapping holds afterwards exactly the pairs it held before; also after the new paragraph got a '
    'record appended or a field deleted) and the paragraph does not follow what the caller does to ITS mapping afterwards (one '
    'structured key deleted or re-assigned in a mutable mapping; the paragraph still shows the model\'s records).  Both are plain '
    'copy semantics of dict(m); the unchanged tree has them',
    'constructor spellings, iter_paragraphs: a document is 1..3 generated paragraphs of one class, optionally one leading empty line, '
    'separated by one or two EMPTY lines (no whitespace-only lines, no comments), ending with / without newline or with one extra '
    'empty line; a PGP-armoured document is one paragraph.  Exactly the written paragraphs must be yielded, in order (at most two '
    'more are pulled, to see a surplus).  In the for / next modes each paragraph is judged and dumped before the next one is pulled',
    'equality protocol: the statement says parsing "exposes each line as a record with the documented sub-field names"; a record is '
    'read as a MAPPING from those names to the tokens, so - like every Python mapping, and like the Deb822Dict the unchanged tree '
    'exposes - it equals a plain dict holding the same names and tokens whatever order that dict holds its keys in, is unequal to '
    'one with a different token under one name, and != is the negation of ==.  Only records that compare_records() has just seen '
    'to hold exactly the model\'s tokens under exactly the documented names are compared, and only against dicts with exactly '
    'those names spelled as documented (no extra / missing keys, no non-mapping operands, values str like the parsed tokens; the '
    'differing token is the model\'s token + "~", made different from every record\'s token in that column).  list ==, `in` and '
    'index() on a list-valued field are CPython\'s and only call the record\'s == (with an identity shortcut that cannot make a '
    'wrong answer right here: the dicts are the harness\'s own objects).  Established on the unchanged tree before judging: all of '
    'it holds in every configuration, stage and key order; no disagreement was seen',
    'equality protocol, names in another letter case: record[name] is case-insensitive on the unchanged tree, record == dict with '
    'the names in another case is FALSE there (Deb822Dict.__eq__ compares the names as spelled).  The statement is silent, so the '
    'answer is only counted (eq:other-case-names:equal / unequal, no floor); judged is only that != gives the opposite answer',
    'equality protocol, two parses: two parses of the same text (and the parse of a text and the parse of its dump, both seen to '
    'expose the model\'s records) expose EQUAL field values; if one parse exposes a bare record and the other a list of one (that '
    'is the stability judgement\'s business) the comparison is made between [record] and the list.  Not compared: a built '
    'object\'s own values (they are the caller\'s dicts, possibly with int sizes), and objects of histories (mutated since)',
    'single-record fields: the library documents no rule for WHICH shape a one-record field has; established on the unchanged tree: '
    'every class exposes a record on the field line as the bare record (Deb822Dict) and a record on a continuation line as a list '
    'of one, dumps para[f] = rec on the field line and para[f] = [rec] on a continuation line, for every structured field (not only '
    'SHA1-/SHA256-Current).  Judged is only STABILITY, which needs no such rule: what the first parse exposed (list / bare), the '
    'parse of its dump exposes too, and the re-parsed object (same size_field_behavior set) dumps to the text it came from.  '
    'Whether a BUILT list of one comes back as a list (it does on the unchanged tree) is counted (stable:built:*-reparsed-as-*, '
    'no floor), not judged: "re-parses to the same records" says nothing about the container.  A bare record is assigned only as '
    'a dict / Deb822Dict with exactly the documented names (the unchanged tree accepts it in every class); an assignment that '
    'raises is reported (build-assignment-raises/<exception>/bare-record).  dump() of the re-parsed object is the plain dump() -> '
    'str, compared with the first dump whatever route (str / binary fd decoded as UTF-8 / text fd) that took - established equal '
    'on the unchanged tree for all routes, layouts, classes and token alphabets used here',
    'look-alike lines: the statement quantifies over ALL whitespace-free tokens, so "-----BEGIN", "PGP", "SIGNATURE-----", "Files:", '
    '"#", ".", "-", "+" are tokens like any other and a record made of them must come back as that record.  What makes this '
    'decidable without guessing is the layout: a record line always stands behind the one-blank indentation of a continuation line '
    'or behind "Field:" - never in column 0, where armor lines, field lines and comment lines have their meaning - and the generator '
    'writes no other indentation.  Established on the unchanged tree BEFORE judging (930 300 probes: every configuration x structured '
    'field x look-alike spelling x 10 layouts / positions x 3 field orders, with and without final newline, every input form, '
    'clear-signed or not, and the three dump routes read back the same way): every spelling round-trips - an INDENTED armor '
    'look-alike is payload, inside and outside a clear-signed document; " Files: x y" is a continuation line; " # x y" is no '
    'comment; " . 1 x" is a record - and no disagreement was seen.  Only those spellings are generated and judged; nothing is '
    'demanded for a look-alike in column 0 (cannot be produced by a record) or behind a TAB / several blanks of indentation',
    'look-alike lines, clear-sign wrapping: the wrapper is the module\'s sign() (armor header line, one Hash header, an empty line, '
    'the document, an empty line unless the text lacks its final newline, then a signature block with its own BEGIN / END lines); '
    'record lines are indented, so no dash-escaping applies to them and the document inside is byte for byte the unsigned one.  '
    'Dsc / Changes / BuildInfo only (the classes documented to accept signed input).  The signature is not verified',
    'look-alike lines, "nothing lost after such a record": besides the records of every structured field (compare_records over '
    'the whole table) every field NAME that was written - plain fields included - must be a key of the paragraph read back; the '
    'values of plain fields are not compared (not this property).  cls.iter_paragraphs over the one-paragraph document must yield '
    'exactly one paragraph (at most three are pulled)',
    'constructor spellings: "the dump re-parses to the records" is judged twice - with the classic cls(dumped str) like everywhere '
    'else, and with the dumped text handed over through the same source form and call spelling as the original (a mapping of the '
    'same type is made from the dump with the harness\'s splitter or, for the deb822-* types, by the generic Deb822 parser)',
]
ANCHORS = ['debian.deb822:_multivalued.__init__',
           'debian.deb822:_multivalued.get_as_string',
           'debian.deb822:PdiffIndex._fixed_field_lengths',
           'debian.deb822:PdiffIndex._get_size_field_length',
           'debian.deb822:Release._fixed_field_lengths',
           'debian.deb822:Release._get_size_field_length',
           'debian.deb822:Deb822.dump']
MUST_REACH = ['debian.deb822:_multivalued.__init__', 'debian.deb822:_multivalued.get_as_string',
              'debian.deb822:Deb822.dump']

# workload sizes (totals over all shards)
REPS4 = {'quick': 20, 'thorough': 150}         # fillings per (config, subset, mode) for the 4-field classes
PD_MAXK = {'quick': 3, 'thorough': 4}          # PdiffIndex: all subsets up to this size ...
PD_REPS = {'quick': 2, 'thorough': 6}
PD_RANDOM = {'quick': 300, 'thorough': 2000}   # ... plus this many random larger subsets
RANDOM = {'quick': 11000, 'thorough': 550000}   # free random stream (round 9: trimmed 3.5 % to pay for the look-alike class)
PD_EXTRA = {'quick': 1200, 'thorough': 40000}   # PdiffIndex Current-as-list / single-line 3-column cases
HIST = {'quick': 5600, 'thorough': 187000}      # histories (one object, 2..4 dumps with mutations between; round 9: - 3.5 %)
# mixed text layout (first record on the field line, further records on continuation lines)
MIXED_P = 0.25                                  # share of >= 2-record fields of ANY parsed text written that way
MIXED_REPS = {'quick': 10, 'thorough': 150}     # fillings per (config, structured field, record count 2..4)
MIXED_PAR = {'quick': 2000, 'thorough': 60000}  # paragraphs mixing the three layouts across their fields
# invisible / format characters inside tokens
INV_REPS = {'quick': 1, 'thorough': 6}          # per (config, field, sub-field column, character, position, mode)
INV_PAR = {'quick': 1600, 'thorough': 50000}    # paragraphs with many such tokens
# position of the strictly longest size among 2..6 records
LPOS_REPS = {'quick': 2, 'thorough': 40}        # per (config, field, record count, position of the longest, mode)
# built objects: share of the one-record fields of the enumerated / random single-dump cases whose value is the bare
# record instead of a list holding it
BARE_P = 0.3

# ~50% of what the unchanged (repaired) tree measures: quick = minimum over VERIF_SEED 0..3, thorough = seed 0.
# has-absent-field is counted per judged dump.  The hist:* / pdiff:* floors make a run that never drives the
# history / PdiffIndex-form classes INCONCLUSIVE instead of held; the form:mixed / mixed:* / mixed-enum:* / mixed-par:*
# / M.mixed* floors do the same for the mixed text layout (first record on the field line + continuation lines);
# the inv:* / inv-enum:* / inv-par:* / M.inv* floors for tokens with invisible / format characters (per character,
# position, column, configuration x input form, dump route ...; measured counters are floored only where the
# minimum is >= 40 (quick) / 60 (thorough), so sparsely sampled extras cannot flake); the lpos:* / longest:* /
# align:longest:* / M.align.longest floors for the position of the strictly longest size (first / last / middle
# x 2..6 records).  The literal is generated from evidence files (50 % of the measured minimum, 2 digits kept);
# the deterministic enumerations get their floors programmatically (MIXED-FLOORS below, INV-/LPOS-FLOORS further down).
FLOORS = {
    'quick': {
        'nontrivial': 14000,
        'monitors': {'M': 18000, 'M.parse': 10000, 'M.dump': 24000, 'M.reparse': 24000, 'M.align': 170000, 'M.hist':
                     8400, 'M.mixed': 9200, 'M.mixed.dump': 7000, 'M.inv': 21000, 'M.inv.dump': 8200, 'M.inv.align':
                     8300, 'M.align.longest': 55000},
        'counters': {'class:Dsc': 2300, 'class:Changes': 2300, 'class:BuildInfo': 2300, 'class:PdiffIndex': 6000,
                     'class:Release': 5600, 'behavior:dak': 2700, 'behavior:apt-ftparchive': 2700, 'mode:text': 10000,
                     'mode:build': 8300, 'form:single': 4800, 'form:multi': 23000, 'has-absent-field': 20000,
                     'kind:single-dump': 15000, 'kind:history': 3000, 'hist:redump': 5400, 'hist:redump-unchanged':
                     300, 'hist:dump-after:behavior': 1000, 'hist:dump-after:reassign': 1200,
                     'hist:dump-after:add-absent': 830, 'hist:dump-after:delete': 860, 'hist:dump-after:append': 1200,
                     'hist:dump-after:insert': 440, 'hist:dump-after:pop': 1200, 'hist:dump-after:set-size': 1200,
                     'hist:dump-after:set-token': 430, 'hist:dump-after-switch-to:apt-ftparchive': 490,
                     'hist:dump-after-switch-to:dak': 500, 'hist:dump-after-in-place-edit:built': 1600,
                     'hist:dump-after-in-place-edit:parsed': 2000, 'hist:redump-width-changed:PdiffIndex': 1000,
                     'hist:redump-width-changed:Release': 980, 'hist:redump-width-grew': 1200,
                     'hist:redump-width-shrank': 1100, 'pdiff:current-list-mixed-sizes:built': 1800,
                     'pdiff:current-list-mixed-sizes:parsed': 2500, 'pdiff:parsed-single-line-3col': 2300,
                     'form:mixed': 9200, 'mixed:case': 5600, 'mixed:records:2': 4300, 'mixed:records:3': 2300,
                     'mixed:records:4': 2300, 'mixed:columns:2': 720, 'mixed:columns:3': 8200, 'mixed:columns:5': 210,
                     'mixed:kind:history': 830, 'mixed:kind:single-dump': 4800, 'mixed:is-last-field-of-paragraph':
                     1500, 'mixed:followed-by-another-field': 4000, 'mixed:paragraph-layouts:mixed': 1000,
                     'mixed:paragraph-layouts:mixed+multi': 1600, 'mixed:paragraph-layouts:mixed+single': 340,
                     'mixed:paragraph-layouts:mixed+multi+single': 790, 'mixed:paragraph-with-other-layouts': 4600,
                     'mixed:paragraph-with-2+-mixed-fields': 2100, 'mixed-enum:case': 510, 'mixed-par:case': 1000,
                     'mixed-enum:records:2': 170, 'mixed-enum:records:3': 170, 'mixed-enum:records:4': 170,
                     'hist:dump-with-mixed-layout-field': 2100, 'hist:dump-after-in-place-edit-on-mixed-layout-field':
                     450, 'mixed:config:BuildInfo': 600, 'mixed:config:Changes': 630, 'mixed:config:Dsc': 600,
                     'mixed:config:PdiffIndex': 2300, 'mixed:config:Release-apt-ftparchive': 700,
                     'mixed:config:Release-dak': 690, 'mixed:input:bfile': 750, 'mixed:input:bytes': 750,
                     'mixed:input:file': 770, 'mixed:input:lines': 760, 'mixed:input:lines_nonl': 760,
                     'mixed:input:signed': 230, 'mixed:input:str': 1500, 'align:longest:PdiffIndex:first': 14000,
                     'align:longest:PdiffIndex:last': 14000, 'align:longest:PdiffIndex:middle': 7500,
                     'align:longest:Release-apt-ftparchive:first': 2400, 'align:longest:Release-apt-ftparchive:last':
                     2500, 'align:longest:Release-apt-ftparchive:middle': 1300, 'align:longest:Release-dak:first':
                     2400, 'align:longest:Release-dak:last': 2500, 'align:longest:Release-dak:middle': 1400,
                     'align:longest:first:n2': 11000, 'align:longest:first:n3': 4000, 'align:longest:first:n4': 2700,
                     'align:longest:first:n5': 100, 'align:longest:first:n6': 65, 'align:longest:last:n2': 11000,
                     'align:longest:last:n3': 4200, 'align:longest:last:n4': 2900, 'align:longest:last:n5': 230,
                     'align:longest:last:n6': 70, 'align:longest:middle:n3': 3900, 'align:longest:middle:n4': 5600,
                     'align:longest:middle:n5': 220, 'align:longest:middle:n6': 120, 'inv-enum:case': 2800,
                     'inv-enum:mode:build': 1400, 'inv-enum:mode:text': 1400, 'inv-par:case': 760,
                     'inv:adjacent:line-after-field-name-starts-with-invisible': 300,
                     'inv:adjacent:line-after-leading-space-starts-with-invisible': 1600,
                     'inv:adjacent:line-ends-with-invisible': 1900, 'inv:adjacent:paragraph-ends-with-invisible': 150,
                     'inv:build-with-int-sizes': 730, 'inv:case': 6300, 'inv:char-input:U+00AD:bfile': 110,
                     'inv:char-input:U+00AD:bytes': 110, 'inv:char-input:U+00AD:file': 110,
                     'inv:char-input:U+00AD:lines': 110, 'inv:char-input:U+00AD:lines_nonl': 110,
                     'inv:char-input:U+00AD:signed': 34, 'inv:char-input:U+00AD:str': 230,
                     'inv:char-input:U+0300:str': 27, 'inv:char-input:U+0301:bfile': 110,
                     'inv:char-input:U+0301:bytes': 110, 'inv:char-input:U+0301:file': 100,
                     'inv:char-input:U+0301:lines': 120, 'inv:char-input:U+0301:lines_nonl': 110,
                     'inv:char-input:U+0301:signed': 36, 'inv:char-input:U+0301:str': 220,
                     'inv:char-input:U+0308:str': 24, 'inv:char-input:U+034F:str': 26, 'inv:char-input:U+061C:str':
                     25, 'inv:char-input:U+180E:str': 26, 'inv:char-input:U+200B:bfile': 100,
                     'inv:char-input:U+200B:bytes': 110, 'inv:char-input:U+200B:file': 100,
                     'inv:char-input:U+200B:lines': 120, 'inv:char-input:U+200B:lines_nonl': 110,
                     'inv:char-input:U+200B:signed': 32, 'inv:char-input:U+200B:str': 230,
                     'inv:char-input:U+200C:bfile': 120, 'inv:char-input:U+200C:bytes': 110,
                     'inv:char-input:U+200C:file': 110, 'inv:char-input:U+200C:lines': 120,
                     'inv:char-input:U+200C:lines_nonl': 120, 'inv:char-input:U+200C:signed': 30,
                     'inv:char-input:U+200C:str': 220, 'inv:char-input:U+200D:bfile': 120,
                     'inv:char-input:U+200D:bytes': 110, 'inv:char-input:U+200D:file': 110,
                     'inv:char-input:U+200D:lines': 110, 'inv:char-input:U+200D:lines_nonl': 110,
                     'inv:char-input:U+200D:signed': 31, 'inv:char-input:U+200D:str': 220,
                     'inv:char-input:U+200F:str': 20, 'inv:char-input:U+202A:str': 22, 'inv:char-input:U+202E:str':
                     25, 'inv:char-input:U+2060:bfile': 110, 'inv:char-input:U+2060:bytes': 120,
                     'inv:char-input:U+2060:file': 120, 'inv:char-input:U+2060:lines': 110,
                     'inv:char-input:U+2060:lines_nonl': 110, 'inv:char-input:U+2060:signed': 34,
                     'inv:char-input:U+2060:str': 220, 'inv:char-input:U+2061:str': 21, 'inv:char-input:U+2063:str':
                     24, 'inv:char-input:U+2064:str': 20, 'inv:char-input:U+2066:str': 23,
                     'inv:char-input:U+2069:str': 26, 'inv:char-input:U+20DD:str': 23, 'inv:char-input:U+E0001:str':
                     23, 'inv:char-input:U+E0100:str': 25, 'inv:char-input:U+FE0F:str': 23,
                     'inv:char-input:U+FEFF:bfile': 110, 'inv:char-input:U+FEFF:bytes': 110,
                     'inv:char-input:U+FEFF:file': 110, 'inv:char-input:U+FEFF:lines': 110,
                     'inv:char-input:U+FEFF:lines_nonl': 110, 'inv:char-input:U+FEFF:signed': 33,
                     'inv:char-input:U+FEFF:str': 230, 'inv:char-input:U+FFF9:str': 24, 'inv:char-input:U+FFFE:str':
                     22, 'inv:char-input:U+FFFF:str': 24, 'inv:char-mode:U+00AD:build': 770,
                     'inv:char-mode:U+00AD:text': 880, 'inv:char-mode:U+0300:build': 84, 'inv:char-mode:U+0300:text':
                     93, 'inv:char-mode:U+0301:build': 760, 'inv:char-mode:U+0301:text': 870,
                     'inv:char-mode:U+0308:build': 66, 'inv:char-mode:U+0308:text': 96, 'inv:char-mode:U+034F:build':
                     65, 'inv:char-mode:U+034F:text': 98, 'inv:char-mode:U+061C:build': 78,
                     'inv:char-mode:U+061C:text': 100, 'inv:char-mode:U+180E:build': 73, 'inv:char-mode:U+180E:text':
                     91, 'inv:char-mode:U+200B:build': 770, 'inv:char-mode:U+200B:text': 850,
                     'inv:char-mode:U+200C:build': 770, 'inv:char-mode:U+200C:text': 880,
                     'inv:char-mode:U+200D:build': 760, 'inv:char-mode:U+200D:text': 870,
                     'inv:char-mode:U+200E:build': 74, 'inv:char-mode:U+200E:text': 85, 'inv:char-mode:U+200F:build':
                     74, 'inv:char-mode:U+200F:text': 94, 'inv:char-mode:U+202A:build': 73,
                     'inv:char-mode:U+202A:text': 96, 'inv:char-mode:U+202E:build': 81, 'inv:char-mode:U+202E:text':
                     93, 'inv:char-mode:U+2060:build': 770, 'inv:char-mode:U+2060:text': 890,
                     'inv:char-mode:U+2061:build': 81, 'inv:char-mode:U+2061:text': 85, 'inv:char-mode:U+2063:build':
                     81, 'inv:char-mode:U+2063:text': 90, 'inv:char-mode:U+2064:build': 78,
                     'inv:char-mode:U+2064:text': 92, 'inv:char-mode:U+2066:build': 77, 'inv:char-mode:U+2066:text':
                     93, 'inv:char-mode:U+2069:build': 78, 'inv:char-mode:U+2069:text': 93,
                     'inv:char-mode:U+20DD:build': 65, 'inv:char-mode:U+20DD:text': 93, 'inv:char-mode:U+E0001:build':
                     73, 'inv:char-mode:U+E0001:text': 88, 'inv:char-mode:U+E0100:build': 68,
                     'inv:char-mode:U+E0100:text': 92, 'inv:char-mode:U+FE0F:build': 81, 'inv:char-mode:U+FE0F:text':
                     91, 'inv:char-mode:U+FEFF:build': 770, 'inv:char-mode:U+FEFF:text': 870,
                     'inv:char-mode:U+FFF9:build': 81, 'inv:char-mode:U+FFF9:text': 97, 'inv:char-mode:U+FFFE:build':
                     84, 'inv:char-mode:U+FFFE:text': 93, 'inv:char-mode:U+FFFF:build': 80,
                     'inv:char-mode:U+FFFF:text': 97, 'inv:char-pos:U+00AD:both': 210, 'inv:char-pos:U+00AD:end': 630,
                     'inv:char-pos:U+00AD:mid': 620, 'inv:char-pos:U+00AD:start': 570, 'inv:char-pos:U+00AD:whole':
                     160, 'inv:char-pos:U+0300:end': 59, 'inv:char-pos:U+0300:mid': 62, 'inv:char-pos:U+0300:start':
                     42, 'inv:char-pos:U+0301:both': 200, 'inv:char-pos:U+0301:end': 630, 'inv:char-pos:U+0301:mid':
                     620, 'inv:char-pos:U+0301:start': 540, 'inv:char-pos:U+0301:whole': 160,
                     'inv:char-pos:U+0308:end': 52, 'inv:char-pos:U+0308:mid': 59, 'inv:char-pos:U+0308:start': 36,
                     'inv:char-pos:U+034F:end': 57, 'inv:char-pos:U+034F:mid': 61, 'inv:char-pos:U+034F:start': 41,
                     'inv:char-pos:U+061C:end': 54, 'inv:char-pos:U+061C:mid': 68, 'inv:char-pos:U+061C:start': 44,
                     'inv:char-pos:U+180E:end': 43, 'inv:char-pos:U+180E:mid': 55, 'inv:char-pos:U+180E:start': 39,
                     'inv:char-pos:U+200B:both': 190, 'inv:char-pos:U+200B:end': 610, 'inv:char-pos:U+200B:mid': 600,
                     'inv:char-pos:U+200B:start': 540, 'inv:char-pos:U+200B:whole': 170, 'inv:char-pos:U+200C:both':
                     200, 'inv:char-pos:U+200C:end': 620, 'inv:char-pos:U+200C:mid': 620, 'inv:char-pos:U+200C:start':
                     560, 'inv:char-pos:U+200C:whole': 160, 'inv:char-pos:U+200D:both': 190,
                     'inv:char-pos:U+200D:end': 620, 'inv:char-pos:U+200D:mid': 610, 'inv:char-pos:U+200D:start': 550,
                     'inv:char-pos:U+200D:whole': 170, 'inv:char-pos:U+200E:end': 49, 'inv:char-pos:U+200E:mid': 55,
                     'inv:char-pos:U+200E:start': 40, 'inv:char-pos:U+200F:end': 53, 'inv:char-pos:U+200F:mid': 55,
                     'inv:char-pos:U+200F:start': 47, 'inv:char-pos:U+202A:end': 50, 'inv:char-pos:U+202A:mid': 63,
                     'inv:char-pos:U+202A:start': 42, 'inv:char-pos:U+202E:end': 51, 'inv:char-pos:U+202E:mid': 63,
                     'inv:char-pos:U+202E:start': 43, 'inv:char-pos:U+2060:both': 200, 'inv:char-pos:U+2060:end': 620,
                     'inv:char-pos:U+2060:mid': 630, 'inv:char-pos:U+2060:start': 550, 'inv:char-pos:U+2060:whole':
                     170, 'inv:char-pos:U+2061:end': 54, 'inv:char-pos:U+2061:mid': 57, 'inv:char-pos:U+2061:start':
                     45, 'inv:char-pos:U+2063:end': 50, 'inv:char-pos:U+2063:mid': 59, 'inv:char-pos:U+2063:start':
                     42, 'inv:char-pos:U+2064:end': 56, 'inv:char-pos:U+2064:mid': 60, 'inv:char-pos:U+2064:start':
                     46, 'inv:char-pos:U+2066:end': 59, 'inv:char-pos:U+2066:mid': 60, 'inv:char-pos:U+2066:start':
                     44, 'inv:char-pos:U+2069:end': 50, 'inv:char-pos:U+2069:mid': 52, 'inv:char-pos:U+2069:start':
                     45, 'inv:char-pos:U+20DD:end': 56, 'inv:char-pos:U+20DD:mid': 57, 'inv:char-pos:U+20DD:start':
                     40, 'inv:char-pos:U+E0001:end': 47, 'inv:char-pos:U+E0001:mid': 54, 'inv:char-pos:U+E0001:start':
                     42, 'inv:char-pos:U+E0100:end': 52, 'inv:char-pos:U+E0100:mid': 61, 'inv:char-pos:U+E0100:start':
                     42, 'inv:char-pos:U+FE0F:end': 61, 'inv:char-pos:U+FE0F:mid': 58, 'inv:char-pos:U+FE0F:start':
                     40, 'inv:char-pos:U+FEFF:both': 200, 'inv:char-pos:U+FEFF:end': 630, 'inv:char-pos:U+FEFF:mid':
                     620, 'inv:char-pos:U+FEFF:start': 550, 'inv:char-pos:U+FEFF:whole': 170,
                     'inv:char-pos:U+FFF9:end': 55, 'inv:char-pos:U+FFF9:mid': 55, 'inv:char-pos:U+FFF9:start': 46,
                     'inv:char-pos:U+FFFE:end': 55, 'inv:char-pos:U+FFFE:mid': 63, 'inv:char-pos:U+FFFE:start': 45,
                     'inv:char-pos:U+FFFF:end': 59, 'inv:char-pos:U+FFFF:mid': 62, 'inv:char-pos:U+FFFF:start': 33,
                     'inv:char:U+00AD': 1600, 'inv:char:U+0300': 170, 'inv:char:U+0301': 1600, 'inv:char:U+0308': 160,
                     'inv:char:U+034F': 170, 'inv:char:U+061C': 170, 'inv:char:U+180E': 170, 'inv:char:U+200B': 1600,
                     'inv:char:U+200C': 1600, 'inv:char:U+200D': 1600, 'inv:char:U+200E': 160, 'inv:char:U+200F': 170,
                     'inv:char:U+202A': 170, 'inv:char:U+202E': 180, 'inv:char:U+2060': 1600, 'inv:char:U+2061': 160,
                     'inv:char:U+2063': 170, 'inv:char:U+2064': 170, 'inv:char:U+2066': 170, 'inv:char:U+2069': 170,
                     'inv:char:U+20DD': 170, 'inv:char:U+E0001': 170, 'inv:char:U+E0100': 160, 'inv:char:U+FE0F': 170,
                     'inv:char:U+FEFF': 1600, 'inv:char:U+FFF9': 180, 'inv:char:U+FFFE': 180, 'inv:char:U+FFFF': 180,
                     'inv:column:date': 790, 'inv:column:filename': 510, 'inv:column:first-column': 3000,
                     'inv:column:name': 1800, 'inv:column:priority': 120, 'inv:column:section': 110,
                     'inv:column:size': 3000, 'inv:config-input:BuildInfo:bfile': 42,
                     'inv:config-input:BuildInfo:bytes': 42, 'inv:config-input:BuildInfo:file': 44,
                     'inv:config-input:BuildInfo:lines': 38, 'inv:config-input:BuildInfo:lines_nonl': 41,
                     'inv:config-input:BuildInfo:signed': 39, 'inv:config-input:BuildInfo:str': 86,
                     'inv:config-input:Changes:bfile': 48, 'inv:config-input:Changes:bytes': 44,
                     'inv:config-input:Changes:file': 46, 'inv:config-input:Changes:lines': 46,
                     'inv:config-input:Changes:lines_nonl': 48, 'inv:config-input:Changes:signed': 49,
                     'inv:config-input:Changes:str': 94, 'inv:config-input:Dsc:bfile': 39,
                     'inv:config-input:Dsc:bytes': 39, 'inv:config-input:Dsc:file': 40, 'inv:config-input:Dsc:lines':
                     40, 'inv:config-input:Dsc:lines_nonl': 43, 'inv:config-input:Dsc:signed': 45,
                     'inv:config-input:Dsc:str': 77, 'inv:config-input:PdiffIndex:bfile': 180,
                     'inv:config-input:PdiffIndex:bytes': 180, 'inv:config-input:PdiffIndex:file': 190,
                     'inv:config-input:PdiffIndex:lines': 180, 'inv:config-input:PdiffIndex:lines_nonl': 190,
                     'inv:config-input:PdiffIndex:str': 380, 'inv:config-input:Release-apt-ftparchive:bfile': 59,
                     'inv:config-input:Release-apt-ftparchive:bytes': 59,
                     'inv:config-input:Release-apt-ftparchive:file': 55,
                     'inv:config-input:Release-apt-ftparchive:lines': 61,
                     'inv:config-input:Release-apt-ftparchive:lines_nonl': 62,
                     'inv:config-input:Release-apt-ftparchive:str': 110, 'inv:config-input:Release-dak:bfile': 51,
                     'inv:config-input:Release-dak:bytes': 58, 'inv:config-input:Release-dak:file': 59,
                     'inv:config-input:Release-dak:lines': 60, 'inv:config-input:Release-dak:lines_nonl': 57,
                     'inv:config-input:Release-dak:str': 120, 'inv:config:BuildInfo': 680, 'inv:config:Changes': 760,
                     'inv:config:Dsc': 660, 'inv:config:PdiffIndex': 2500, 'inv:config:Release-apt-ftparchive': 810,
                     'inv:config:Release-dak': 800, 'inv:dump-via:fd_bytes': 2000, 'inv:dump-via:fd_text': 1900,
                     'inv:dump-via:str': 4100, 'inv:dump:BuildInfo:built': 390, 'inv:dump:BuildInfo:parsed': 410,
                     'inv:dump:Changes:built': 420, 'inv:dump:Changes:parsed': 470, 'inv:dump:Dsc:built': 400,
                     'inv:dump:Dsc:parsed': 380, 'inv:dump:PdiffIndex:built': 1300, 'inv:dump:PdiffIndex:parsed':
                     1800, 'inv:dump:Release-apt-ftparchive:built': 580, 'inv:dump:Release-apt-ftparchive:parsed':
                     600, 'inv:dump:Release-dak:built': 550, 'inv:dump:Release-dak:parsed': 600,
                     'inv:fields-with-invisible:1': 4700, 'inv:fields-with-invisible:2': 670,
                     'inv:fields-with-invisible:3': 850, 'inv:hist-op:add-absent': 200, 'inv:hist-op:append': 230,
                     'inv:hist-op:insert': 79, 'inv:hist-op:reassign': 300, 'inv:hist-op:set-size': 100,
                     'inv:hist-op:set-token': 25, 'inv:input:bfile': 440, 'inv:input:bytes': 440, 'inv:input:file':
                     440, 'inv:input:lines': 450, 'inv:input:lines_nonl': 460, 'inv:input:signed': 130,
                     'inv:input:str': 890, 'inv:kind:history': 1000, 'inv:kind:single-dump': 5200, 'inv:layout:mixed':
                     1100, 'inv:layout:multi': 2200, 'inv:layout:single': 610, 'inv:mode:build': 2900,
                     'inv:mode:text': 3300, 'inv:pos-input:both:bfile': 110, 'inv:pos-input:both:bytes': 110,
                     'inv:pos-input:both:file': 120, 'inv:pos-input:both:lines': 130, 'inv:pos-input:both:lines_nonl':
                     120, 'inv:pos-input:both:signed': 28, 'inv:pos-input:both:str': 260, 'inv:pos-input:end:bfile':
                     220, 'inv:pos-input:end:bytes': 220, 'inv:pos-input:end:file': 220, 'inv:pos-input:end:lines':
                     240, 'inv:pos-input:end:lines_nonl': 230, 'inv:pos-input:end:signed': 59,
                     'inv:pos-input:end:str': 480, 'inv:pos-input:mid:bfile': 200, 'inv:pos-input:mid:bytes': 190,
                     'inv:pos-input:mid:file': 200, 'inv:pos-input:mid:lines': 200, 'inv:pos-input:mid:lines_nonl':
                     200, 'inv:pos-input:mid:signed': 57, 'inv:pos-input:mid:str': 390, 'inv:pos-input:start:bfile':
                     210, 'inv:pos-input:start:bytes': 210, 'inv:pos-input:start:file': 210,
                     'inv:pos-input:start:lines': 220, 'inv:pos-input:start:lines_nonl': 220,
                     'inv:pos-input:start:signed': 57, 'inv:pos-input:start:str': 450, 'inv:pos-input:whole:bfile':
                     110, 'inv:pos-input:whole:bytes': 110, 'inv:pos-input:whole:file': 94,
                     'inv:pos-input:whole:lines': 93, 'inv:pos-input:whole:lines_nonl': 110,
                     'inv:pos-input:whole:signed': 38, 'inv:pos-input:whole:str': 180, 'inv:pos:both': 1700,
                     'inv:pos:end': 3200, 'inv:pos:mid': 2700, 'inv:pos:start': 3100, 'inv:pos:whole': 1400,
                     'inv:record:first': 2800, 'inv:record:last': 2800, 'inv:record:middle': 2100, 'inv:record:only':
                     1600, 'inv:rectype:deb822dict': 970, 'inv:rectype:dict': 1900, 'inv:size-token-in-aligned-class':
                     5100, 'inv:token': 21000, 'longest:BuildInfo:first:n2': 960, 'longest:BuildInfo:first:n3': 340,
                     'longest:BuildInfo:first:n4': 220, 'longest:BuildInfo:last:n2': 990, 'longest:BuildInfo:last:n3':
                     340, 'longest:BuildInfo:last:n4': 240, 'longest:BuildInfo:last:n5': 21,
                     'longest:BuildInfo:middle:n3': 350, 'longest:BuildInfo:middle:n4': 490,
                     'longest:BuildInfo:middle:n5': 24, 'longest:Changes:first:n2': 990, 'longest:Changes:first:n3':
                     350, 'longest:Changes:first:n4': 240, 'longest:Changes:last:n2': 1000, 'longest:Changes:last:n3':
                     360, 'longest:Changes:last:n4': 250, 'longest:Changes:last:n5': 25, 'longest:Changes:middle:n3':
                     340, 'longest:Changes:middle:n4': 470, 'longest:Changes:middle:n5': 33, 'longest:Dsc:first:n2':
                     960, 'longest:Dsc:first:n3': 340, 'longest:Dsc:first:n4': 220, 'longest:Dsc:last:n2': 1000,
                     'longest:Dsc:last:n3': 360, 'longest:Dsc:last:n4': 250, 'longest:Dsc:last:n5': 23,
                     'longest:Dsc:middle:n3': 350, 'longest:Dsc:middle:n4': 450, 'longest:Dsc:middle:n5': 24,
                     'longest:PdiffIndex:first:n2': 8900, 'longest:PdiffIndex:first:n3': 3000,
                     'longest:PdiffIndex:first:n4': 2000, 'longest:PdiffIndex:first:n5': 59,
                     'longest:PdiffIndex:first:n6': 39, 'longest:PdiffIndex:last:n2': 8700,
                     'longest:PdiffIndex:last:n3': 3000, 'longest:PdiffIndex:last:n4': 2100,
                     'longest:PdiffIndex:last:n5': 120, 'longest:PdiffIndex:last:n6': 38,
                     'longest:PdiffIndex:middle:n3': 2900, 'longest:PdiffIndex:middle:n4': 4100,
                     'longest:PdiffIndex:middle:n5': 120, 'longest:PdiffIndex:middle:n6': 75,
                     'longest:Release-apt-ftparchive:first:n2': 1400, 'longest:Release-apt-ftparchive:first:n3': 520,
                     'longest:Release-apt-ftparchive:first:n4': 340, 'longest:Release-apt-ftparchive:last:n2': 1500,
                     'longest:Release-apt-ftparchive:last:n3': 590, 'longest:Release-apt-ftparchive:last:n4': 360,
                     'longest:Release-apt-ftparchive:last:n5': 46, 'longest:Release-apt-ftparchive:middle:n3': 520,
                     'longest:Release-apt-ftparchive:middle:n4': 710, 'longest:Release-apt-ftparchive:middle:n5': 39,
                     'longest:Release-apt-ftparchive:middle:n6': 21, 'longest:Release-dak:first:n2': 1500,
                     'longest:Release-dak:first:n3': 540, 'longest:Release-dak:first:n4': 350,
                     'longest:Release-dak:last:n2': 1500, 'longest:Release-dak:last:n3': 580,
                     'longest:Release-dak:last:n4': 380, 'longest:Release-dak:last:n5': 50,
                     'longest:Release-dak:middle:n3': 550, 'longest:Release-dak:middle:n4': 700,
                     'longest:Release-dak:middle:n5': 45, 'longest:Release-dak:middle:n6': 20, 'lpos:case': 950,
                     'lpos:mode:build:first': 170, 'lpos:mode:build:last': 170, 'lpos:mode:build:middle': 130,
                     'lpos:mode:text:first': 170, 'lpos:mode:text:last': 170, 'lpos:mode:text:middle': 130}},
    'thorough': {
        'nontrivial': 450000,
        'monitors': {'M': 600000, 'M.parse': 320000, 'M.dump': 780000, 'M.reparse': 780000, 'M.align': 5500000,
                     'M.hist': 270000, 'M.mixed': 280000, 'M.mixed.dump': 210000, 'M.inv': 660000, 'M.inv.dump':
                     240000, 'M.inv.align': 260000, 'M.align.longest': 1700000},
        'counters': {'class:Dsc': 80000, 'class:Changes': 81000, 'class:BuildInfo': 80000, 'class:PdiffIndex': 160000,
                     'class:Release': 190000, 'behavior:dak': 95000, 'behavior:apt-ftparchive': 96000, 'mode:text':
                     320000, 'mode:build': 270000, 'form:single': 150000, 'form:multi': 750000, 'has-absent-field':
                     640000, 'kind:single-dump': 500000, 'kind:history': 99000, 'hist:redump': 170000,
                     'hist:redump-unchanged': 10000, 'hist:dump-after:behavior': 33000, 'hist:dump-after:reassign':
                     42000, 'hist:dump-after:add-absent': 28000, 'hist:dump-after:delete': 29000,
                     'hist:dump-after:append': 42000, 'hist:dump-after:insert': 14000, 'hist:dump-after:pop': 41000,
                     'hist:dump-after:set-size': 42000, 'hist:dump-after:set-token': 14000,
                     'hist:dump-after-switch-to:apt-ftparchive': 16000, 'hist:dump-after-switch-to:dak': 16000,
                     'hist:dump-after-in-place-edit:built': 58000, 'hist:dump-after-in-place-edit:parsed': 69000,
                     'hist:redump-width-changed:PdiffIndex': 33000, 'hist:redump-width-changed:Release': 33000,
                     'hist:redump-width-grew': 41000, 'hist:redump-width-shrank': 38000,
                     'pdiff:current-list-mixed-sizes:built': 60000, 'pdiff:current-list-mixed-sizes:parsed': 81000,
                     'pdiff:parsed-single-line-3col': 73000, 'form:mixed': 280000, 'mixed:case': 170000,
                     'mixed:records:2': 130000, 'mixed:records:3': 69000, 'mixed:records:4': 69000, 'mixed:columns:2':
                     22000, 'mixed:columns:3': 250000, 'mixed:columns:5': 6700, 'mixed:kind:history': 28000,
                     'mixed:kind:single-dump': 140000, 'mixed:is-last-field-of-paragraph': 46000,
                     'mixed:followed-by-another-field': 120000, 'mixed:paragraph-layouts:mixed': 28000,
                     'mixed:paragraph-layouts:mixed+multi': 52000, 'mixed:paragraph-layouts:mixed+single': 10000,
                     'mixed:paragraph-layouts:mixed+multi+single': 25000, 'mixed:paragraph-with-other-layouts':
                     140000, 'mixed:paragraph-with-2+-mixed-fields': 67000, 'mixed-enum:case': 7600, 'mixed-par:case':
                     29000, 'mixed-enum:records:2': 2500, 'mixed-enum:records:3': 2500, 'mixed-enum:records:4': 2500,
                     'hist:dump-with-mixed-layout-field': 72000,
                     'hist:dump-after-in-place-edit-on-mixed-layout-field': 15000, 'mixed:config:BuildInfo': 19000,
                     'mixed:config:Changes': 19000, 'mixed:config:Dsc': 19000, 'mixed:config:PdiffIndex': 68000,
                     'mixed:config:Release-apt-ftparchive': 22000, 'mixed:config:Release-dak': 22000,
                     'mixed:input:bfile': 23000, 'mixed:input:bytes': 23000, 'mixed:input:file': 23000,
                     'mixed:input:lines': 23000, 'mixed:input:lines_nonl': 23000, 'mixed:input:signed': 7400,
                     'mixed:input:str': 47000, 'align:longest:PdiffIndex:first': 430000,
                     'align:longest:PdiffIndex:last': 440000, 'align:longest:PdiffIndex:middle': 240000,
                     'align:longest:Release-apt-ftparchive:first': 82000, 'align:longest:Release-apt-ftparchive:last':
                     87000, 'align:longest:Release-apt-ftparchive:middle': 48000, 'align:longest:Release-dak:first':
                     82000, 'align:longest:Release-dak:last': 87000, 'align:longest:Release-dak:middle': 48000,
                     'align:longest:first:n2': 370000, 'align:longest:first:n3': 120000, 'align:longest:first:n4':
                     88000, 'align:longest:first:n5': 3300, 'align:longest:first:n6': 1800, 'align:longest:last:n2':
                     370000, 'align:longest:last:n3': 130000, 'align:longest:last:n4': 93000, 'align:longest:last:n5':
                     7500, 'align:longest:last:n6': 2100, 'align:longest:middle:n3': 120000,
                     'align:longest:middle:n4': 170000, 'align:longest:middle:n5': 8300, 'align:longest:middle:n6':
                     4600, 'inv-enum:case': 68000, 'inv-enum:mode:build': 34000, 'inv-enum:mode:text': 34000,
                     'inv-par:case': 24000, 'inv:adjacent:line-after-field-name-starts-with-invisible': 9100,
                     'inv:adjacent:line-after-leading-space-starts-with-invisible': 50000,
                     'inv:adjacent:line-ends-with-invisible': 59000, 'inv:adjacent:paragraph-ends-with-invisible':
                     4800, 'inv:build-with-int-sizes': 21000, 'inv:case': 180000, 'inv:char-input:U+00AD:bfile': 3100,
                     'inv:char-input:U+00AD:bytes': 3100, 'inv:char-input:U+00AD:file': 3100,
                     'inv:char-input:U+00AD:lines': 3100, 'inv:char-input:U+00AD:lines_nonl': 3100,
                     'inv:char-input:U+00AD:signed': 890, 'inv:char-input:U+00AD:str': 6300,
                     'inv:char-input:U+0300:bfile': 590, 'inv:char-input:U+0300:bytes': 600,
                     'inv:char-input:U+0300:file': 630, 'inv:char-input:U+0300:lines': 570,
                     'inv:char-input:U+0300:lines_nonl': 590, 'inv:char-input:U+0300:signed': 160,
                     'inv:char-input:U+0300:str': 1200, 'inv:char-input:U+0301:bfile': 3100,
                     'inv:char-input:U+0301:bytes': 3100, 'inv:char-input:U+0301:file': 3100,
                     'inv:char-input:U+0301:lines': 3100, 'inv:char-input:U+0301:lines_nonl': 3100,
                     'inv:char-input:U+0301:signed': 890, 'inv:char-input:U+0301:str': 6300,
                     'inv:char-input:U+0308:bfile': 590, 'inv:char-input:U+0308:bytes': 610,
                     'inv:char-input:U+0308:file': 620, 'inv:char-input:U+0308:lines': 590,
                     'inv:char-input:U+0308:lines_nonl': 570, 'inv:char-input:U+0308:signed': 160,
                     'inv:char-input:U+0308:str': 1200, 'inv:char-input:U+034F:bfile': 590,
                     'inv:char-input:U+034F:bytes': 600, 'inv:char-input:U+034F:file': 600,
                     'inv:char-input:U+034F:lines': 600, 'inv:char-input:U+034F:lines_nonl': 600,
                     'inv:char-input:U+034F:signed': 150, 'inv:char-input:U+034F:str': 1100,
                     'inv:char-input:U+061C:bfile': 590, 'inv:char-input:U+061C:bytes': 580,
                     'inv:char-input:U+061C:file': 610, 'inv:char-input:U+061C:lines': 590,
                     'inv:char-input:U+061C:lines_nonl': 570, 'inv:char-input:U+061C:signed': 160,
                     'inv:char-input:U+061C:str': 1100, 'inv:char-input:U+180E:bfile': 590,
                     'inv:char-input:U+180E:bytes': 590, 'inv:char-input:U+180E:file': 600,
                     'inv:char-input:U+180E:lines': 570, 'inv:char-input:U+180E:lines_nonl': 610,
                     'inv:char-input:U+180E:signed': 150, 'inv:char-input:U+180E:str': 1100,
                     'inv:char-input:U+200B:bfile': 3100, 'inv:char-input:U+200B:bytes': 3100,
                     'inv:char-input:U+200B:file': 3100, 'inv:char-input:U+200B:lines': 3100,
                     'inv:char-input:U+200B:lines_nonl': 3100, 'inv:char-input:U+200B:signed': 890,
                     'inv:char-input:U+200B:str': 6400, 'inv:char-input:U+200C:bfile': 3100,
                     'inv:char-input:U+200C:bytes': 3200, 'inv:char-input:U+200C:file': 3100,
                     'inv:char-input:U+200C:lines': 3100, 'inv:char-input:U+200C:lines_nonl': 3000,
                     'inv:char-input:U+200C:signed': 910, 'inv:char-input:U+200C:str': 6300,
                     'inv:char-input:U+200D:bfile': 3100, 'inv:char-input:U+200D:bytes': 3100,
                     'inv:char-input:U+200D:file': 3100, 'inv:char-input:U+200D:lines': 3000,
                     'inv:char-input:U+200D:lines_nonl': 3100, 'inv:char-input:U+200D:signed': 900,
                     'inv:char-input:U+200D:str': 6300, 'inv:char-input:U+200E:bfile': 590,
                     'inv:char-input:U+200E:bytes': 590, 'inv:char-input:U+200E:file': 580,
                     'inv:char-input:U+200E:lines': 570, 'inv:char-input:U+200E:lines_nonl': 590,
                     'inv:char-input:U+200E:signed': 160, 'inv:char-input:U+200E:str': 1100,
                     'inv:char-input:U+200F:bfile': 610, 'inv:char-input:U+200F:bytes': 610,
                     'inv:char-input:U+200F:file': 600, 'inv:char-input:U+200F:lines': 590,
                     'inv:char-input:U+200F:lines_nonl': 570, 'inv:char-input:U+200F:signed': 160,
                     'inv:char-input:U+200F:str': 1100, 'inv:char-input:U+202A:bfile': 600,
                     'inv:char-input:U+202A:bytes': 600, 'inv:char-input:U+202A:file': 600,
                     'inv:char-input:U+202A:lines': 620, 'inv:char-input:U+202A:lines_nonl': 580,
                     'inv:char-input:U+202A:signed': 160, 'inv:char-input:U+202A:str': 1200,
                     'inv:char-input:U+202E:bfile': 620, 'inv:char-input:U+202E:bytes': 600,
                     'inv:char-input:U+202E:file': 590, 'inv:char-input:U+202E:lines': 590,
                     'inv:char-input:U+202E:lines_nonl': 590, 'inv:char-input:U+202E:signed': 160,
                     'inv:char-input:U+202E:str': 1100, 'inv:char-input:U+2060:bfile': 3100,
                     'inv:char-input:U+2060:bytes': 3100, 'inv:char-input:U+2060:file': 3200,
                     'inv:char-input:U+2060:lines': 3100, 'inv:char-input:U+2060:lines_nonl': 3100,
                     'inv:char-input:U+2060:signed': 880, 'inv:char-input:U+2060:str': 6300,
                     'inv:char-input:U+2061:bfile': 590, 'inv:char-input:U+2061:bytes': 580,
                     'inv:char-input:U+2061:file': 600, 'inv:char-input:U+2061:lines': 600,
                     'inv:char-input:U+2061:lines_nonl': 610, 'inv:char-input:U+2061:signed': 150,
                     'inv:char-input:U+2061:str': 1100, 'inv:char-input:U+2063:bfile': 580,
                     'inv:char-input:U+2063:bytes': 620, 'inv:char-input:U+2063:file': 610,
                     'inv:char-input:U+2063:lines': 600, 'inv:char-input:U+2063:lines_nonl': 570,
                     'inv:char-input:U+2063:signed': 160, 'inv:char-input:U+2063:str': 1200,
                     'inv:char-input:U+2064:bfile': 590, 'inv:char-input:U+2064:bytes': 590,
                     'inv:char-input:U+2064:file': 590, 'inv:char-input:U+2064:lines': 600,
                     'inv:char-input:U+2064:lines_nonl': 570, 'inv:char-input:U+2064:signed': 160,
                     'inv:char-input:U+2064:str': 1100, 'inv:char-input:U+2066:bfile': 580,
                     'inv:char-input:U+2066:bytes': 610, 'inv:char-input:U+2066:file': 590,
                     'inv:char-input:U+2066:lines': 600, 'inv:char-input:U+2066:lines_nonl': 610,
                     'inv:char-input:U+2066:signed': 150, 'inv:char-input:U+2066:str': 1100,
                     'inv:char-input:U+2069:bfile': 600, 'inv:char-input:U+2069:bytes': 570,
                     'inv:char-input:U+2069:file': 580, 'inv:char-input:U+2069:lines': 580,
                     'inv:char-input:U+2069:lines_nonl': 570, 'inv:char-input:U+2069:signed': 160,
                     'inv:char-input:U+2069:str': 1100, 'inv:char-input:U+20DD:bfile': 590,
                     'inv:char-input:U+20DD:bytes': 590, 'inv:char-input:U+20DD:file': 570,
                     'inv:char-input:U+20DD:lines': 590, 'inv:char-input:U+20DD:lines_nonl': 580,
                     'inv:char-input:U+20DD:signed': 160, 'inv:char-input:U+20DD:str': 1200,
                     'inv:char-input:U+E0001:bfile': 600, 'inv:char-input:U+E0001:bytes': 590,
                     'inv:char-input:U+E0001:file': 590, 'inv:char-input:U+E0001:lines': 610,
                     'inv:char-input:U+E0001:lines_nonl': 590, 'inv:char-input:U+E0001:signed': 160,
                     'inv:char-input:U+E0001:str': 1200, 'inv:char-input:U+E0100:bfile': 590,
                     'inv:char-input:U+E0100:bytes': 600, 'inv:char-input:U+E0100:file': 610,
                     'inv:char-input:U+E0100:lines': 580, 'inv:char-input:U+E0100:lines_nonl': 610,
                     'inv:char-input:U+E0100:signed': 150, 'inv:char-input:U+E0100:str': 1200,
                     'inv:char-input:U+FE0F:bfile': 600, 'inv:char-input:U+FE0F:bytes': 580,
                     'inv:char-input:U+FE0F:file': 580, 'inv:char-input:U+FE0F:lines': 590,
                     'inv:char-input:U+FE0F:lines_nonl': 580, 'inv:char-input:U+FE0F:signed': 160,
                     'inv:char-input:U+FE0F:str': 1100, 'inv:char-input:U+FEFF:bfile': 3200,
                     'inv:char-input:U+FEFF:bytes': 3200, 'inv:char-input:U+FEFF:file': 3100,
                     'inv:char-input:U+FEFF:lines': 3100, 'inv:char-input:U+FEFF:lines_nonl': 3100,
                     'inv:char-input:U+FEFF:signed': 900, 'inv:char-input:U+FEFF:str': 6200,
                     'inv:char-input:U+FFF9:bfile': 590, 'inv:char-input:U+FFF9:bytes': 570,
                     'inv:char-input:U+FFF9:file': 570, 'inv:char-input:U+FFF9:lines': 590,
                     'inv:char-input:U+FFF9:lines_nonl': 600, 'inv:char-input:U+FFF9:signed': 160,
                     'inv:char-input:U+FFF9:str': 1200, 'inv:char-input:U+FFFE:bfile': 590,
                     'inv:char-input:U+FFFE:bytes': 590, 'inv:char-input:U+FFFE:file': 620,
                     'inv:char-input:U+FFFE:lines': 580, 'inv:char-input:U+FFFE:lines_nonl': 580,
                     'inv:char-input:U+FFFE:signed': 150, 'inv:char-input:U+FFFE:str': 1100,
                     'inv:char-input:U+FFFF:bfile': 580, 'inv:char-input:U+FFFF:bytes': 600,
                     'inv:char-input:U+FFFF:file': 600, 'inv:char-input:U+FFFF:lines': 600,
                     'inv:char-input:U+FFFF:lines_nonl': 600, 'inv:char-input:U+FFFF:signed': 160,
                     'inv:char-input:U+FFFF:str': 1100, 'inv:char-mode:U+00AD:build': 20000,
                     'inv:char-mode:U+00AD:text': 23000, 'inv:char-mode:U+0300:build': 3900,
                     'inv:char-mode:U+0300:text': 4300, 'inv:char-mode:U+0301:build': 20000,
                     'inv:char-mode:U+0301:text': 22000, 'inv:char-mode:U+0308:build': 4000,
                     'inv:char-mode:U+0308:text': 4300, 'inv:char-mode:U+034F:build': 3900,
                     'inv:char-mode:U+034F:text': 4300, 'inv:char-mode:U+061C:build': 3900,
                     'inv:char-mode:U+061C:text': 4300, 'inv:char-mode:U+180E:build': 3900,
                     'inv:char-mode:U+180E:text': 4300, 'inv:char-mode:U+200B:build': 20000,
                     'inv:char-mode:U+200B:text': 23000, 'inv:char-mode:U+200C:build': 20000,
                     'inv:char-mode:U+200C:text': 23000, 'inv:char-mode:U+200D:build': 20000,
                     'inv:char-mode:U+200D:text': 22000, 'inv:char-mode:U+200E:build': 3900,
                     'inv:char-mode:U+200E:text': 4200, 'inv:char-mode:U+200F:build': 3900,
                     'inv:char-mode:U+200F:text': 4300, 'inv:char-mode:U+202A:build': 3900,
                     'inv:char-mode:U+202A:text': 4300, 'inv:char-mode:U+202E:build': 3900,
                     'inv:char-mode:U+202E:text': 4300, 'inv:char-mode:U+2060:build': 20000,
                     'inv:char-mode:U+2060:text': 23000, 'inv:char-mode:U+2061:build': 3900,
                     'inv:char-mode:U+2061:text': 4300, 'inv:char-mode:U+2063:build': 3900,
                     'inv:char-mode:U+2063:text': 4300, 'inv:char-mode:U+2064:build': 4000,
                     'inv:char-mode:U+2064:text': 4300, 'inv:char-mode:U+2066:build': 3900,
                     'inv:char-mode:U+2066:text': 4300, 'inv:char-mode:U+2069:build': 3900,
                     'inv:char-mode:U+2069:text': 4200, 'inv:char-mode:U+20DD:build': 3900,
                     'inv:char-mode:U+20DD:text': 4300, 'inv:char-mode:U+E0001:build': 3900,
                     'inv:char-mode:U+E0001:text': 4300, 'inv:char-mode:U+E0100:build': 4000,
                     'inv:char-mode:U+E0100:text': 4300, 'inv:char-mode:U+FE0F:build': 3900,
                     'inv:char-mode:U+FE0F:text': 4300, 'inv:char-mode:U+FEFF:build': 20000,
                     'inv:char-mode:U+FEFF:text': 23000, 'inv:char-mode:U+FFF9:build': 3900,
                     'inv:char-mode:U+FFF9:text': 4300, 'inv:char-mode:U+FFFE:build': 3900,
                     'inv:char-mode:U+FFFE:text': 4300, 'inv:char-mode:U+FFFF:build': 3900,
                     'inv:char-mode:U+FFFF:text': 4300, 'inv:char-pos:U+00AD:both': 5900, 'inv:char-pos:U+00AD:end':
                     17000, 'inv:char-pos:U+00AD:mid': 17000, 'inv:char-pos:U+00AD:start': 14000,
                     'inv:char-pos:U+00AD:whole': 4700, 'inv:char-pos:U+0300:both': 690, 'inv:char-pos:U+0300:end':
                     2700, 'inv:char-pos:U+0300:mid': 2700, 'inv:char-pos:U+0300:start': 2300,
                     'inv:char-pos:U+0300:whole': 580, 'inv:char-pos:U+0301:both': 6000, 'inv:char-pos:U+0301:end':
                     17000, 'inv:char-pos:U+0301:mid': 17000, 'inv:char-pos:U+0301:start': 14000,
                     'inv:char-pos:U+0301:whole': 4700, 'inv:char-pos:U+0308:both': 700, 'inv:char-pos:U+0308:end':
                     2600, 'inv:char-pos:U+0308:mid': 2700, 'inv:char-pos:U+0308:start': 2300,
                     'inv:char-pos:U+0308:whole': 620, 'inv:char-pos:U+034F:both': 660, 'inv:char-pos:U+034F:end':
                     2600, 'inv:char-pos:U+034F:mid': 2600, 'inv:char-pos:U+034F:start': 2200,
                     'inv:char-pos:U+034F:whole': 620, 'inv:char-pos:U+061C:both': 690, 'inv:char-pos:U+061C:end':
                     2600, 'inv:char-pos:U+061C:mid': 2600, 'inv:char-pos:U+061C:start': 2300,
                     'inv:char-pos:U+061C:whole': 610, 'inv:char-pos:U+180E:both': 660, 'inv:char-pos:U+180E:end':
                     2600, 'inv:char-pos:U+180E:mid': 2600, 'inv:char-pos:U+180E:start': 2300,
                     'inv:char-pos:U+180E:whole': 610, 'inv:char-pos:U+200B:both': 5900, 'inv:char-pos:U+200B:end':
                     17000, 'inv:char-pos:U+200B:mid': 17000, 'inv:char-pos:U+200B:start': 14000,
                     'inv:char-pos:U+200B:whole': 4700, 'inv:char-pos:U+200C:both': 5900, 'inv:char-pos:U+200C:end':
                     17000, 'inv:char-pos:U+200C:mid': 17000, 'inv:char-pos:U+200C:start': 14000,
                     'inv:char-pos:U+200C:whole': 4700, 'inv:char-pos:U+200D:both': 5900, 'inv:char-pos:U+200D:end':
                     17000, 'inv:char-pos:U+200D:mid': 17000, 'inv:char-pos:U+200D:start': 14000,
                     'inv:char-pos:U+200D:whole': 4700, 'inv:char-pos:U+200E:both': 680, 'inv:char-pos:U+200E:end':
                     2600, 'inv:char-pos:U+200E:mid': 2600, 'inv:char-pos:U+200E:start': 2200,
                     'inv:char-pos:U+200E:whole': 620, 'inv:char-pos:U+200F:both': 670, 'inv:char-pos:U+200F:end':
                     2600, 'inv:char-pos:U+200F:mid': 2600, 'inv:char-pos:U+200F:start': 2200,
                     'inv:char-pos:U+200F:whole': 590, 'inv:char-pos:U+202A:both': 670, 'inv:char-pos:U+202A:end':
                     2600, 'inv:char-pos:U+202A:mid': 2600, 'inv:char-pos:U+202A:start': 2300,
                     'inv:char-pos:U+202A:whole': 630, 'inv:char-pos:U+202E:both': 690, 'inv:char-pos:U+202E:end':
                     2600, 'inv:char-pos:U+202E:mid': 2600, 'inv:char-pos:U+202E:start': 2300,
                     'inv:char-pos:U+202E:whole': 600, 'inv:char-pos:U+2060:both': 6000, 'inv:char-pos:U+2060:end':
                     17000, 'inv:char-pos:U+2060:mid': 17000, 'inv:char-pos:U+2060:start': 14000,
                     'inv:char-pos:U+2060:whole': 4700, 'inv:char-pos:U+2061:both': 700, 'inv:char-pos:U+2061:end':
                     2600, 'inv:char-pos:U+2061:mid': 2600, 'inv:char-pos:U+2061:start': 2300,
                     'inv:char-pos:U+2061:whole': 630, 'inv:char-pos:U+2063:both': 670, 'inv:char-pos:U+2063:end':
                     2700, 'inv:char-pos:U+2063:mid': 2600, 'inv:char-pos:U+2063:start': 2300,
                     'inv:char-pos:U+2063:whole': 590, 'inv:char-pos:U+2064:both': 700, 'inv:char-pos:U+2064:end':
                     2600, 'inv:char-pos:U+2064:mid': 2600, 'inv:char-pos:U+2064:start': 2300,
                     'inv:char-pos:U+2064:whole': 620, 'inv:char-pos:U+2066:both': 710, 'inv:char-pos:U+2066:end':
                     2600, 'inv:char-pos:U+2066:mid': 2600, 'inv:char-pos:U+2066:start': 2300,
                     'inv:char-pos:U+2066:whole': 600, 'inv:char-pos:U+2069:both': 700, 'inv:char-pos:U+2069:end':
                     2600, 'inv:char-pos:U+2069:mid': 2600, 'inv:char-pos:U+2069:start': 2300,
                     'inv:char-pos:U+2069:whole': 590, 'inv:char-pos:U+20DD:both': 670, 'inv:char-pos:U+20DD:end':
                     2600, 'inv:char-pos:U+20DD:mid': 2600, 'inv:char-pos:U+20DD:start': 2300,
                     'inv:char-pos:U+20DD:whole': 620, 'inv:char-pos:U+E0001:both': 640, 'inv:char-pos:U+E0001:end':
                     2600, 'inv:char-pos:U+E0001:mid': 2600, 'inv:char-pos:U+E0001:start': 2300,
                     'inv:char-pos:U+E0001:whole': 640, 'inv:char-pos:U+E0100:both': 710, 'inv:char-pos:U+E0100:end':
                     2600, 'inv:char-pos:U+E0100:mid': 2700, 'inv:char-pos:U+E0100:start': 2300,
                     'inv:char-pos:U+E0100:whole': 600, 'inv:char-pos:U+FE0F:both': 670, 'inv:char-pos:U+FE0F:end':
                     2600, 'inv:char-pos:U+FE0F:mid': 2600, 'inv:char-pos:U+FE0F:start': 2300,
                     'inv:char-pos:U+FE0F:whole': 610, 'inv:char-pos:U+FEFF:both': 5800, 'inv:char-pos:U+FEFF:end':
                     17000, 'inv:char-pos:U+FEFF:mid': 17000, 'inv:char-pos:U+FEFF:start': 14000,
                     'inv:char-pos:U+FEFF:whole': 4700, 'inv:char-pos:U+FFF9:both': 670, 'inv:char-pos:U+FFF9:end':
                     2600, 'inv:char-pos:U+FFF9:mid': 2700, 'inv:char-pos:U+FFF9:start': 2300,
                     'inv:char-pos:U+FFF9:whole': 590, 'inv:char-pos:U+FFFE:both': 670, 'inv:char-pos:U+FFFE:end':
                     2600, 'inv:char-pos:U+FFFE:mid': 2700, 'inv:char-pos:U+FFFE:start': 2300,
                     'inv:char-pos:U+FFFE:whole': 580, 'inv:char-pos:U+FFFF:both': 670, 'inv:char-pos:U+FFFF:end':
                     2600, 'inv:char-pos:U+FFFF:mid': 2700, 'inv:char-pos:U+FFFF:start': 2300,
                     'inv:char-pos:U+FFFF:whole': 590, 'inv:char:U+00AD': 43000, 'inv:char:U+0300': 8300,
                     'inv:char:U+0301': 43000, 'inv:char:U+0308': 8400, 'inv:char:U+034F': 8300, 'inv:char:U+061C':
                     8200, 'inv:char:U+180E': 8200, 'inv:char:U+200B': 43000, 'inv:char:U+200C': 43000,
                     'inv:char:U+200D': 43000, 'inv:char:U+200E': 8200, 'inv:char:U+200F': 8200, 'inv:char:U+202A':
                     8300, 'inv:char:U+202E': 8300, 'inv:char:U+2060': 43000, 'inv:char:U+2061': 8200,
                     'inv:char:U+2063': 8300, 'inv:char:U+2064': 8300, 'inv:char:U+2066': 8300, 'inv:char:U+2069':
                     8200, 'inv:char:U+20DD': 8200, 'inv:char:U+E0001': 8300, 'inv:char:U+E0100': 8300,
                     'inv:char:U+FE0F': 8200, 'inv:char:U+FEFF': 43000, 'inv:char:U+FFF9': 8200, 'inv:char:U+FFFE':
                     8300, 'inv:char:U+FFFF': 8300, 'inv:column:date': 24000, 'inv:column:filename': 15000,
                     'inv:column:first-column': 92000, 'inv:column:name': 56000, 'inv:column:priority': 3700,
                     'inv:column:section': 3700, 'inv:column:size': 91000, 'inv:config-input:BuildInfo:bfile': 1200,
                     'inv:config-input:BuildInfo:bytes': 1300, 'inv:config-input:BuildInfo:file': 1300,
                     'inv:config-input:BuildInfo:lines': 1300, 'inv:config-input:BuildInfo:lines_nonl': 1300,
                     'inv:config-input:BuildInfo:signed': 1300, 'inv:config-input:BuildInfo:str': 2500,
                     'inv:config-input:Changes:bfile': 1400, 'inv:config-input:Changes:bytes': 1400,
                     'inv:config-input:Changes:file': 1400, 'inv:config-input:Changes:lines': 1400,
                     'inv:config-input:Changes:lines_nonl': 1400, 'inv:config-input:Changes:signed': 1400,
                     'inv:config-input:Changes:str': 2900, 'inv:config-input:Dsc:bfile': 1300,
                     'inv:config-input:Dsc:bytes': 1200, 'inv:config-input:Dsc:file': 1300,
                     'inv:config-input:Dsc:lines': 1200, 'inv:config-input:Dsc:lines_nonl': 1300,
                     'inv:config-input:Dsc:signed': 1300, 'inv:config-input:Dsc:str': 2600,
                     'inv:config-input:PdiffIndex:bfile': 5500, 'inv:config-input:PdiffIndex:bytes': 5600,
                     'inv:config-input:PdiffIndex:file': 5500, 'inv:config-input:PdiffIndex:lines': 5500,
                     'inv:config-input:PdiffIndex:lines_nonl': 5500, 'inv:config-input:PdiffIndex:str': 11000,
                     'inv:config-input:Release-apt-ftparchive:bfile': 1800,
                     'inv:config-input:Release-apt-ftparchive:bytes': 1800,
                     'inv:config-input:Release-apt-ftparchive:file': 1700,
                     'inv:config-input:Release-apt-ftparchive:lines': 1800,
                     'inv:config-input:Release-apt-ftparchive:lines_nonl': 1800,
                     'inv:config-input:Release-apt-ftparchive:str': 3700, 'inv:config-input:Release-dak:bfile': 1700,
                     'inv:config-input:Release-dak:bytes': 1800, 'inv:config-input:Release-dak:file': 1800,
                     'inv:config-input:Release-dak:lines': 1700, 'inv:config-input:Release-dak:lines_nonl': 1700,
                     'inv:config-input:Release-dak:str': 3600, 'inv:config:BuildInfo': 20000, 'inv:config:Changes':
                     22000, 'inv:config:Dsc': 20000, 'inv:config:PdiffIndex': 71000,
                     'inv:config:Release-apt-ftparchive': 24000, 'inv:config:Release-dak': 24000,
                     'inv:dump-via:fd_bytes': 58000, 'inv:dump-via:fd_text': 58000, 'inv:dump-via:str': 120000,
                     'inv:dump:BuildInfo:built': 11000, 'inv:dump:BuildInfo:parsed': 12000, 'inv:dump:Changes:built':
                     13000, 'inv:dump:Changes:parsed': 13000, 'inv:dump:Dsc:built': 11000, 'inv:dump:Dsc:parsed':
                     12000, 'inv:dump:PdiffIndex:built': 41000, 'inv:dump:PdiffIndex:parsed': 54000,
                     'inv:dump:Release-apt-ftparchive:built': 18000, 'inv:dump:Release-apt-ftparchive:parsed': 18000,
                     'inv:dump:Release-dak:built': 18000, 'inv:dump:Release-dak:parsed': 18000,
                     'inv:fields-with-invisible:1': 130000, 'inv:fields-with-invisible:2': 21000,
                     'inv:fields-with-invisible:3': 27000, 'inv:hist-op:add-absent': 7100, 'inv:hist-op:append': 7900,
                     'inv:hist-op:insert': 2700, 'inv:hist-op:reassign': 10000, 'inv:hist-op:set-size': 3500,
                     'inv:hist-op:set-token': 1100, 'inv:input:bfile': 13000, 'inv:input:bytes': 13000,
                     'inv:input:file': 13000, 'inv:input:lines': 13000, 'inv:input:lines_nonl': 13000,
                     'inv:input:signed': 4000, 'inv:input:str': 26000, 'inv:kind:history': 34000,
                     'inv:kind:single-dump': 140000, 'inv:layout:mixed': 33000, 'inv:layout:multi': 66000,
                     'inv:layout:single': 17000, 'inv:mode:build': 87000, 'inv:mode:text': 97000,
                     'inv:pos-input:both:bfile': 4000, 'inv:pos-input:both:bytes': 4000, 'inv:pos-input:both:file':
                     3900, 'inv:pos-input:both:lines': 3900, 'inv:pos-input:both:lines_nonl': 3900,
                     'inv:pos-input:both:signed': 1100, 'inv:pos-input:both:str': 7900, 'inv:pos-input:end:bfile':
                     7100, 'inv:pos-input:end:bytes': 7100, 'inv:pos-input:end:file': 7000, 'inv:pos-input:end:lines':
                     7000, 'inv:pos-input:end:lines_nonl': 7000, 'inv:pos-input:end:signed': 2000,
                     'inv:pos-input:end:str': 14000, 'inv:pos-input:mid:bfile': 6100, 'inv:pos-input:mid:bytes': 6200,
                     'inv:pos-input:mid:file': 6100, 'inv:pos-input:mid:lines': 6100, 'inv:pos-input:mid:lines_nonl':
                     6100, 'inv:pos-input:mid:signed': 1800, 'inv:pos-input:mid:str': 12000,
                     'inv:pos-input:start:bfile': 6700, 'inv:pos-input:start:bytes': 6600, 'inv:pos-input:start:file':
                     6600, 'inv:pos-input:start:lines': 6600, 'inv:pos-input:start:lines_nonl': 6600,
                     'inv:pos-input:start:signed': 2000, 'inv:pos-input:start:str': 13000,
                     'inv:pos-input:whole:bfile': 3300, 'inv:pos-input:whole:bytes': 3300, 'inv:pos-input:whole:file':
                     3300, 'inv:pos-input:whole:lines': 3200, 'inv:pos-input:whole:lines_nonl': 3200,
                     'inv:pos-input:whole:signed': 970, 'inv:pos-input:whole:str': 6600, 'inv:pos:both': 55000,
                     'inv:pos:end': 98000, 'inv:pos:mid': 84000, 'inv:pos:start': 93000, 'inv:pos:whole': 45000,
                     'inv:record:first': 84000, 'inv:record:last': 84000, 'inv:record:middle': 68000,
                     'inv:record:only': 45000, 'inv:rectype:deb822dict': 28000, 'inv:rectype:dict': 58000,
                     'inv:size-token-in-aligned-class': 160000, 'inv:token': 660000, 'longest:BuildInfo:first:n2':
                     33000, 'longest:BuildInfo:first:n3': 11000, 'longest:BuildInfo:first:n4': 7900,
                     'longest:BuildInfo:first:n5': 510, 'longest:BuildInfo:first:n6': 310,
                     'longest:BuildInfo:last:n2': 34000, 'longest:BuildInfo:last:n3': 12000,
                     'longest:BuildInfo:last:n4': 8500, 'longest:BuildInfo:last:n5': 880, 'longest:BuildInfo:last:n6':
                     370, 'longest:BuildInfo:middle:n3': 11000, 'longest:BuildInfo:middle:n4': 15000,
                     'longest:BuildInfo:middle:n5': 1100, 'longest:BuildInfo:middle:n6': 800,
                     'longest:Changes:first:n2': 34000, 'longest:Changes:first:n3': 12000, 'longest:Changes:first:n4':
                     8200, 'longest:Changes:first:n5': 480, 'longest:Changes:first:n6': 330,
                     'longest:Changes:last:n2': 34000, 'longest:Changes:last:n3': 12000, 'longest:Changes:last:n4':
                     8700, 'longest:Changes:last:n5': 860, 'longest:Changes:last:n6': 360,
                     'longest:Changes:middle:n3': 11000, 'longest:Changes:middle:n4': 16000,
                     'longest:Changes:middle:n5': 1200, 'longest:Changes:middle:n6': 860, 'longest:Dsc:first:n2':
                     34000, 'longest:Dsc:first:n3': 11000, 'longest:Dsc:first:n4': 8100, 'longest:Dsc:first:n5': 470,
                     'longest:Dsc:first:n6': 330, 'longest:Dsc:last:n2': 34000, 'longest:Dsc:last:n3': 12000,
                     'longest:Dsc:last:n4': 8500, 'longest:Dsc:last:n5': 880, 'longest:Dsc:last:n6': 370,
                     'longest:Dsc:middle:n3': 11000, 'longest:Dsc:middle:n4': 15000, 'longest:Dsc:middle:n5': 1200,
                     'longest:Dsc:middle:n6': 840, 'longest:PdiffIndex:first:n2': 270000,
                     'longest:PdiffIndex:first:n3': 92000, 'longest:PdiffIndex:first:n4': 64000,
                     'longest:PdiffIndex:first:n5': 1900, 'longest:PdiffIndex:first:n6': 1100,
                     'longest:PdiffIndex:last:n2': 270000, 'longest:PdiffIndex:last:n3': 95000,
                     'longest:PdiffIndex:last:n4': 66000, 'longest:PdiffIndex:last:n5': 4200,
                     'longest:PdiffIndex:last:n6': 1200, 'longest:PdiffIndex:middle:n3': 91000,
                     'longest:PdiffIndex:middle:n4': 120000, 'longest:PdiffIndex:middle:n5': 4800,
                     'longest:PdiffIndex:middle:n6': 2800, 'longest:Release-apt-ftparchive:first:n2': 51000,
                     'longest:Release-apt-ftparchive:first:n3': 17000, 'longest:Release-apt-ftparchive:first:n4':
                     11000, 'longest:Release-apt-ftparchive:first:n5': 680, 'longest:Release-apt-ftparchive:first:n6':
                     320, 'longest:Release-apt-ftparchive:last:n2': 51000, 'longest:Release-apt-ftparchive:last:n3':
                     19000, 'longest:Release-apt-ftparchive:last:n4': 13000, 'longest:Release-apt-ftparchive:last:n5':
                     1600, 'longest:Release-apt-ftparchive:last:n6': 430, 'longest:Release-apt-ftparchive:middle:n3':
                     18000, 'longest:Release-apt-ftparchive:middle:n4': 24000,
                     'longest:Release-apt-ftparchive:middle:n5': 1800, 'longest:Release-apt-ftparchive:middle:n6':
                     900, 'longest:Release-dak:first:n2': 51000, 'longest:Release-dak:first:n3': 17000,
                     'longest:Release-dak:first:n4': 12000, 'longest:Release-dak:first:n5': 670,
                     'longest:Release-dak:first:n6': 340, 'longest:Release-dak:last:n2': 51000,
                     'longest:Release-dak:last:n3': 19000, 'longest:Release-dak:last:n4': 13000,
                     'longest:Release-dak:last:n5': 1600, 'longest:Release-dak:last:n6': 430,
                     'longest:Release-dak:middle:n3': 18000, 'longest:Release-dak:middle:n4': 24000,
                     'longest:Release-dak:middle:n5': 1700, 'longest:Release-dak:middle:n6': 860, 'lpos:case': 19000,
                     'lpos:mode:build:first': 3400, 'lpos:mode:build:last': 3400, 'lpos:mode:build:middle': 2700,
                     'lpos:mode:text:first': 3400, 'lpos:mode:text:last': 3400, 'lpos:mode:text:middle': 2700}},
}
# ROUTE-FLOORS (build routes): generated like the literal above (50 % of the minimum over VERIF_SEED 0..3 quick / of seed 0
# thorough, 2 digits kept, measured keys only where the minimum is >= 40 / 60).  No floor on counters whose value
# is the LIBRARY'S choice or answer (route:callerlist:*, route:ctor-*-in-mapping:*); the enumerated routes are floored
# programmatically in _enum_floors().  A run that never drives the build routes is INCONCLUSIVE, not held.
_ROUTE_FLOORS = {'quick': {'counters': {'route-par:case': 1300,
                        'route:case': 2100,
                        'route:config:BuildInfo': 310,
                        'route:config:Changes': 310,
                        'route:config:Dsc': 310,
                        'route:config:PdiffIndex': 550,
                        'route:config:Release-apt-ftparchive': 310,
                        'route:config:Release-dak': 310,
                        'route:dump:final': 2100,
                        'route:dump:intermediate': 1300,
                        'route:grow-after:dump': 1900,
                        'route:grow-after:read:bool': 350,
                        'route:grow-after:read:contains': 500,
                        'route:grow-after:read:dict': 570,
                        'route:grow-after:read:eq': 610,
                        'route:grow-after:read:get': 510,
                        'route:grow-after:read:get-default': 490,
                        'route:grow-after:read:get_as_string': 45,
                        'route:grow-after:read:getitem': 370,
                        'route:grow-after:read:getitem-absent': 120,
                        'route:grow-after:read:items': 580,
                        'route:grow-after:read:iter': 360,
                        'route:grow-after:read:keys': 580,
                        'route:grow-after:read:len': 370,
                        'route:grow-after:read:len-obj': 580,
                        'route:grow-after:read:list-copy': 350,
                        'route:grow-after:read:rec-read': 450,
                        'route:grow-after:read:repr': 620,
                        'route:grow-after:read:str': 270,
                        'route:grow-after:read:values': 620,
                        'route:intermediate-dumps:0': 1100,
                        'route:intermediate-dumps:1': 600,
                        'route:intermediate-dumps:2': 200,
                        'route:list-object-of-another-paragraph-handed-over': 200,
                        'route:new:deb822dict': 380,
                        'route:new:empty': 920,
                        'route:new:kw': 360,
                        'route:new:mapping': 360,
                        'route:other-structured-fields:all-present': 430,
                        'route:other-structured-fields:none': 770,
                        'route:other-structured-fields:some': 870,
                        'route:paragraph-with-2+-different-routes': 1300,
                        'route:records:n1': 920,
                        'route:records:n2': 1900,
                        'route:records:n3': 1800,
                        'route:records:n4': 1100,
                        'route:records:n5': 310,
                        'route:records:n6': 200,
                        'route:records:n7+': 370,
                        'route:rectype:deb822dict': 3600,
                        'route:rectype:deb822dict-pairs': 1500,
                        'route:rectype:deb822dict-rev': 1500,
                        'route:rectype:dict': 5300,
                        'route:rectype:dict-rev': 1500,
                        'route:rectype:int-size': 3500,
                        'route:rectype:ordereddict': 1500,
                        'route:setdefault:default-on-present-field-must-be-ignored': 120,
                        'route:setdefault:default-with-records-into-absent-field': 400,
                        'route:setdefault:empty-default-into-absent-field': 1100,
                        'route:setdefault:first-record-through-the-returned-list': 1100,
                        'route:src:case': 1400,
                        'route:src:dumped-before-its-records-were-taken': 1000,
                        'route:src:form:mixed': 730,
                        'route:src:form:multi': 2400,
                        'route:src:form:single': 230,
                        'route:src:how:copy': 520,
                        'route:src:how:deb822dict': 530,
                        'route:src:how:dict': 510,
                        'route:src:how:items': 520,
                        'route:src:how:same': 1300,
                        'route:src:input:bfile': 270,
                        'route:src:input:bytes': 260,
                        'route:src:input:file': 270,
                        'route:src:input:lines': 270,
                        'route:src:input:lines_nonl': 270,
                        'route:src:input:signed': 100,
                        'route:src:input:str': 550,
                        'route:src:other-class': 250,
                        'route:src:same-class': 1800,
                        'route:src:selection:filter-len': 180,
                        'route:src:selection:idx': 2100,
                        'route:src:selection:reversed': 270,
                        'route:src:selection:slice': 260,
                        'route:src:selection:sorted': 210,
                        'route:src:selection:whole': 370,
                        'route:step:behavior': 460,
                        'route:step:callerlist': 290,
                        'route:step:delete:del': 150,
                        'route:step:delete:pop': 73,
                        'route:step:dump': 1300,
                        'route:step:grow:get.append': 690,
                        'route:step:grow:get.concat': 200,
                        'route:step:grow:get.extend': 270,
                        'route:step:grow:get.extend-gen': 33,
                        'route:step:grow:get.iadd': 68,
                        'route:step:grow:get.insert0': 30,
                        'route:step:grow:get.slice': 27,
                        'route:step:grow:getitem.append': 2700,
                        'route:step:grow:getitem.concat': 170,
                        'route:step:grow:getitem.extend': 340,
                        'route:step:grow:getitem.extend-gen': 150,
                        'route:step:grow:getitem.iadd': 500,
                        'route:step:grow:getitem.insert0': 680,
                        'route:step:grow:getitem.slice': 150,
                        'route:step:grow:held.append': 1100,
                        'route:step:grow:held.extend': 270,
                        'route:step:grow:held.extend-gen': 51,
                        'route:step:grow:held.iadd': 420,
                        'route:step:grow:held.insert0': 170,
                        'route:step:grow:held.slice': 49,
                        'route:step:grow:setdefault.append': 2200,
                        'route:step:grow:setdefault.extend': 120,
                        'route:step:grow:setdefault.extend-gen': 57,
                        'route:step:grow:setdefault.iadd': 62,
                        'route:step:grow:setdefault.insert0': 59,
                        'route:step:grow:setdefault.slice': 59,
                        'route:step:hold:get': 120,
                        'route:step:hold:getitem': 270,
                        'route:step:hold:setdefault': 410,
                        'route:step:plain:setdefault': 670,
                        'route:step:plain:setitem': 1300,
                        'route:step:plain:update': 670,
                        'route:step:put:setdefault': 460,
                        'route:step:put:setdefault:empty-list': 240,
                        'route:step:put:setitem': 950,
                        'route:step:put:setitem:empty-list': 1100,
                        'route:step:put:update-kw': 400,
                        'route:step:put:update-kw:empty-list': 310,
                        'route:step:put:update-mapping': 400,
                        'route:step:put:update-mapping:empty-list': 300,
                        'route:step:put:update-pairs': 350,
                        'route:step:put:update-pairs:empty-list': 240,
                        'route:step:read:bool': 680,
                        'route:step:read:contains': 1200,
                        'route:step:read:dict': 260,
                        'route:step:read:eq': 260,
                        'route:step:read:get': 1200,
                        'route:step:read:get-default': 1200,
                        'route:step:read:get_as_string': 150,
                        'route:step:read:getitem': 720,
                        'route:step:read:getitem-absent': 480,
                        'route:step:read:items': 250,
                        'route:step:read:iter': 720,
                        'route:step:read:keys': 250,
                        'route:step:read:len': 690,
                        'route:step:read:len-obj': 260,
                        'route:step:read:list-copy': 710,
                        'route:step:read:rec-read': 1100,
                        'route:step:read:repr': 250,
                        'route:step:read:str': 160,
                        'route:step:read:values': 270,
                        'route:step:update-from': 210,
                        'route:template:concat': 210,
                        'route:template:ctor-records': 240,
                        'route:template:ctor-text': 220,
                        'route:template:empty+append': 440,
                        'route:template:empty+extend': 230,
                        'route:template:empty+get.append': 210,
                        'route:template:empty+held': 400,
                        'route:template:empty+iadd': 220,
                        'route:template:empty+insert0': 220,
                        'route:template:first+grow': 420,
                        'route:template:foreign-list': 230,
                        'route:template:from-paragraph': 220,
                        'route:template:rebuilt-after-delete': 220,
                        'route:template:reset-to-empty+append': 230,
                        'route:template:setdefault-held': 410,
                        'route:template:setdefault-put': 210,
                        'route:template:setdefault-rec0': 410,
                        'route:template:setdefault.append': 420,
                        'route:template:setdefault.extend': 230,
                        'route:template:setitem': 220,
                        'route:template:update-empty+append': 220,
                        'route:template:update-kw': 220,
                        'route:template:update-mapping': 210,
                        'route:template:update-pairs': 220},
           'monitors': {'M.route': 2100,
                        'M.route.mid': 1300,
                        'M.route.others': 4200,
                        'M.route.setdefault': 810,
                        'M.route.src': 1200,
                        'M.route.src-unchanged': 1800}},
 'thorough': {'counters': {'route-par:case': 70000,
                           'route:case': 110000,
                           'route:config:BuildInfo': 16000,
                           'route:config:Changes': 16000,
                           'route:config:Dsc': 16000,
                           'route:config:PdiffIndex': 28000,
                           'route:config:Release-apt-ftparchive': 16000,
                           'route:config:Release-dak': 16000,
                           'route:dump:final': 110000,
                           'route:dump:intermediate': 83000,
                           'route:grow-after:dump': 130000,
                           'route:grow-after:read:bool': 23000,
                           'route:grow-after:read:contains': 33000,
                           'route:grow-after:read:dict': 46000,
                           'route:grow-after:read:eq': 46000,
                           'route:grow-after:read:get': 33000,
                           'route:grow-after:read:get-default': 33000,
                           'route:grow-after:read:get_as_string': 2700,
                           'route:grow-after:read:getitem': 23000,
                           'route:grow-after:read:getitem-absent': 10000,
                           'route:grow-after:read:items': 46000,
                           'route:grow-after:read:iter': 23000,
                           'route:grow-after:read:keys': 47000,
                           'route:grow-after:read:len': 23000,
                           'route:grow-after:read:len-obj': 47000,
                           'route:grow-after:read:list-copy': 23000,
                           'route:grow-after:read:rec-read': 29000,
                           'route:grow-after:read:repr': 46000,
                           'route:grow-after:read:str': 21000,
                           'route:grow-after:read:values': 46000,
                           'route:intermediate-dumps:0': 58000,
                           'route:intermediate-dumps:1': 32000,
                           'route:intermediate-dumps:2': 12000,
                           'route:list-object-of-another-paragraph-handed-over': 12000,
                           'route:new:deb822dict': 20000,
                           'route:new:empty': 47000,
                           'route:new:kw': 21000,
                           'route:new:mapping': 21000,
                           'route:other-structured-fields:all-present': 33000,
                           'route:other-structured-fields:none': 30000,
                           'route:other-structured-fields:some': 46000,
                           'route:paragraph-with-2+-different-routes': 79000,
                           'route:records:n1': 60000,
                           'route:records:n2': 110000,
                           'route:records:n3': 110000,
                           'route:records:n4': 72000,
                           'route:records:n5': 20000,
                           'route:records:n6': 13000,
                           'route:records:n7+': 24000,
                           'route:rectype:deb822dict': 230000,
                           'route:rectype:deb822dict-pairs': 100000,
                           'route:rectype:deb822dict-rev': 100000,
                           'route:rectype:dict': 340000,
                           'route:rectype:dict-rev': 100000,
                           'route:rectype:int-size': 220000,
                           'route:rectype:ordereddict': 100000,
                           'route:setdefault:default-on-present-field-must-be-ignored': 8800,
                           'route:setdefault:default-with-records-into-absent-field': 26000,
                           'route:setdefault:empty-default-into-absent-field': 75000,
                           'route:setdefault:first-record-through-the-returned-list': 74000,
                           'route:src:case': 81000,
                           'route:src:dumped-before-its-records-were-taken': 59000,
                           'route:src:form:mixed': 46000,
                           'route:src:form:multi': 150000,
                           'route:src:form:single': 16000,
                           'route:src:how:copy': 33000,
                           'route:src:how:deb822dict': 34000,
                           'route:src:how:dict': 34000,
                           'route:src:how:items': 34000,
                           'route:src:how:same': 82000,
                           'route:src:input:bfile': 16000,
                           'route:src:input:bytes': 16000,
                           'route:src:input:file': 16000,
                           'route:src:input:lines': 15000,
                           'route:src:input:lines_nonl': 16000,
                           'route:src:input:signed': 6400,
                           'route:src:input:str': 32000,
                           'route:src:other-class': 14000,
                           'route:src:same-class': 100000,
                           'route:src:selection:filter-len': 12000,
                           'route:src:selection:idx': 130000,
                           'route:src:selection:reversed': 17000,
                           'route:src:selection:slice': 17000,
                           'route:src:selection:sorted': 13000,
                           'route:src:selection:whole': 23000,
                           'route:step:behavior': 24000,
                           'route:step:callerlist': 16000,
                           'route:step:delete:del': 9800,
                           'route:step:delete:pop': 4900,
                           'route:step:dump': 83000,
                           'route:step:grow:get.append': 45000,
                           'route:step:grow:get.concat': 13000,
                           'route:step:grow:get.extend': 18000,
                           'route:step:grow:get.extend-gen': 2000,
                           'route:step:grow:get.iadd': 4700,
                           'route:step:grow:get.insert0': 2000,
                           'route:step:grow:get.slice': 2100,
                           'route:step:grow:getitem.append': 170000,
                           'route:step:grow:getitem.concat': 13000,
                           'route:step:grow:getitem.extend': 21000,
                           'route:step:grow:getitem.extend-gen': 10000,
                           'route:step:grow:getitem.iadd': 33000,
                           'route:step:grow:getitem.insert0': 45000,
                           'route:step:grow:getitem.slice': 10000,
                           'route:step:grow:held.append': 73000,
                           'route:step:grow:held.extend': 19000,
                           'route:step:grow:held.extend-gen': 3500,
                           'route:step:grow:held.iadd': 30000,
                           'route:step:grow:held.insert0': 11000,
                           'route:step:grow:held.slice': 3500,
                           'route:step:grow:setdefault.append': 140000,
                           'route:step:grow:setdefault.extend': 8000,
                           'route:step:grow:setdefault.extend-gen': 3900,
                           'route:step:grow:setdefault.iadd': 3800,
                           'route:step:grow:setdefault.insert0': 3800,
                           'route:step:grow:setdefault.slice': 3900,
                           'route:step:hold:get': 9300,
                           'route:step:hold:getitem': 18000,
                           'route:step:hold:setdefault': 27000,
                           'route:step:plain:setdefault': 36000,
                           'route:step:plain:setitem': 72000,
                           'route:step:plain:update': 36000,
                           'route:step:put:setdefault': 30000,
                           'route:step:put:setdefault:empty-list': 16000,
                           'route:step:put:setitem': 61000,
                           'route:step:put:setitem:empty-list': 75000,
                           'route:step:put:update-kw': 26000,
                           'route:step:put:update-kw:empty-list': 19000,
                           'route:step:put:update-mapping': 26000,
                           'route:step:put:update-mapping:empty-list': 19000,
                           'route:step:put:update-pairs': 23000,
                           'route:step:put:update-pairs:empty-list': 16000,
                           'route:step:read:bool': 45000,
                           'route:step:read:contains': 74000,
                           'route:step:read:dict': 16000,
                           'route:step:read:eq': 16000,
                           'route:step:read:get': 73000,
                           'route:step:read:get-default': 74000,
                           'route:step:read:get_as_string': 9900,
                           'route:step:read:getitem': 45000,
                           'route:step:read:getitem-absent': 28000,
                           'route:step:read:items': 16000,
                           'route:step:read:iter': 45000,
                           'route:step:read:keys': 17000,
                           'route:step:read:len': 45000,
                           'route:step:read:len-obj': 17000,
                           'route:step:read:list-copy': 45000,
                           'route:step:read:rec-read': 73000,
                           'route:step:read:repr': 16000,
                           'route:step:read:str': 9900,
                           'route:step:read:values': 16000,
                           'route:step:update-from': 13000,
                           'route:template:concat': 14000,
                           'route:template:ctor-records': 14000,
                           'route:template:ctor-text': 14000,
                           'route:template:empty+append': 27000,
                           'route:template:empty+extend': 14000,
                           'route:template:empty+get.append': 14000,
                           'route:template:empty+held': 27000,
                           'route:template:empty+iadd': 14000,
                           'route:template:empty+insert0': 14000,
                           'route:template:first+grow': 27000,
                           'route:template:foreign-list': 14000,
                           'route:template:from-paragraph': 14000,
                           'route:template:rebuilt-after-delete': 14000,
                           'route:template:reset-to-empty+append': 14000,
                           'route:template:setdefault-held': 27000,
                           'route:template:setdefault-put': 14000,
                           'route:template:setdefault-rec0': 27000,
                           'route:template:setdefault.append': 27000,
                           'route:template:setdefault.extend': 14000,
                           'route:template:setitem': 14000,
                           'route:template:update-empty+append': 14000,
                           'route:template:update-kw': 14000,
                           'route:template:update-mapping': 14000,
                           'route:template:update-pairs': 14000},
              'monitors': {'M.route': 110000,
                           'M.route.mid': 83000,
                           'M.route.others': 220000,
                           'M.route.setdefault': 48000,
                           'M.route.src': 71000,
                           'M.route.src-unchanged': 100000}}}
for _tier in ('quick', 'thorough'):
    FLOORS[_tier]['counters'].update(_ROUTE_FLOORS[_tier]['counters'])
    FLOORS[_tier]['monitors'].update(_ROUTE_FLOORS[_tier]['monitors'])
# CTOR-FLOORS (constructor spellings / argument types): 50 % of the measured minimum over VERIF_SEED 0..3 (quick) / seed 0
# (thorough), two digits kept; measured counters only where the minimum is >= 40 (quick) / 60 (thorough); no floors on
# library choices (ctor:map:*:accepted / refused, unlisted fields kept / dropped, warnings of use_apt_pkg=True).  The
# enumerated (api, source form, call spelling) / mapping-type counters are floored programmatically in _enum_floors().
_CTOR_FLOORS = {
    'quick': {
        'monitors': {'M.ctor': 790, 'M.ctor.fields': 570, 'M.ctor.kw': 1200, 'M.ctor.kw.mapping': 240, 'M.ctor.kw.one-shot': 610,
                     'M.ctor.kw.re-usable': 410, 'M.ctor.map': 300, 'M.ctor.map.independent': 160,
                     'M.ctor.map.source-unchanged': 300, 'M.ctor.mapping': 300, 'M.ctor.one-shot': 1000,
                     'M.ctor.re-usable': 660, 'M.ctor.respell': 1400, 'M.iter': 1100, 'M.iter.count': 630},
        'counters': {'ctor:api:ctor': 810, 'ctor:api:iter': 630, 'ctor:case': 1400, 'ctor:close:early': 240, 'ctor:close:late': 240,
                     'ctor:ctor:call:fields+kw': 45, 'ctor:ctor:call:kw': 100, 'ctor:ctor:call:kw+all': 100,
                     'ctor:ctor:call:kw+encoding': 100, 'ctor:ctor:call:kw+fields': 100, 'ctor:ctor:call:kw+strict':
                     45, 'ctor:ctor:call:pos': 100, 'ctor:ctor:call:pos+encoding': 45, 'ctor:ctor:call:pos+fields':
                     45, 'ctor:ctor:call:pos+fields-kw': 45, 'ctor:ctor:call:pos-all': 45,
                     'ctor:ctor:config-src-class:BuildInfo:mapping': 52,
                     'ctor:ctor:config-src-class:BuildInfo:one-shot': 49,
                     'ctor:ctor:config-src-class:BuildInfo:re-usable': 33,
                     'ctor:ctor:config-src-class:Changes:mapping': 52, 'ctor:ctor:config-src-class:Changes:one-shot':
                     49, 'ctor:ctor:config-src-class:Changes:re-usable': 33, 'ctor:ctor:config-src-class:Dsc:mapping':
                     52, 'ctor:ctor:config-src-class:Dsc:one-shot': 49, 'ctor:ctor:config-src-class:Dsc:re-usable':
                     33, 'ctor:ctor:config-src-class:PdiffIndex:mapping': 52,
                     'ctor:ctor:config-src-class:PdiffIndex:one-shot': 49,
                     'ctor:ctor:config-src-class:PdiffIndex:re-usable': 33,
                     'ctor:ctor:config-src-class:Release-apt-ftparchive:mapping': 52,
                     'ctor:ctor:config-src-class:Release-apt-ftparchive:one-shot': 49,
                     'ctor:ctor:config-src-class:Release-apt-ftparchive:re-usable': 33,
                     'ctor:ctor:config-src-class:Release-dak:mapping': 52,
                     'ctor:ctor:config-src-class:Release-dak:one-shot': 49,
                     'ctor:ctor:config-src-class:Release-dak:re-usable': 33, 'ctor:ctor:config:BuildInfo': 130,
                     'ctor:ctor:config:Changes': 130, 'ctor:ctor:config:Dsc': 130, 'ctor:ctor:config:PdiffIndex': 130,
                     'ctor:ctor:config:Release-apt-ftparchive': 130, 'ctor:ctor:config:Release-dak': 130,
                     'ctor:ctor:signed': 41, 'ctor:ctor:src-class:mapping:keyword-call': 250,
                     'ctor:ctor:src-class:mapping:positional-call': 63, 'ctor:ctor:src-class:one-shot:keyword-call':
                     160, 'ctor:ctor:src-class:one-shot:positional-call': 130,
                     'ctor:ctor:src-class:re-usable:keyword-call': 100,
                     'ctor:ctor:src-class:re-usable:positional-call': 90, 'ctor:ctor:src:binaryfile': 33,
                     'ctor:ctor:src:bytes': 33, 'ctor:ctor:src:bytesio': 33, 'ctor:ctor:src:gen': 33,
                     'ctor:ctor:src:gen-bytes': 33, 'ctor:ctor:src:gen-nonl': 33, 'ctor:ctor:src:iter-bytes': 33,
                     'ctor:ctor:src:iter-list': 33, 'ctor:ctor:src:list': 33, 'ctor:ctor:src:list-bytes': 33,
                     'ctor:ctor:src:list-nonl': 33, 'ctor:ctor:src:str': 33, 'ctor:ctor:src:stringio': 33,
                     'ctor:ctor:src:textfile': 33, 'ctor:ctor:src:tuple': 33,
                     'ctor:fields:mapping:structured-field-listed': 140,
                     'ctor:fields:one-shot:structured-field-listed': 840,
                     'ctor:fields:re-usable:structured-field-listed': 570, 'ctor:iter:call:fields+kw': 45,
                     'ctor:iter:call:kw': 45, 'ctor:iter:call:kw+all': 45, 'ctor:iter:call:kw+apt-false': 45,
                     'ctor:iter:call:kw+apt-requested': 45, 'ctor:iter:call:kw+encoding': 45,
                     'ctor:iter:call:kw+fields': 45, 'ctor:iter:call:kw+shared': 45, 'ctor:iter:call:kw+strict': 45,
                     'ctor:iter:call:pos': 45, 'ctor:iter:call:pos+encoding': 45, 'ctor:iter:call:pos+fields': 45,
                     'ctor:iter:call:pos+fields-kw': 45, 'ctor:iter:call:pos-all': 45,
                     'ctor:iter:config-src-class:BuildInfo:one-shot': 63,
                     'ctor:iter:config-src-class:BuildInfo:re-usable': 42,
                     'ctor:iter:config-src-class:Changes:one-shot': 63,
                     'ctor:iter:config-src-class:Changes:re-usable': 42, 'ctor:iter:config-src-class:Dsc:one-shot':
                     63, 'ctor:iter:config-src-class:Dsc:re-usable': 42,
                     'ctor:iter:config-src-class:PdiffIndex:one-shot': 63,
                     'ctor:iter:config-src-class:PdiffIndex:re-usable': 42,
                     'ctor:iter:config-src-class:Release-apt-ftparchive:one-shot': 63,
                     'ctor:iter:config-src-class:Release-apt-ftparchive:re-usable': 42,
                     'ctor:iter:config-src-class:Release-dak:one-shot': 63,
                     'ctor:iter:config-src-class:Release-dak:re-usable': 42, 'ctor:iter:config:BuildInfo': 100,
                     'ctor:iter:config:Changes': 100, 'ctor:iter:config:Dsc': 100, 'ctor:iter:config:PdiffIndex': 100,
                     'ctor:iter:config:Release-apt-ftparchive': 100, 'ctor:iter:config:Release-dak': 100,
                     'ctor:iter:consume:for': 190, 'ctor:iter:consume:for:one-shot': 110,
                     'ctor:iter:consume:for:re-usable': 78, 'ctor:iter:consume:list': 190,
                     'ctor:iter:consume:list:one-shot': 110, 'ctor:iter:consume:list:re-usable': 80,
                     'ctor:iter:consume:next': 200, 'ctor:iter:consume:next:one-shot': 120,
                     'ctor:iter:consume:next:re-usable': 82, 'ctor:iter:paragraphs:1': 180, 'ctor:iter:paragraphs:2':
                     270, 'ctor:iter:paragraphs:3': 130, 'ctor:iter:signed': 61,
                     'ctor:iter:signed:one-shot:keyword-call': 23, 'ctor:iter:src-class:one-shot:keyword-call': 240,
                     'ctor:iter:src-class:one-shot:positional-call': 130,
                     'ctor:iter:src-class:re-usable:keyword-call': 160,
                     'ctor:iter:src-class:re-usable:positional-call': 90, 'ctor:iter:src:binaryfile': 42,
                     'ctor:iter:src:bytes': 42, 'ctor:iter:src:bytesio': 42, 'ctor:iter:src:gen': 42,
                     'ctor:iter:src:gen-bytes': 42, 'ctor:iter:src:gen-nonl': 42, 'ctor:iter:src:iter-bytes': 42,
                     'ctor:iter:src:iter-list': 42, 'ctor:iter:src:list': 42, 'ctor:iter:src:list-bytes': 42,
                     'ctor:iter:src:list-nonl': 42, 'ctor:iter:src:str': 42, 'ctor:iter:src:stringio': 42,
                     'ctor:iter:src:textfile': 42, 'ctor:iter:src:tuple': 42, 'ctor:layout:mixed': 1300,
                     'ctor:layout:mixed:mapping': 200, 'ctor:layout:mixed:one-shot': 710,
                     'ctor:layout:mixed:re-usable': 440, 'ctor:layout:multi': 4800, 'ctor:layout:multi:mapping': 740,
                     'ctor:layout:multi:one-shot': 2400, 'ctor:layout:multi:re-usable': 1600, 'ctor:layout:single':
                     640, 'ctor:layout:single:mapping': 87, 'ctor:layout:single:one-shot': 330,
                     'ctor:layout:single:re-usable': 210, 'ctor:lead:blank-line': 140, 'ctor:tail:blank': 330,
                     'ctor:tail:nl': 650, 'ctor:tail:nonl': 320}},
    'thorough': {
        'monitors': {'M.ctor': 37000, 'M.ctor.fields': 24000, 'M.ctor.kw': 55000, 'M.ctor.kw.mapping': 14000, 'M.ctor.kw.one-shot': 24000,
                     'M.ctor.kw.re-usable': 16000, 'M.ctor.map': 18000, 'M.ctor.map.independent': 10000,
                     'M.ctor.map.source-unchanged': 18000, 'M.ctor.mapping': 18000, 'M.ctor.one-shot': 40000,
                     'M.ctor.re-usable': 27000, 'M.ctor.respell': 63000, 'M.iter': 47000, 'M.iter.count': 25000},
        'counters': {'ctor:api:ctor': 38000, 'ctor:api:iter': 25000, 'ctor:case': 63000, 'ctor:close:early': 9900, 'ctor:close:late':
                     9900, 'ctor:ctor:call:fields+kw': 1800, 'ctor:ctor:call:kw': 5500, 'ctor:ctor:call:kw+all': 5500,
                     'ctor:ctor:call:kw+encoding': 5500, 'ctor:ctor:call:kw+fields': 5500, 'ctor:ctor:call:kw+strict':
                     1800, 'ctor:ctor:call:pos': 5500, 'ctor:ctor:call:pos+encoding': 1800,
                     'ctor:ctor:call:pos+fields': 1800, 'ctor:ctor:call:pos+fields-kw': 1800,
                     'ctor:ctor:call:pos-all': 1800, 'ctor:ctor:config-src-class:BuildInfo:mapping': 3100,
                     'ctor:ctor:config-src-class:BuildInfo:one-shot': 1900,
                     'ctor:ctor:config-src-class:BuildInfo:re-usable': 1300,
                     'ctor:ctor:config-src-class:Changes:mapping': 3100,
                     'ctor:ctor:config-src-class:Changes:one-shot': 1900,
                     'ctor:ctor:config-src-class:Changes:re-usable': 1300, 'ctor:ctor:config-src-class:Dsc:mapping':
                     3100, 'ctor:ctor:config-src-class:Dsc:one-shot': 1900,
                     'ctor:ctor:config-src-class:Dsc:re-usable': 1300,
                     'ctor:ctor:config-src-class:PdiffIndex:mapping': 3100,
                     'ctor:ctor:config-src-class:PdiffIndex:one-shot': 1900,
                     'ctor:ctor:config-src-class:PdiffIndex:re-usable': 1300,
                     'ctor:ctor:config-src-class:Release-apt-ftparchive:mapping': 3100,
                     'ctor:ctor:config-src-class:Release-apt-ftparchive:one-shot': 1900,
                     'ctor:ctor:config-src-class:Release-apt-ftparchive:re-usable': 1300,
                     'ctor:ctor:config-src-class:Release-dak:mapping': 3100,
                     'ctor:ctor:config-src-class:Release-dak:one-shot': 1900,
                     'ctor:ctor:config-src-class:Release-dak:re-usable': 1300, 'ctor:ctor:config:BuildInfo': 6400,
                     'ctor:ctor:config:Changes': 6400, 'ctor:ctor:config:Dsc': 6400, 'ctor:ctor:config:PdiffIndex':
                     6400, 'ctor:ctor:config:Release-apt-ftparchive': 6400, 'ctor:ctor:config:Release-dak': 6400,
                     'ctor:ctor:signed': 1900, 'ctor:ctor:signed:one-shot:keyword-call': 620,
                     'ctor:ctor:signed:one-shot:positional-call': 510, 'ctor:ctor:signed:re-usable:keyword-call': 410,
                     'ctor:ctor:signed:re-usable:positional-call': 360, 'ctor:ctor:src-class:mapping:keyword-call':
                     15000, 'ctor:ctor:src-class:mapping:positional-call': 3700,
                     'ctor:ctor:src-class:one-shot:keyword-call': 6400,
                     'ctor:ctor:src-class:one-shot:positional-call': 5400,
                     'ctor:ctor:src-class:re-usable:keyword-call': 4300,
                     'ctor:ctor:src-class:re-usable:positional-call': 3600, 'ctor:ctor:src:binaryfile': 1300,
                     'ctor:ctor:src:bytes': 1300, 'ctor:ctor:src:bytesio': 1300, 'ctor:ctor:src:gen': 1300,
                     'ctor:ctor:src:gen-bytes': 1300, 'ctor:ctor:src:gen-nonl': 1300, 'ctor:ctor:src:iter-bytes':
                     1300, 'ctor:ctor:src:iter-list': 1300, 'ctor:ctor:src:list': 1300, 'ctor:ctor:src:list-bytes':
                     1300, 'ctor:ctor:src:list-nonl': 1300, 'ctor:ctor:src:map:abc-mapping': 900,
                     'ctor:ctor:src:map:chainmap': 900, 'ctor:ctor:src:map:deb822': 900,
                     'ctor:ctor:src:map:deb822-built': 900, 'ctor:ctor:src:map:deb822-copy': 900,
                     'ctor:ctor:src:map:deb822-from-bytes': 900, 'ctor:ctor:src:map:deb822-from-dict': 900,
                     'ctor:ctor:src:map:deb822-from-file': 900, 'ctor:ctor:src:map:deb822-from-iter_paragraphs': 900,
                     'ctor:ctor:src:map:deb822-from-lines': 900, 'ctor:ctor:src:map:deb822dict': 900,
                     'ctor:ctor:src:map:deb822dict-built': 900, 'ctor:ctor:src:map:deb822dict-from-dict': 900,
                     'ctor:ctor:src:map:defaultdict': 900, 'ctor:ctor:src:map:dict': 900,
                     'ctor:ctor:src:map:mappingproxy': 900, 'ctor:ctor:src:map:mappingproxy-of-deb822': 900,
                     'ctor:ctor:src:map:mappingproxy-of-ordereddict': 900, 'ctor:ctor:src:map:ordereddict': 900,
                     'ctor:ctor:src:map:same-class': 900, 'ctor:ctor:src:map:userdict': 900, 'ctor:ctor:src:str':
                     1300, 'ctor:ctor:src:stringio': 1300, 'ctor:ctor:src:textfile': 1300, 'ctor:ctor:src:tuple':
                     1300, 'ctor:fields:mapping:structured-field-listed': 9400,
                     'ctor:fields:one-shot:structured-field-listed': 35000,
                     'ctor:fields:re-usable:structured-field-listed': 24000, 'ctor:iter:call:fields+kw': 1800,
                     'ctor:iter:call:kw': 1800, 'ctor:iter:call:kw+all': 1800, 'ctor:iter:call:kw+apt-false': 1800,
                     'ctor:iter:call:kw+apt-requested': 1800, 'ctor:iter:call:kw+encoding': 1800,
                     'ctor:iter:call:kw+fields': 1800, 'ctor:iter:call:kw+shared': 1800, 'ctor:iter:call:kw+strict':
                     1800, 'ctor:iter:call:pos': 1800, 'ctor:iter:call:pos+encoding': 1800,
                     'ctor:iter:call:pos+fields': 1800, 'ctor:iter:call:pos+fields-kw': 1800,
                     'ctor:iter:call:pos-all': 1800, 'ctor:iter:config-src-class:BuildInfo:one-shot': 2500,
                     'ctor:iter:config-src-class:BuildInfo:re-usable': 1600,
                     'ctor:iter:config-src-class:Changes:one-shot': 2500,
                     'ctor:iter:config-src-class:Changes:re-usable': 1600, 'ctor:iter:config-src-class:Dsc:one-shot':
                     2500, 'ctor:iter:config-src-class:Dsc:re-usable': 1600,
                     'ctor:iter:config-src-class:PdiffIndex:one-shot': 2500,
                     'ctor:iter:config-src-class:PdiffIndex:re-usable': 1600,
                     'ctor:iter:config-src-class:Release-apt-ftparchive:one-shot': 2500,
                     'ctor:iter:config-src-class:Release-apt-ftparchive:re-usable': 1600,
                     'ctor:iter:config-src-class:Release-dak:one-shot': 2500,
                     'ctor:iter:config-src-class:Release-dak:re-usable': 1600, 'ctor:iter:config:BuildInfo': 4200,
                     'ctor:iter:config:Changes': 4200, 'ctor:iter:config:Dsc': 4200, 'ctor:iter:config:PdiffIndex':
                     4200, 'ctor:iter:config:Release-apt-ftparchive': 4200, 'ctor:iter:config:Release-dak': 4200,
                     'ctor:iter:consume:for': 8400, 'ctor:iter:consume:for:one-shot': 5100,
                     'ctor:iter:consume:for:re-usable': 3300, 'ctor:iter:consume:list': 8300,
                     'ctor:iter:consume:list:one-shot': 5000, 'ctor:iter:consume:list:re-usable': 3300,
                     'ctor:iter:consume:next': 8400, 'ctor:iter:consume:next:one-shot': 5000,
                     'ctor:iter:consume:next:re-usable': 3400, 'ctor:iter:paragraphs:1': 8200,
                     'ctor:iter:paragraphs:2': 11000, 'ctor:iter:paragraphs:3': 5500, 'ctor:iter:signed': 2500,
                     'ctor:iter:signed:one-shot:keyword-call': 960, 'ctor:iter:signed:one-shot:positional-call': 540,
                     'ctor:iter:signed:re-usable:keyword-call': 660, 'ctor:iter:signed:re-usable:positional-call':
                     350, 'ctor:iter:src-class:one-shot:keyword-call': 9700,
                     'ctor:iter:src-class:one-shot:positional-call': 5400,
                     'ctor:iter:src-class:re-usable:keyword-call': 6400,
                     'ctor:iter:src-class:re-usable:positional-call': 3600, 'ctor:iter:src:binaryfile': 1600,
                     'ctor:iter:src:bytes': 1600, 'ctor:iter:src:bytesio': 1600, 'ctor:iter:src:gen': 1600,
                     'ctor:iter:src:gen-bytes': 1600, 'ctor:iter:src:gen-nonl': 1600, 'ctor:iter:src:iter-bytes':
                     1600, 'ctor:iter:src:iter-list': 1600, 'ctor:iter:src:list': 1600, 'ctor:iter:src:list-bytes':
                     1600, 'ctor:iter:src:list-nonl': 1600, 'ctor:iter:src:str': 1600, 'ctor:iter:src:stringio': 1600,
                     'ctor:iter:src:textfile': 1600, 'ctor:iter:src:tuple': 1600, 'ctor:layout:mixed': 61000,
                     'ctor:layout:mixed:mapping': 13000, 'ctor:layout:mixed:one-shot': 28000,
                     'ctor:layout:mixed:re-usable': 19000, 'ctor:layout:multi': 210000, 'ctor:layout:multi:mapping':
                     46000, 'ctor:layout:multi:one-shot': 100000, 'ctor:layout:multi:re-usable': 67000,
                     'ctor:layout:single': 28000, 'ctor:layout:single:mapping': 6000, 'ctor:layout:single:one-shot':
                     13000, 'ctor:layout:single:re-usable': 8900, 'ctor:lead:blank-line': 7000, 'ctor:tail:blank':
                     14000, 'ctor:tail:nl': 29000, 'ctor:tail:nonl': 14000}},
}
for _tier in ('quick', 'thorough'):
    FLOORS[_tier]['counters'].update(_CTOR_FLOORS[_tier]['counters'])
    FLOORS[_tier]['monitors'].update(_CTOR_FLOORS[_tier]['monitors'])
# EQ-FLOORS (equality protocol of the exposed records; single-record fields / parse -> dump -> parse stability): 50 % of the
# measured minimum over VERIF_SEED 0..3 (quick) / of seed 0 (thorough), two digits kept, measured counters only where the
# minimum is >= 40 / 60.  No floor on the library's own answers (eq:other-case-names:equal / unequal,
# stable:built:*-reparsed-as-*).  The enumerated (configuration, field, shape) counters one:* are floored in _enum_floors().
# A run that never compares a record with == or never re-dumps a re-parsed one-record field is INCONCLUSIVE, not held.
_EQ_FLOORS = {
    'quick': {
        'monitors': {'M.eq': 37000, 'M.eq.cmp': 310000, 'M.eq.full': 16000, 'M.eq.two-parses': 12000, 'M.one': 200,
                     'M.stable': 4500, 'M.stable.one-record': 5700, 'M.stable.redump-with-one-record-field': 3400},
        'counters': {'build:bare-record-value': 830, 'build:bare-record-value:BuildInfo': 67,
                     'build:bare-record-value:Changes': 68, 'build:bare-record-value:Dsc': 65,
                     'build:bare-record-value:PdiffIndex': 480, 'build:bare-record-value:Release-apt-ftparchive': 62,
                     'build:bare-record-value:Release-dak': 68, 'eq:differs-in:first-column': 5400,
                     'eq:differs-in:last-column': 5000, 'eq:differs-in:middle-column': 200, 'eq:differs-in:size':
                     5400, 'eq:field-value:bare-record:reversed-key-order:dicts==value': 720,
                     'eq:field-value:bare-record:reversed-key-order:value==dicts': 730,
                     'eq:field-value:bare-record:shuffled-key-order:dicts==value': 730,
                     'eq:field-value:bare-record:shuffled-key-order:value==dicts': 710,
                     'eq:field-value:list:reversed-key-order:dicts==value': 8600,
                     'eq:field-value:list:reversed-key-order:value==dicts': 8700,
                     'eq:field-value:list:shuffled-key-order:dicts==value': 8600,
                     'eq:field-value:list:shuffled-key-order:value==dicts': 8500, 'eq:list:differing-dict-not-in':
                     7400, 'eq:list:differs-in-one-sub-field-of-one-record': 7400, 'eq:list:in+index': 14000,
                     'eq:other-case-names:probed': 4000, 'eq:record:against-Deb822Dict-from-reversed-pairs': 4000,
                     'eq:record:column-key-order': 10000, 'eq:record:columns:2': 890, 'eq:record:columns:3': 14000,
                     'eq:record:columns:5': 530, 'eq:record:reversed-key-order': 10000,
                     'eq:record:shuffled-key-order': 10000, 'eq:stage:parsed': 9800,
                     'eq:stage:reparsed-dump-of-built-object': 13000, 'eq:stage:reparsed-dump-of-parsed-object':
                     14000, 'eq:two-parses:dumped-text-twice': 2700, 'eq:two-parses:same-text-twice': 1000,
                     'eq:two-parses:text-and-its-dump': 8700, 'one:case': 200,
                     'stable:built-as:bare-record:one-record': 470, 'stable:built-as:list': 6100,
                     'stable:built-as:list:one-record': 1700, 'stable:built:BuildInfo:bare-record': 36,
                     'stable:built:BuildInfo:list': 110, 'stable:built:Changes:bare-record': 37,
                     'stable:built:Changes:list': 130, 'stable:built:Dsc:bare-record': 34, 'stable:built:Dsc:list':
                     110, 'stable:built:PdiffIndex:bare-record': 270, 'stable:built:PdiffIndex:list': 1000,
                     'stable:built:Release-apt-ftparchive:bare-record': 36,
                     'stable:built:Release-apt-ftparchive:list': 120, 'stable:built:Release-dak:bare-record': 40,
                     'stable:built:Release-dak:list': 110, 'stable:parsed:BuildInfo:bare-record': 130,
                     'stable:parsed:BuildInfo:list': 120, 'stable:parsed:Changes:bare-record': 120,
                     'stable:parsed:Changes:list': 120, 'stable:parsed:Dsc:bare-record': 130,
                     'stable:parsed:Dsc:list': 120, 'stable:parsed:PdiffIndex:bare-record': 1100,
                     'stable:parsed:PdiffIndex:list': 870, 'stable:parsed:Release-apt-ftparchive:bare-record': 130,
                     'stable:parsed:Release-apt-ftparchive:list': 130, 'stable:parsed:Release-dak:bare-record': 130,
                     'stable:parsed:Release-dak:list': 110, 'stable:text-layout:mixed': 2400,
                     'stable:text-layout:multi': 5300, 'stable:text-layout:multi:one-record': 1500,
                     'stable:text-layout:single:one-record': 1900}},
    'thorough': {
        'monitors': {'M.eq': 1200000, 'M.eq.cmp': 10000000, 'M.eq.full': 500000, 'M.eq.two-parses': 380000, 'M.one':
                     4000, 'M.stable': 140000, 'M.stable.one-record': 170000, 'M.stable.redump-with-one-record-field':
                     100000},
        'counters': {'build:bare-record-value': 27000, 'build:bare-record-value:BuildInfo': 2500,
                     'build:bare-record-value:Changes': 2500, 'build:bare-record-value:Dsc': 2500,
                     'build:bare-record-value:PdiffIndex': 14000, 'build:bare-record-value:Release-apt-ftparchive':
                     2500, 'build:bare-record-value:Release-dak': 2500, 'eq:differs-in:first-column': 160000,
                     'eq:differs-in:last-column': 150000, 'eq:differs-in:middle-column': 6900, 'eq:differs-in:size':
                     160000, 'eq:field-value:bare-record:reversed-key-order:dicts==value': 23000,
                     'eq:field-value:bare-record:reversed-key-order:value==dicts': 23000,
                     'eq:field-value:bare-record:shuffled-key-order:dicts==value': 23000,
                     'eq:field-value:bare-record:shuffled-key-order:value==dicts': 23000,
                     'eq:field-value:list:reversed-key-order:dicts==value': 290000,
                     'eq:field-value:list:reversed-key-order:value==dicts': 290000,
                     'eq:field-value:list:shuffled-key-order:dicts==value': 290000,
                     'eq:field-value:list:shuffled-key-order:value==dicts': 290000, 'eq:list:differing-dict-not-in':
                     220000, 'eq:list:differs-in-one-sub-field-of-one-record': 220000, 'eq:list:in+index': 450000,
                     'eq:other-case-names:probed': 120000, 'eq:record:against-Deb822Dict-from-reversed-pairs': 120000,
                     'eq:record:column-key-order': 330000, 'eq:record:columns:2': 24000, 'eq:record:columns:3':
                     450000, 'eq:record:columns:5': 17000, 'eq:record:reversed-key-order': 330000,
                     'eq:record:shuffled-key-order': 330000, 'eq:stage:parsed': 290000,
                     'eq:stage:reparsed-dump-of-built-object': 510000, 'eq:stage:reparsed-dump-of-parsed-object':
                     470000, 'eq:two-parses:dumped-text-twice': 81000, 'eq:two-parses:same-text-twice': 31000,
                     'eq:two-parses:text-and-its-dump': 270000, 'one:case': 4000,
                     'stable:built-as:bare-record:one-record': 15000, 'stable:built-as:list': 190000,
                     'stable:built-as:list:one-record': 52000, 'stable:built:BuildInfo:bare-record': 1300,
                     'stable:built:BuildInfo:list': 4200, 'stable:built:Changes:bare-record': 1400,
                     'stable:built:Changes:list': 4300, 'stable:built:Dsc:bare-record': 1300, 'stable:built:Dsc:list':
                     4300, 'stable:built:PdiffIndex:bare-record': 8300, 'stable:built:PdiffIndex:list': 30000,
                     'stable:built:Release-apt-ftparchive:bare-record': 1400,
                     'stable:built:Release-apt-ftparchive:list': 4200, 'stable:built:Release-dak:bare-record': 1300,
                     'stable:built:Release-dak:list': 4200, 'stable:parsed:BuildInfo:bare-record': 4400,
                     'stable:parsed:BuildInfo:list': 4100, 'stable:parsed:Changes:bare-record': 4600,
                     'stable:parsed:Changes:list': 4200, 'stable:parsed:Dsc:bare-record': 4400,
                     'stable:parsed:Dsc:list': 4100, 'stable:parsed:PdiffIndex:bare-record': 36000,
                     'stable:parsed:PdiffIndex:list': 25000, 'stable:parsed:Release-apt-ftparchive:bare-record': 4400,
                     'stable:parsed:Release-apt-ftparchive:list': 4100, 'stable:parsed:Release-dak:bare-record': 4300,
                     'stable:parsed:Release-dak:list': 4000, 'stable:text-layout:mixed': 76000,
                     'stable:text-layout:multi': 160000, 'stable:text-layout:multi:one-record': 46000,
                     'stable:text-layout:single:one-record': 58000}},
}
for _tier in ('quick', 'thorough'):
    FLOORS[_tier]['counters'].update(_EQ_FLOORS[_tier]['counters'])
    FLOORS[_tier]['monitors'].update(_EQ_FLOORS[_tier]['monitors'])
# RE-MEASURED (round 8): the token generator now draws a hex / decimal / free-form token with ONE draw instead of one per
# character (same distributions, different random streams) and RANDOM / HIST were trimmed by 5 % / 3 %, so the sparsely
# sampled counters were re-rolled.  Every floor above was checked against new runs (VERIF_SEED 0..3 quick, seed 0 thorough);
# where the new minimum is below 1.8 x the old floor the floor is replaced by 50 % of the new minimum (two digits kept), or
# dropped (None) where the new minimum is below 40 (quick) / 60 (thorough).  All other floors remain <= 56 % of what is measured.
_REMEASURED = {
    'quick': {'counters': {'inv:char-input:U+0300:str': 21, 'inv:char-input:U+034F:str': None,
                          'inv:char-input:U+180E:str': 21, 'inv:char-input:U+202E:str': None,
                          'inv:char-input:U+2069:str': None, 'inv:char-input:U+20DD:str': 20,
                          'inv:char-mode:U+061C:text': 89, 'inv:char-mode:U+202A:text': 85,
                          'inv:char-mode:U+E0100:text': 77, 'inv:char-mode:U+FFFE:build': 74,
                          'inv:char-pos:U+0300:end': 49, 'inv:char-pos:U+061C:mid': 55, 'inv:char-pos:U+200F:start':
                          41, 'inv:char-pos:U+2066:end': 51, 'inv:char-pos:U+FE0F:end': 54,
                          'inv:char-pos:U+FFF9:start': 41, 'inv:char-pos:U+FFFE:mid': 55,
                          'inv:config-input:BuildInfo:file': 38, 'inv:config-input:Release-apt-ftparchive:bytes': 53,
                          'inv:config-input:Release-apt-ftparchive:lines': 54,
                          'inv:config-input:Release-apt-ftparchive:lines_nonl': 53, 'inv:pos-input:both:signed': 23,
                          'inv:pos-input:start:signed': 50, 'route:step:grow:get.extend-gen': 28,
                          'route:step:grow:held.extend-gen': 45, 'route:step:grow:setdefault.extend': 100},
              'monitors': {}},
    'thorough': {'counters': {'inv:char-input:U+2064:signed': 140}, 'monitors': {}},
}
for _tier in ('quick', 'thorough'):
    for _kind in ('counters', 'monitors'):
        for _k, _v in _REMEASURED[_tier][_kind].items():
            if _v is None:
                FLOORS[_tier][_kind].pop(_k, None)
            else:
                FLOORS[_tier][_kind][_k] = _v
# LK-FLOORS (round 9): record tokens that together spell a line with a meaning elsewhere in the format.  The enumeration is
# deterministic and floored programmatically in _enum_floors() (lk-enum:*: every configuration x class, class x shape, class x
# column count, every structured field); the literal below holds 50 % of what the unchanged tree measures (quick: minimum over
# VERIF_SEED 0..3, thorough: seed 0; two digits kept; only counters whose minimum is >= 40 / 60) for the judged read-backs
# (M.lk = one paragraph read through one input form and found complete; M.lk.generated-text / M.lk.dumped-text /
# M.lk.clear-signed; lk:via:<text>:<form>), the classes, positions, layouts and the paragraphs with several look-alikes, so that
# a run which never drives - or never judges - this class is INCONCLUSIVE, not held.
_LK_FLOORS = {'quick': {'counters': {'lk-enum:case': 310,
                        'lk-par:case': 80,
                        'lk:case': 390,
                        'lk:class:armor-begin-message': 81,
                        'lk:class:armor-begin-signature': 85,
                        'lk:class:armor-end-signature': 100,
                        'lk:class:comment': 75,
                        'lk:class:dash': 71,
                        'lk:class:dot': 72,
                        'lk:class:field-line': 72,
                        'lk:class:plus': 73,
                        'lk:columns:armor-begin-message:3': 77,
                        'lk:columns:armor-begin-signature:3': 81,
                        'lk:columns:armor-end-signature:3': 100,
                        'lk:columns:comment:3': 66,
                        'lk:columns:dash:3': 65,
                        'lk:columns:dot:3': 66,
                        'lk:columns:field-line:3': 67,
                        'lk:columns:plus:3': 67,
                        'lk:field-is-last-of-paragraph': 150,
                        'lk:is-the-last-record-of-the-last-structured-field': 130,
                        'lk:layout:armor-begin-message:list': 26,
                        'lk:layout:armor-begin-message:multi': 28,
                        'lk:layout:armor-begin-signature:list': 29,
                        'lk:layout:armor-begin-signature:multi': 30,
                        'lk:layout:armor-end-signature:list': 37,
                        'lk:layout:armor-end-signature:multi': 34,
                        'lk:layout:comment:list': 25,
                        'lk:layout:comment:multi': 25,
                        'lk:layout:dash:list': 25,
                        'lk:layout:dash:multi': 25,
                        'lk:layout:dot:list': 27,
                        'lk:layout:dot:multi': 22,
                        'lk:layout:field-line:list': 25,
                        'lk:layout:field-line:multi': 22,
                        'lk:layout:plus:list': 26,
                        'lk:layout:plus:multi': 20,
                        'lk:marked-records:3+': 61,
                        'lk:mode:build': 140,
                        'lk:mode:text': 230,
                        'lk:paragraph-with-begin-then-end-look-alike': 28,
                        'lk:record:armor-begin-message:first': 24,
                        'lk:record:armor-begin-signature:first': 23,
                        'lk:record:armor-begin-signature:last': 23,
                        'lk:record:armor-end-signature:first': 24,
                        'lk:record:armor-end-signature:last': 38,
                        'lk:record:armor-end-signature:middle': 22,
                        'lk:record:comment:last': 21,
                        'lk:record:dot:last': 22,
                        'lk:record:field-line:first': 22,
                        'lk:record:plus:last': 21,
                        'lk:records-or-structured-fields-follow': 510,
                        'lk:via:dumped-text:bfile': 390,
                        'lk:via:dumped-text:bytes': 390,
                        'lk:via:dumped-text:clear-signed-bfile': 47,
                        'lk:via:dumped-text:clear-signed-bytes': 54,
                        'lk:via:dumped-text:clear-signed-file': 53,
                        'lk:via:dumped-text:clear-signed-iter-lines': 53,
                        'lk:via:dumped-text:clear-signed-iter-str': 49,
                        'lk:via:dumped-text:clear-signed-lines': 55,
                        'lk:via:dumped-text:clear-signed-lines_nonl': 55,
                        'lk:via:dumped-text:clear-signed-str': 190,
                        'lk:via:dumped-text:file': 390,
                        'lk:via:dumped-text:iter-bfile': 120,
                        'lk:via:dumped-text:iter-lines': 120,
                        'lk:via:dumped-text:iter-str': 120,
                        'lk:via:dumped-text:lines': 390,
                        'lk:via:dumped-text:lines_nonl': 390,
                        'lk:via:dumped-text:str': 390,
                        'lk:via:generated-text:bfile': 230,
                        'lk:via:generated-text:bytes': 230,
                        'lk:via:generated-text:clear-signed-bfile': 32,
                        'lk:via:generated-text:clear-signed-bytes': 33,
                        'lk:via:generated-text:clear-signed-file': 29,
                        'lk:via:generated-text:clear-signed-iter-lines': 28,
                        'lk:via:generated-text:clear-signed-iter-str': 33,
                        'lk:via:generated-text:clear-signed-lines': 36,
                        'lk:via:generated-text:clear-signed-lines_nonl': 31,
                        'lk:via:generated-text:clear-signed-str': 110,
                        'lk:via:generated-text:file': 230,
                        'lk:via:generated-text:iter-bfile': 70,
                        'lk:via:generated-text:iter-lines': 76,
                        'lk:via:generated-text:iter-str': 72,
                        'lk:via:generated-text:lines': 230,
                        'lk:via:generated-text:lines_nonl': 230,
                        'lk:via:generated-text:str': 230},
           'monitors': {'M.lk': 5300,
                        'M.lk.clear-signed': 950,
                        'M.lk.dumped-text': 3300,
                        'M.lk.generated-text': 2000}},
 'thorough': {'counters': {'lk-enum:case': 6900,
                           'lk-par:case': 3900,
                           'lk:case': 10000,
                           'lk:class:armor-begin-message': 3400,
                           'lk:class:armor-begin-signature': 3400,
                           'lk:class:armor-end-signature': 4200,
                           'lk:class:comment': 2800,
                           'lk:class:dash': 2700,
                           'lk:class:dot': 2700,
                           'lk:class:field-line': 2700,
                           'lk:class:plus': 2700,
                           'lk:columns:armor-begin-message:3': 3300,
                           'lk:columns:armor-begin-message:5': 110,
                           'lk:columns:armor-begin-signature:3': 3300,
                           'lk:columns:armor-begin-signature:5': 130,
                           'lk:columns:armor-end-signature:3': 4100,
                           'lk:columns:armor-end-signature:5': 160,
                           'lk:columns:comment:2': 170,
                           'lk:columns:comment:3': 2500,
                           'lk:columns:comment:5': 94,
                           'lk:columns:dash:2': 170,
                           'lk:columns:dash:3': 2500,
                           'lk:columns:dash:5': 87,
                           'lk:columns:dot:2': 150,
                           'lk:columns:dot:3': 2500,
                           'lk:columns:dot:5': 92,
                           'lk:columns:field-line:2': 180,
                           'lk:columns:field-line:3': 2500,
                           'lk:columns:field-line:5': 94,
                           'lk:columns:plus:2': 160,
                           'lk:columns:plus:3': 2500,
                           'lk:columns:plus:5': 94,
                           'lk:config:BuildInfo:armor-begin-message': 530,
                           'lk:config:BuildInfo:armor-begin-signature': 510,
                           'lk:config:BuildInfo:armor-end-signature': 660,
                           'lk:config:BuildInfo:comment': 390,
                           'lk:config:BuildInfo:dash': 380,
                           'lk:config:BuildInfo:dot': 380,
                           'lk:config:BuildInfo:field-line': 380,
                           'lk:config:BuildInfo:plus': 370,
                           'lk:config:Changes:armor-begin-message': 510,
                           'lk:config:Changes:armor-begin-signature': 520,
                           'lk:config:Changes:armor-end-signature': 650,
                           'lk:config:Changes:comment': 370,
                           'lk:config:Changes:dash': 380,
                           'lk:config:Changes:dot': 380,
                           'lk:config:Changes:field-line': 370,
                           'lk:config:Changes:plus': 380,
                           'lk:config:Dsc:armor-begin-message': 540,
                           'lk:config:Dsc:armor-begin-signature': 530,
                           'lk:config:Dsc:armor-end-signature': 660,
                           'lk:config:Dsc:comment': 370,
                           'lk:config:Dsc:dash': 370,
                           'lk:config:Dsc:dot': 400,
                           'lk:config:Dsc:field-line': 380,
                           'lk:config:Dsc:plus': 380,
                           'lk:config:PdiffIndex:armor-begin-message': 820,
                           'lk:config:PdiffIndex:armor-begin-signature': 810,
                           'lk:config:PdiffIndex:armor-end-signature': 940,
                           'lk:config:PdiffIndex:comment': 870,
                           'lk:config:PdiffIndex:dash': 850,
                           'lk:config:PdiffIndex:dot': 860,
                           'lk:config:PdiffIndex:field-line': 880,
                           'lk:config:PdiffIndex:plus': 870,
                           'lk:config:Release-apt-ftparchive:armor-begin-message': 510,
                           'lk:config:Release-apt-ftparchive:armor-begin-signature': 520,
                           'lk:config:Release-apt-ftparchive:armor-end-signature': 670,
                           'lk:config:Release-apt-ftparchive:comment': 400,
                           'lk:config:Release-apt-ftparchive:dash': 380,
                           'lk:config:Release-apt-ftparchive:dot': 380,
                           'lk:config:Release-apt-ftparchive:field-line': 380,
                           'lk:config:Release-apt-ftparchive:plus': 370,
                           'lk:config:Release-dak:armor-begin-message': 510,
                           'lk:config:Release-dak:armor-begin-signature': 510,
                           'lk:config:Release-dak:armor-end-signature': 680,
                           'lk:config:Release-dak:comment': 380,
                           'lk:config:Release-dak:dash': 380,
                           'lk:config:Release-dak:dot': 370,
                           'lk:config:Release-dak:field-line': 370,
                           'lk:config:Release-dak:plus': 380,
                           'lk:field-is-last-of-paragraph': 5600,
                           'lk:is-the-last-record-of-the-last-structured-field': 4200,
                           'lk:layout:armor-begin-message:bare': 89,
                           'lk:layout:armor-begin-message:list': 1200,
                           'lk:layout:armor-begin-message:mixed': 700,
                           'lk:layout:armor-begin-message:multi': 1200,
                           'lk:layout:armor-begin-message:single': 130,
                           'lk:layout:armor-begin-signature:bare': 84,
                           'lk:layout:armor-begin-signature:list': 1200,
                           'lk:layout:armor-begin-signature:mixed': 660,
                           'lk:layout:armor-begin-signature:multi': 1200,
                           'lk:layout:armor-begin-signature:single': 130,
                           'lk:layout:armor-end-signature:bare': 98,
                           'lk:layout:armor-end-signature:list': 1500,
                           'lk:layout:armor-end-signature:mixed': 850,
                           'lk:layout:armor-end-signature:multi': 1600,
                           'lk:layout:armor-end-signature:single': 140,
                           'lk:layout:comment:bare': 81,
                           'lk:layout:comment:list': 1000,
                           'lk:layout:comment:mixed': 580,
                           'lk:layout:comment:multi': 1000,
                           'lk:layout:comment:single': 100,
                           'lk:layout:dash:bare': 84,
                           'lk:layout:dash:list': 980,
                           'lk:layout:dash:mixed': 570,
                           'lk:layout:dash:multi': 1000,
                           'lk:layout:dash:single': 100,
                           'lk:layout:dot:bare': 80,
                           'lk:layout:dot:list': 990,
                           'lk:layout:dot:mixed': 570,
                           'lk:layout:dot:multi': 1000,
                           'lk:layout:dot:single': 100,
                           'lk:layout:field-line:bare': 77,
                           'lk:layout:field-line:list': 990,
                           'lk:layout:field-line:mixed': 560,
                           'lk:layout:field-line:multi': 1000,
                           'lk:layout:field-line:single': 100,
                           'lk:layout:plus:bare': 88,
                           'lk:layout:plus:list': 1000,
                           'lk:layout:plus:mixed': 570,
                           'lk:layout:plus:multi': 1000,
                           'lk:layout:plus:single': 100,
                           'lk:marked-records:2': 800,
                           'lk:marked-records:3+': 3100,
                           'lk:mode:build': 4200,
                           'lk:mode:text': 6600,
                           'lk:paragraph-with-begin-then-end-look-alike': 1600,
                           'lk:record:armor-begin-message:first': 1200,
                           'lk:record:armor-begin-message:last': 910,
                           'lk:record:armor-begin-message:middle': 830,
                           'lk:record:armor-begin-message:only': 460,
                           'lk:record:armor-begin-signature:first': 1200,
                           'lk:record:armor-begin-signature:last': 920,
                           'lk:record:armor-begin-signature:middle': 820,
                           'lk:record:armor-begin-signature:only': 460,
                           'lk:record:armor-end-signature:first': 1000,
                           'lk:record:armor-end-signature:last': 1700,
                           'lk:record:armor-end-signature:middle': 1000,
                           'lk:record:armor-end-signature:only': 530,
                           'lk:record:comment:first': 840,
                           'lk:record:comment:last': 830,
                           'lk:record:comment:middle': 730,
                           'lk:record:comment:only': 390,
                           'lk:record:dash:first': 830,
                           'lk:record:dash:last': 800,
                           'lk:record:dash:middle': 720,
                           'lk:record:dash:only': 390,
                           'lk:record:dot:first': 840,
                           'lk:record:dot:last': 810,
                           'lk:record:dot:middle': 750,
                           'lk:record:dot:only': 380,
                           'lk:record:field-line:first': 840,
                           'lk:record:field-line:last': 810,
                           'lk:record:field-line:middle': 750,
                           'lk:record:field-line:only': 380,
                           'lk:record:plus:first': 820,
                           'lk:record:plus:last': 820,
                           'lk:record:plus:middle': 740,
                           'lk:record:plus:only': 390,
                           'lk:records-or-structured-fields-follow': 20000,
                           'lk:via:dumped-text:bfile': 10000,
                           'lk:via:dumped-text:bytes': 10000,
                           'lk:via:dumped-text:clear-signed-bfile': 1200,
                           'lk:via:dumped-text:clear-signed-bytes': 1200,
                           'lk:via:dumped-text:clear-signed-file': 1200,
                           'lk:via:dumped-text:clear-signed-iter-lines': 1200,
                           'lk:via:dumped-text:clear-signed-iter-str': 1300,
                           'lk:via:dumped-text:clear-signed-lines': 1200,
                           'lk:via:dumped-text:clear-signed-lines_nonl': 1200,
                           'lk:via:dumped-text:clear-signed-str': 4400,
                           'lk:via:dumped-text:file': 10000,
                           'lk:via:dumped-text:iter-bfile': 3600,
                           'lk:via:dumped-text:iter-lines': 3600,
                           'lk:via:dumped-text:iter-str': 3600,
                           'lk:via:dumped-text:lines': 10000,
                           'lk:via:dumped-text:lines_nonl': 10000,
                           'lk:via:dumped-text:str': 10000,
                           'lk:via:generated-text:bfile': 6600,
                           'lk:via:generated-text:bytes': 6600,
                           'lk:via:generated-text:clear-signed-bfile': 800,
                           'lk:via:generated-text:clear-signed-bytes': 810,
                           'lk:via:generated-text:clear-signed-file': 770,
                           'lk:via:generated-text:clear-signed-iter-lines': 760,
                           'lk:via:generated-text:clear-signed-iter-str': 780,
                           'lk:via:generated-text:clear-signed-lines': 760,
                           'lk:via:generated-text:clear-signed-lines_nonl': 790,
                           'lk:via:generated-text:clear-signed-str': 2700,
                           'lk:via:generated-text:file': 6600,
                           'lk:via:generated-text:iter-bfile': 2200,
                           'lk:via:generated-text:iter-lines': 2200,
                           'lk:via:generated-text:iter-str': 2200,
                           'lk:via:generated-text:lines': 6600,
                           'lk:via:generated-text:lines_nonl': 6600,
                           'lk:via:generated-text:str': 6600},
              'monitors': {'M.lk': 140000,
                           'M.lk.clear-signed': 21000,
                           'M.lk.dumped-text': 89000,
                           'M.lk.generated-text': 55000}}}
for _tier in ('quick', 'thorough'):
    FLOORS[_tier]['counters'].update(_LK_FLOORS[_tier]['counters'])
    FLOORS[_tier]['monitors'].update(_LK_FLOORS[_tier]['monitors'])
# MIXED-FLOORS: the enumerated mixed-layout class is deterministic - every structured field of every configuration
# is parsed MIXED_REPS x {2, 3, 4 records} times (Release: x 2 behaviours); demand half of that per field, so a
# run that does not drive the mixed layout for SOME field of SOME class is INCONCLUSIVE, not held.
for _tier in ('quick', 'thorough'):
    for _cls, _behavior in mv.CONFIGS:
        for _f in mv.DOC[_cls]:
            _k = 'mixed-enum:field:%s:%s' % (_cls, _f)
            FLOORS[_tier]['counters'][_k] = FLOORS[_tier]['counters'].get(_k, 0) + (3 * MIXED_REPS[_tier]) // 2

HOSTILE_ATOMS = ['#', ':', '-', '-----BEGIN', 'PGP', '=', '\\', 'Files:', '.', '..', '#x', 'a:b', '::', '-----',
                 '%', '"', "'", '@', ',', ';', '(', ')', '[', ']', '{', '}', '<', '>', '|', '&', '*', '!', '?', '$',
                 '^', '`', '~', '+', '/', '_', '\u00e9', '\u00fc', '\u4e2d', '\u00df', '\u0416', '0', '00', 'size',
                 'name', 'md5sum']
HEXLEN = {'md5sum': 32, 'md5': 32, 'sha1': 40, 'sha256': 64, 'sha512': 128}

# ---------------------------------------------------------------------------
# invisible / format characters: NOT whitespace for str.split() / str.isspace(), not line boundaries for
# str.splitlines(), encodable in UTF-8 - so they are ordinary token characters for the property - yet the kind of
# character a well-meaning decoder / normaliser deletes or alters (BOM, zero-width space / joiners, word joiner,
# soft hyphen, combining marks, directional marks, variation selectors, noncharacters).
_INV_CORE = ['\ufeff', '\u200b', '\u200c', '\u200d', '\u2060', '\u00ad', '\u0301']
_INV_EXTRA = ['\u200e', '\u200f', '\u034f', '\ufe0f', '\u180e', '\u061c', '\u2061', '\u2063', '\u2064', '\ufffe',
              '\uffff', '\u0300', '\u0308', '\u20dd', '\U000e0001', '\U000e0100', '\ufff9', '\u202a', '\u202e',
              '\u2066', '\u2069']
INV_COMBINING = frozenset(['\u0301', '\u0300', '\u0308', '\u20dd'])


def _inv_usable(ch):
    """In the domain on THIS interpreter: one token for str.split(), one line for str.splitlines(), no
    str.isspace() character, encodable and decodable in UTF-8."""
    try:
        ok = ch.encode('utf-8').decode('utf-8') == ch
    except UnicodeError:
        return False
    probe = 'a' + ch + 'b'
    return (ok and mv.is_ws_free_token(ch) and probe.split() == [probe] and probe.splitlines() == [probe]
            and (ch + 'b').split() == [ch + 'b'] and ('a' + ch).split() == ['a' + ch])


INV_CORE = [c for c in _INV_CORE if _inv_usable(c)]
INV_EXTRA = [c for c in _INV_EXTRA if _inv_usable(c)]
INV_ALL = INV_CORE + INV_EXTRA
INV_SET = frozenset(INV_ALL)
INV_RE = re.compile('[%s]' % ''.join(INV_ALL))
INV_POS = ('start', 'mid', 'end', 'whole', 'both')
INV_P = 0.006          # share of ALL generated tokens (every workload, history mutations included) that carry one
INV_WHICH = ('first', 'last', 'mid', 'any')


def inv_name(ch):
    return 'U+%04X' % ord(ch)


def inv_inject(r, tok, ch, pos):
    """`tok` with the invisible character `ch` at the start / in the middle / at the end; 'whole' = the token
    consists of invisible characters only; 'both' = at the start and at the end.  A combining mark in the
    middle mostly follows a base letter it composes with under NFC (e + U+0301)."""
    if pos == 'start':
        return ch + tok
    if pos == 'end':
        return tok + ch
    if pos == 'both':
        return ch + tok + (ch if r.random() < 0.5 else r.choice(INV_CORE))
    if pos == 'whole':
        return ch if r.random() < 0.6 else ch + r.choice(INV_CORE)
    if len(tok) < 2:
        tok = tok + tok
    k = r.randint(1, len(tok) - 1)
    base = ''
    if ch in INV_COMBINING and not tok.isdigit() and r.random() < 0.6:
        base = r.choice('aeiounAEO')
    return tok[:k] + base + ch + tok[k:]


def inv_positions(tok):
    """Where the invisible characters of a token sit (classification from the token itself)."""
    flags = [c in INV_SET for c in tok]
    if all(flags):
        return ['whole']
    out = []
    if flags[0]:
        out.append('start')
    if any(flags[1:-1]):
        out.append('mid')
    if flags[-1]:
        out.append('end')
    if flags[0] and flags[-1]:
        out.append('both')
    return out


def inv_scan(recs_by_field, table):
    """[(field, record index, record count, sub-field name, token)] for every token with an invisible character."""
    out = []
    for f, recs in recs_by_field.items():
        for i, rec in enumerate(recs):
            for name, tok in zip(table[f], rec):
                if INV_RE.search(tok):
                    out.append((f, i, len(recs), name, tok))
    return out


def inv_fields(recs_by_field):
    """Fields whose current records carry an invisible character in some token."""
    return set(f for f, recs in recs_by_field.items() if any(INV_RE.search(t) for rec in recs for t in rec))


# ---------------------------------------------------------------------------
# generators

def gen_size(r):
    n = r.choice([1, 1, 2, 3, 5, 7, 9, 12, 15, 16, 16, 17, 18])
    k = r.random()
    if k < 0.04:
        return r.choice(['1k', '0x10', '-1', '1.5', '12:3', '#7', '\u0661\u0662'])   # still whitespace-free tokens
    if k < 0.12:
        return '0' * (n - 1) + r.choice('0123456789')                              # leading zeros
    return str(r.randrange(10 ** (n - 1), 10 ** n))                 # uniform over the n-digit numbers, one draw


def gen_token(r, sub, inv_p=None):
    s = _gen_token(r, sub)
    if r.random() < (INV_P if inv_p is None else inv_p):
        ch = r.choice(INV_CORE) if r.random() < 0.7 else r.choice(INV_ALL)
        s = inv_inject(r, s, ch, r.choice(['start', 'mid', 'mid', 'end', 'whole', 'both']
                                          if sub != 'size' else ['start', 'mid', 'mid', 'end', 'end', 'both']))
        assert mv.is_ws_free_token(s), s
    return s


def _gen_token(r, sub):
    k = r.random()
    if sub == 'size':
        return gen_size(r)
    if k < 0.22:
        s = ''.join(r.choices(HOSTILE_ATOMS, k=r.randint(1, 4)))
    elif sub.lower() in HEXLEN and k < 0.55:
        s = '%0*x' % (HEXLEN[sub.lower()], r.getrandbits(4 * HEXLEN[sub.lower()]))     # one draw, not one per digit
    elif sub == 'date' and k < 0.7:
        s = '2026-%02d-%02d-%04d.%02d' % (r.randint(1, 12), r.randint(1, 28), r.randint(0, 2359), r.randint(0, 59))
    elif sub in ('name', 'filename') and k < 0.7:
        s = r.choice(['main/binary-amd64/Packages', 'hello_2.10-3.dsc', 'hello_2.10.orig.tar.gz', 'T-2026.gz',
                      'contrib/i18n/Translation-en.xz', 'hello_2.10-3_amd64.deb', 'a'])
        if r.random() < 0.3:
            s += r.choice(HOSTILE_ATOMS)
    elif sub in ('section', 'priority') and k < 0.7:
        s = r.choice(['devel', 'non-free/libs', 'optional', 'extra', '-', 'byhand', 'raw-installer'])
    else:
        s = ''.join(r.choices('abcdefXYZ0123456789._-+~/', k=r.randint(1, 10)))
    assert mv.is_ws_free_token(s), s
    return s


def gen_records(r, subs, n, inv_p=None):
    return [[gen_token(r, sub, inv_p) for sub in subs] for _ in range(n)]


def spell(r, field):
    k = r.random()
    if k < 0.7:
        return mv.DISPLAY[field]
    if k < 0.9:
        return field
    return field.upper()


def render_line(r, rec, layout, width):
    if layout == 'tight':
        return ' '.join(rec)
    if layout == 'aligned':
        return ' '.join([rec[0], rec[1].rjust(width)] + rec[2:])
    out = rec[0]
    for t in rec[1:]:
        out += ' ' * r.randint(1, 5) + t
    return out


def render_text(r, items, forms, tight=()):
    """items: [key, 'plain', value] | [key, 'records', lower, [[tok..]..]]; tight: fields whose record lines are the
    tokens joined by ONE blank each (so that tokens which together spell a line spell it exactly)"""
    out = []
    for it in items:
        if it[1] == 'plain':
            v = it[2]
            out.append('%s:%s%s\n' % (it[0], '' if v.startswith('\n') else ' ', v))
            continue
        key, _, lower, recs = it
        layout = r.choice(['tight', 'tight', 'aligned', 'ragged'])
        if lower in tight:
            layout = 'tight'
        width = r.choice([16, max(len(x[1]) for x in recs), r.randint(1, 20)])
        lines = [render_line(r, rec, layout, width) for rec in recs]
        if forms[lower] == 'single':
            out.append('%s:%s%s\n' % (key, r.choice([' ', ' ', '  ', '']), lines[0]))
        elif forms[lower] == 'mixed':
            # first record on the field line, the further ones on continuation lines
            out.append('%s:%s%s\n' % (key, r.choice([' ', ' ', '  ', '']), lines[0]) +
                       ''.join(' %s\n' % l for l in lines[1:]))
        else:
            out.append('%s:\n' % key + ''.join(' %s\n' % l for l in lines))
    return ''.join(out)


def sign(text):
    return ('-----BEGIN PGP SIGNED MESSAGE-----\nHash: SHA512\n\n' + text +
            '\n-----BEGIN PGP SIGNATURE-----\n\niQIzBAEBCgAdFiEEexample\n=AbCd\n-----END PGP SIGNATURE-----\n')


def size_of_len(r, n):
    """A plain decimal size token of exactly n characters."""
    n = max(1, n)
    return str(r.randrange(10 ** (n - 1), 10 ** n))


def mix_size_lengths(r, recs):
    """Make the size tokens of >= 2 records differ in length (in place)."""
    lens = r.sample([1, 2, 3, 4, 5, 6, 7, 8, 9, 10, 12, 15, 16, 17, 18], len(recs)) if len(recs) <= 15 else None
    if lens is None:
        return
    for rec, n in zip(recs, lens):
        rec[1] = size_of_len(r, n)


LPOS_WHERE = ('first', 'last', 'middle')
LPOS_N = (2, 3, 4, 5, 6)


def set_longest(r, recs, where):
    """Make ONE record (the first / the last / a middle one) carry the strictly longest size token (in place).
    The other sizes are strictly shorter: unrelated lengths, all one shorter, or all of length 1."""
    n = len(recs)
    longest = r.choice([2, 3, 4, 5, 7, 9, 12, 15, 16, 16, 17, 18, 20])
    idx = 0 if where == 'first' else (n - 1 if where == 'last' else r.randint(1, n - 2))
    style = r.random()
    for i, rec in enumerate(recs):
        if i == idx:
            rec[1] = size_of_len(r, longest)
        elif style < 0.3:
            rec[1] = size_of_len(r, longest - 1)
        elif style < 0.4:
            rec[1] = size_of_len(r, 1)
        else:
            rec[1] = size_of_len(r, r.randint(1, longest - 1))


def longest_where(recs):
    """Position of the strictly longest size token of >= 2 records: 'first' / 'last' / 'middle', or 'tie'."""
    lens = [len(x[1]) for x in recs]
    m = max(lens)
    at = [i for i, n in enumerate(lens) if n == m]
    if len(at) != 1:
        return 'tie'
    if at[0] == 0:
        return 'first'
    return 'last' if at[0] == len(recs) - 1 else 'middle'


def nrec_tag(n):
    return 'n%d' % n if n <= 6 else 'n7+'


PD_CURRENT = ('sha1-current', 'sha256-current')


def pd_is_3col(f):
    return f.endswith(('-history', '-patches', '-download'))


def gen_case(r, clsname, behavior, subset, mode, big=False, tweak=None, force=None, inv_p=None, inject=None,
             lpos=None, input_form=None, dump_via=None, one=None, bare=None, bare_p=0.0, lk=None, lk_fpos=None,
             lk_order=None):
    """tweak (PdiffIndex only): 'pd-current-list' forces SHA*-Current present as >= 2 records with sizes of
    different lengths; 'pd-single3' forces text mode with 1..3 History/Patches/Download fields whose only
    record sits on the field line.
    force (any class): {field: [form, nrecords]} - text mode, these fields present with exactly that text
    layout ('single' / 'multi' / 'mixed') and record count.
    inv_p: share of the record tokens of this case that carry an invisible / format character (default INV_P).
    inject: [field, sub-field index, character, position, which record ('first' / 'last' / 'mid' / 'any')] - the
    field is present and that token of that record carries the invisible character at that position.
    lpos: {field: [nrecords, where]} - the field is present with exactly that many (>= 2) records and the
    strictly longest size token sits in the first / the last / a middle record.
    one: fields that are present with exactly ONE record (any mode).
    bare / bare_p (build mode): fields with exactly one record whose value is handed over as the BARE record
    (para[f] = rec - the value shape the library itself exposes for a record on the field line) instead of a
    list holding that record; `bare` names them, `bare_p` is the share of the other one-record fields.
    lk: {field: {'n': record count, 'layout': 'single' | 'multi' | 'mixed' (text mode) | 'list' | 'bare' (build mode),
    'marks': [[record index, template, look-alike class], ..], 'tight': bool (one blank between the tokens of every record
    line of the field in the text; always so when an armor look-alike is marked)}} - the field is present with exactly n records and the
    marked records carry the template's tokens (None = keep the generated token), which joined by blanks spell a line
    with a meaning elsewhere in the format; lk_fpos: [field, 'first' | 'middle' | 'last'] - where that field stands among
    the structured fields of the paragraph; lk_order: the look-alike fields in the order in which they follow each other
    in the paragraph."""
    table = mv.DOC[clsname]
    present = list(subset)
    force_single, mixed = set(), set()
    force = dict(force or {})
    lk = lk or {}
    if lk:
        bare = list(bare or ())
        for f in sorted(lk):
            if mode == 'text':
                force[f] = [lk[f]['layout'], lk[f]['n']]
            else:
                if f not in present:
                    present.append(f)
                if lk[f]['layout'] == 'bare':
                    bare.append(f)
    lpos = lpos or {}
    one = list(one or ())
    for f in one:
        if f not in present:
            present.append(f)
    if force:
        mode = 'text'
        for f in sorted(force):
            if f not in present:
                present.append(f)
    for f in sorted(lpos) + ([inject[0]] if inject else []):
        if f not in present:
            present.append(f)
    if tweak == 'pd-current-list':
        for f in r.sample(PD_CURRENT, r.choice([1, 2])):
            if f not in present:
                present.append(f)
            mixed.add(f)
    elif tweak == 'pd-single3':
        mode = 'text'
        three = [f for f in sorted(table) if pd_is_3col(f)]
        for f in r.sample(three, r.randint(1, 3)):
            if f not in present:
                present.append(f)
            force_single.add(f)
    if r.random() < 0.5:
        r.shuffle(present)
    if lk_fpos and len(present) > 1:
        present.remove(lk_fpos[0])
        present.insert({'first': 0, 'last': len(present)}.get(lk_fpos[1], (len(present) + 1) // 2), lk_fpos[0])
    if lk_order:
        slots = [i for i, f in enumerate(present) if f in lk_order]
        for i, f in zip(slots, lk_order):
            present[i] = f
    counts = {}
    for f in present:
        counts[f] = r.choice([1, 2, 2, 3, 4])
        if big and r.random() < 0.1:
            counts[f] = r.randint(5, 12)
        if f in mixed:
            counts[f] = r.choice([2, 2, 3, 4])
        if f in force_single or f in one:
            counts[f] = 1
        if f in lpos:
            counts[f] = lpos[f][0]
        if f in force:
            counts[f] = force[f][1]
        if f in lk:
            counts[f] = lk[f]['n']
    if present and r.random() < 0.85 and max(counts.values()) < 2:
        f = r.choice(present)
        if f not in force_single and f not in force and f not in one and f not in lk:
            counts[f] = r.randint(2, 4)
    items = []
    expect = {}
    for f in present:
        recs = gen_records(r, table[f], counts[f], inv_p)
        if f in mixed:
            mix_size_lengths(r, recs)
        if f in lpos:
            set_longest(r, recs, lpos[f][1])
        if inject and f == inject[0]:
            _, col, ch, pos, which = inject
            n = len(recs)
            i = (0 if which == 'first' else n - 1 if which == 'last' else
                 r.randint(1, n - 2) if (which == 'mid' and n >= 3) else r.randrange(n))
            tok = recs[i][col]
            if INV_RE.search(tok):
                tok = _gen_token(r, table[f][col])
            recs[i][col] = inv_inject(r, tok, ch, pos)
            assert mv.is_ws_free_token(recs[i][col])
        if f in lk:
            for (i, template, _) in lk[f]['marks']:
                recs[i] = [b if t is None else t for t, b in zip(template, recs[i])]
                assert len(recs[i]) == len(table[f]) and all(mv.is_ws_free_token(t) for t in recs[i]), recs[i]
        expect[f] = recs
        items.append([spell(r, f), 'records', f, recs])
    plain = r.sample(mv.PLAIN[clsname], r.randint(1, min(3, len(mv.PLAIN[clsname]))))
    for (k, v) in plain:
        items.insert(r.randint(0, len(items)), [k, 'plain', v])
    case = {'cls': clsname, 'behavior': behavior, 'mode': mode}
    if mode == 'text':
        forms = {}
        for f in present:
            if f in force:
                forms[f] = force[f][0]
            elif counts[f] == 1:
                forms[f] = 'single' if (r.random() < 0.5 or f in force_single) else 'multi'
            else:
                forms[f] = 'mixed' if r.random() < MIXED_P else 'multi'
        text = render_text(r, items, forms, tight=[f for f in lk if lk[f].get('tight') or
                                                    any(m[2].startswith('armor') for m in lk[f]['marks'])])
        # the structured field (if any) that is the last field of the paragraph text
        case['last_item'] = items[-1][2] if items[-1][1] == 'records' else None
        inputs = ['str', 'str', 'bytes', 'lines', 'lines_nonl', 'file', 'bfile']
        if clsname in ('Dsc', 'Changes', 'BuildInfo'):
            inputs.append('signed')
        case['input'] = r.choice(inputs)
        if input_form:
            case['input'] = input_form
        if case['input'] == 'signed':
            if lk:
                case['body'] = text
            text = sign(text)
        elif r.random() < 0.15:
            text = text[:-1]                    # no final newline
        case['text'] = text
        case['expect'] = expect
        case['forms'] = forms
    else:
        case['items'] = [[it[0], 'plain', it[2]] if it[1] == 'plain' else [it[0], 'records', it[2], it[3]]
                         for it in items]
        case['rectype'] = r.choice(['dict', 'dict', 'deb822dict'])
        case['int_sizes'] = r.random() < 0.25
        as_bare = sorted(f for f in present if counts[f] == 1 and
                         (f in (bare or ()) or (f not in one and f not in lk and bare_p and r.random() < bare_p)))
        if as_bare:
            case['bare'] = as_bare
    case['dump_via'] = r.choice(['str', 'str', 'str', 'fd_bytes', 'fd_text'])
    if dump_via:
        case['dump_via'] = dump_via
    if lk:
        # [field, record index, record count, look-alike class] per marked record, in the order of the paragraph; every
        # field name as written, in order
        case['lk'] = [[it[2], m[0], lk[it[2]]['n'], m[2]] for it in items if it[1] == 'records' and it[2] in lk
                      for m in sorted(lk[it[2]]['marks'], key=lambda m: m[0])]
        case['names'] = [it[0] for it in items]
    return case


# ---------------------------------------------------------------------------
# histories: the record model as a mutable state, shared by generator and oracle

VIAS = ['str', 'str', 'str', 'fd_bytes', 'fd_text']
BEHAVIORS = ('apt-ftparchive', 'dak')


def initial_state(case):
    """Model state of a freshly parsed / built object: records per present field, the form in which the
    library holds the field ('single' = one mapping, parsed from a record on the field line; 'list'),
    and the current size_field_behavior."""
    if case['mode'] == 'text':
        recs = copy.deepcopy(case['expect'])
        form = dict((f, 'single' if v == 'single' else 'list') for f, v in case['forms'].items())
        mixed = set(f for f, v in case['forms'].items() if v == 'mixed')
    else:
        recs, form, mixed = {}, {}, set()
        for it in case['items']:
            if it[1] == 'records':
                recs[it[2]] = copy.deepcopy(it[3])
                form[it[2]] = 'single' if it[2] in case.get('bare', ()) else 'list'
    # 'mixed': fields whose value still is the one parsed from the mixed text layout (not re-assigned since)
    return {'recs': recs, 'form': form, 'behavior': case['behavior'], 'mixed': mixed}


def model_apply(state, op, table):
    """Effect of one mutation on the record model."""
    k = op[0]
    if k == 'behavior':
        state['behavior'] = op[1]
    elif k == 'assign':
        state['recs'][op[2]] = [list(x) for x in op[3]]
        state['form'][op[2]] = 'list'
        state['mixed'].discard(op[2])
    elif k == 'delete':
        del state['recs'][op[2]]
        del state['form'][op[2]]
        state['mixed'].discard(op[2])
    elif k == 'append':
        state['recs'][op[2]].append(list(op[3]))
    elif k == 'insert':
        state['recs'][op[2]].insert(op[3], list(op[4]))
    elif k == 'pop':
        state['recs'][op[2]].pop(op[3])
    elif k == 'set':
        state['recs'][op[2]][op[3]][table[op[2]].index(op[4])] = op[5]
    else:
        raise ValueError('unknown history op %r' % (op,))


def op_kind(op, state):
    """Counter name of a mutation, decided BEFORE it is applied to the model."""
    if op[0] == 'assign':
        return 'reassign' if op[2] in state['recs'] else 'add-absent'
    if op[0] == 'set':
        return 'set-size' if op[4] == 'size' else 'set-token'
    return op[0]


# coarse class of a mutation kind: suffix of the mechanism key of a judgement made after it
OP_CLASS = {'behavior': 'behavior-switch', 'reassign': 'field-assignment', 'add-absent': 'field-assignment',
            'delete': 'field-deletion', 'append': 'in-place-edit', 'insert': 'in-place-edit', 'pop': 'in-place-edit',
            'set-size': 'in-place-edit', 'set-token': 'in-place-edit'}


def _maxlen(recs):
    return max(len(x[1]) for x in recs)


def gen_new_size(r, recs, bias):
    """A size token that is longer than every size of `recs` ('longer'), shorter than the longest
    ('shorter'), or unrelated."""
    cur = _maxlen(recs) if recs else 1
    if bias == 'longer':
        return size_of_len(r, min(cur + r.choice([1, 1, 2, 3, 5]), 24))
    if bias == 'shorter' and cur > 1:
        return size_of_len(r, r.randint(1, cur - 1))
    if r.random() < 0.5:
        return size_of_len(r, r.choice([14, 15, 16, 16, 17, 18]))        # around the fixed width
    return gen_size(r)


def gen_mutation(r, clsname, state, inv_p=None):
    table = mv.DOC[clsname]
    present = sorted(state['recs'])
    absent = [f for f in sorted(table) if f not in state['recs']]
    lists = [f for f in present if state['form'][f] == 'list']
    poppable = [f for f in lists if len(state['recs'][f]) >= 2]
    menu = []
    if clsname == 'Release':
        menu += ['behavior'] * 5
    if present:
        menu += ['reassign'] * 3 + ['delete'] * 2 + ['set-size'] * 3 + ['set-token']
    if absent:
        menu += ['add-absent'] * 2
    if lists:
        menu += ['append'] * 3 + ['insert']
    if poppable:
        menu += ['pop'] * 3
    kind = r.choice(menu)
    rectype = r.choice(['dict', 'dict', 'deb822dict'])
    as_int = r.random() < 0.25
    if kind == 'behavior':
        other = [b for b in BEHAVIORS if b != state['behavior']]
        to = other[0] if r.random() < 0.9 else state['behavior']
        return ['behavior', to, r.choice(['attr', 'attr', 'setter'])]
    if kind in ('reassign', 'add-absent'):
        f = r.choice(present if kind == 'reassign' else absent)
        n = r.choice([1, 2, 2, 3, 4])
        recs = gen_records(r, table[f], n, inv_p)
        old = state['recs'].get(f, [])
        bias = r.choice(['longer', 'shorter', 'mixed', 'random'])
        if bias == 'longer' and old:
            recs[r.randrange(n)][1] = gen_new_size(r, old, 'longer')
        elif bias == 'shorter' and old and _maxlen(old) > 1:
            for rec in recs:
                rec[1] = gen_new_size(r, old, 'shorter')
        elif bias == 'mixed' and n >= 2:
            mix_size_lengths(r, recs)
        return ['assign', spell(r, f), f, recs, rectype, as_int]
    if kind == 'delete':
        f = r.choice(present)
        return ['delete', spell(r, f), f, r.choice(['del', 'del', 'pop'])]
    if kind in ('append', 'insert'):
        f = r.choice(lists)
        rec = gen_records(r, table[f], 1, inv_p)[0]
        if not INV_RE.search(rec[1]):
            rec[1] = gen_new_size(r, state['recs'][f], r.choice(['longer', 'longer', 'shorter', 'random']))
        if kind == 'append':
            return ['append', spell(r, f), f, rec, rectype, as_int]
        return ['insert', spell(r, f), f, r.randint(0, len(state['recs'][f])), rec, rectype, as_int]
    if kind == 'pop':
        f = r.choice(poppable)
        recs = state['recs'][f]
        longest = [i for i, x in enumerate(recs) if len(x[1]) == _maxlen(recs)]
        idx = r.choice(longest) if r.random() < 0.6 else r.randrange(len(recs))
        return ['pop', spell(r, f), f, idx]
    f = r.choice(present)
    recs = state['recs'][f]
    if kind == 'set-size':
        longest = [i for i, x in enumerate(recs) if len(x[1]) == _maxlen(recs)]
        k = r.random()
        if k < 0.45:
            idx, tok = r.randrange(len(recs)), gen_new_size(r, recs, 'longer')
        elif k < 0.85:
            idx, tok = r.choice(longest), gen_new_size(r, recs, 'shorter')
        else:
            idx, tok = r.randrange(len(recs)), gen_new_size(r, recs, 'random')
        if r.random() < (INV_P if inv_p is None else inv_p):
            tok = inv_inject(r, tok, r.choice(INV_CORE), r.choice(['start', 'mid', 'end']))
        return ['set', spell(r, f), f, idx, 'size', tok, as_int]
    subs = [x for x in table[f] if x != 'size']
    sub = r.choice(subs)
    return ['set', spell(r, f), f, r.randrange(len(recs)), sub, gen_token(r, sub, inv_p), False]


def gen_history(r, clsname, behavior):
    """One object, 2..4 dumps, 0..3 public-API mutations before each dump.  One history in four draws its
    tokens (initial records and mutation arguments) with a raised share of invisible / format characters."""
    table = mv.DOC[clsname]
    fields = sorted(table)
    p = r.choice([0.2, 0.5, 0.5, 0.8, 1.0])
    sub = [f for f in fields if r.random() < p]
    tweak = None
    if clsname == 'PdiffIndex':
        tweak = r.choice([None, None, 'pd-current-list', 'pd-single3'])
    inv_p = r.choice([None, None, None, 0.3])
    case = gen_case(r, clsname, behavior, sub, r.choice(['text', 'build']), tweak=tweak, inv_p=inv_p)
    del case['dump_via']
    state = initial_state(case)
    ops = []
    ndumps = r.choice([2, 2, 3, 3, 4])
    for d in range(ndumps):
        if d == 0:
            nmut = 1 if r.random() < 0.3 else 0
        else:
            nmut = 0 if r.random() < 0.06 else r.choice([1, 1, 1, 2, 2, 3])
        for _ in range(nmut):
            op = gen_mutation(r, clsname, state, inv_p)
            model_apply(state, op, table)
            ops.append(op)
        ops.append(['dump', r.choice(VIAS)])
    case['ops'] = ops
    return case


HIST_CONFIGS = ([('Release', 'apt-ftparchive')] * 3 + [('Release', 'dak')] * 3 + [('PdiffIndex', None)] * 4 +
                [('Dsc', None), ('Changes', None), ('BuildInfo', None)])


def enumerated(seed, tier):
    """Deterministic (per seed, tier) list of (clsname, behavior, subset, mode, rep); every shard
    builds the same list and takes its share."""
    r = random.Random('C12-enum/%d/%s' % (seed, tier))
    out = []
    for clsname, behavior in mv.CONFIGS:
        fields = sorted(mv.DOC[clsname])
        if clsname != 'PdiffIndex':
            for k in range(len(fields) + 1):
                for sub in itertools.combinations(fields, k):
                    for mode in ('text', 'build'):
                        for rep in range(REPS4[tier]):
                            out.append((clsname, behavior, sub, mode, rep))
        else:
            subs = []
            for k in range(PD_MAXK[tier] + 1):
                subs.extend(itertools.combinations(fields, k))
            subs.append(tuple(fields))
            subs.extend(itertools.combinations(fields, len(fields) - 1))
            for _ in range(PD_RANDOM[tier]):
                k = r.randint(PD_MAXK[tier] + 1, len(fields) - 1)
                subs.append(tuple(sorted(r.sample(fields, k))))
            for sub in subs:
                for mode in ('text', 'build'):
                    for rep in range(PD_REPS[tier]):
                        out.append((clsname, behavior, sub, mode, rep))
    return out


def mixed_enumerated():
    """(clsname, behavior, field, nrecords) for every structured field of every configuration x 2..4 records."""
    out = []
    for clsname, behavior in mv.CONFIGS:
        for f in sorted(mv.DOC[clsname]):
            for n in (2, 3, 4):
                out.append((clsname, behavior, f, n))
    return out


INPUT_FORMS = ['str', 'bytes', 'lines', 'lines_nonl', 'file', 'bfile', 'str']
DUMP_VIAS = ['str', 'fd_bytes', 'fd_text']


def input_forms_of(clsname):
    return INPUT_FORMS + (['signed'] if clsname in ('Dsc', 'Changes', 'BuildInfo') else [])


def inv_chars(tier):
    return INV_CORE if tier == 'quick' else INV_ALL


def inv_enumerated(tier):
    """(clsname, behavior, field, column, character, position, mode, (fc, ci, pi)) for every sub-field column of
    every structured field of every configuration x every invisible character x start / mid / end plus one of
    whole / both x {text, build}; (fc, ci, pi) = running indices of column, character and position, from which
    inv_knobs() rotates input form, dump route, carrying record and text layout."""
    out = []
    chars = inv_chars(tier)
    for clsname, behavior in mv.CONFIGS:
        fc = 0
        for f in sorted(mv.DOC[clsname]):
            for col in range(len(mv.DOC[clsname][f])):
                for ci, ch in enumerate(chars):
                    for pi in range(4):
                        pos = INV_POS[pi] if pi < 3 else INV_POS[3 + (fc + ci) % 2]
                        for mode in ('text', 'build'):
                            out.append((clsname, behavior, f, col, ch, pos, mode, (fc, ci, pi)))
                fc += 1
    return out


def inv_knobs(clsname, fc, ci, pi, rep):
    """Deterministic rotation of input form, dump route, which record carries the token and (text) the layout
    of the field, arranged so that every (configuration, input form), (character, input form), (position,
    input form), (character, dump route), (position, layout) and (layout, carrying record) combination occurs
    within one repetition, and further repetitions shift every knob."""
    forms = input_forms_of(clsname)
    return {'input': forms[(ci + pi + 3 * fc + rep) % len(forms)],
            'via': DUMP_VIAS[(ci + pi + fc + rep) % 3],
            'which': INV_WHICH[(fc + ci + pi // 2 + rep // 2) % 4],
            'layout': (ci + 2 * pi + fc + rep) % 4,
            'n': 2 + (fc + ci + pi + rep // 4) % 3}


def gen_inv_enum_case(r, item, rep=0):
    clsname, behavior, f, col, ch, pos, mode, (fc, ci, pi) = item
    knobs = inv_knobs(clsname, fc, ci, pi, rep)
    others = [x for x in sorted(mv.DOC[clsname]) if x != f]
    p = r.choice([0.0, 0.15, 0.5, 0.85])
    sub = [x for x in others if r.random() < p]
    inject = [f, col, ch, pos, knobs['which']]
    if mode == 'text':
        n = knobs['n']
        force = {f: [['single', 1], ['multi', 1], ['multi', n], ['mixed', n]][knobs['layout']]}
        case = gen_case(r, clsname, behavior, sub, 'text', force=force, inject=inject,
                        input_form=knobs['input'], dump_via=knobs['via'])
    else:
        case = gen_case(r, clsname, behavior, sub, 'build', inject=inject, dump_via=knobs['via'])
    case['wl'] = ['inv-enum', f, mv.DOC[clsname][f][col], inv_name(ch), pos]
    return case


def lpos_enumerated():
    """(clsname, behavior, field, nrecords, where, mode): every structured field of every configuration x
    2..6 records x the strictly longest size in the first / the last / a middle record x {text, build}."""
    out = []
    for clsname, behavior in mv.CONFIGS:
        for f in sorted(mv.DOC[clsname]):
            for n in LPOS_N:
                for where in LPOS_WHERE:
                    if where == 'middle' and n < 3:
                        continue
                    for mode in ('text', 'build'):
                        out.append((clsname, behavior, f, n, where, mode))
    return out


# SINGLE-RECORD FIELDS in both value shapes.  The library distinguishes a one-record form for EVERY structured field of
# every class: a record on the field line is exposed as the bare record (a mapping), one record on a continuation line
# as a list holding it; para[f] = rec is dumped on the field line, para[f] = [rec] on a continuation line.
ONE_SHAPES = ('text-single', 'text-multi', 'build-list', 'build-bare')
ONE_REPS = {'quick': 3, 'thorough': 60}        # per (config, structured field, shape)


def one_enumerated():
    """(clsname, behavior, field, shape) for every structured field of every configuration x the four ways a field
    with exactly one record comes about."""
    out = []
    for clsname, behavior in mv.CONFIGS:
        for f in sorted(mv.DOC[clsname]):
            for shape in ONE_SHAPES:
                out.append((clsname, behavior, f, shape))
    return out


def gen_one_case(r, item, rep, idx):
    """The field has exactly one record in the given shape; the other structured fields are absent (every third
    repetition), or a random subset of them is present with 1..4 records, or with one record each in a shape of
    its own.  Input form and dump route rotate with the running index."""
    clsname, behavior, f, shape = item
    others = [x for x in sorted(mv.DOC[clsname]) if x != f]
    p = (0.0, 0.5, 0.85)[rep % 3]
    sub = [x for x in others if r.random() < p]
    all_one = bool(sub) and r.random() < 0.4
    forms = input_forms_of(clsname)
    via = DUMP_VIAS[(idx + rep) % 3]
    if shape.startswith('text-'):
        force = {f: [shape[5:], 1]}
        if all_one:
            for x in sub:
                force[x] = [r.choice(['single', 'multi']), 1]
        case = gen_case(r, clsname, behavior, sub, 'text', force=force, input_form=forms[(idx + rep) % len(forms)],
                        dump_via=via)
    else:
        bare = ([f] if shape == 'build-bare' else []) + [x for x in sub if all_one and r.random() < 0.5]
        case = gen_case(r, clsname, behavior, sub, 'build', one=[f] + (sub if all_one else []),
                        bare=bare, bare_p=0.5, dump_via=via)
    case['wl'] = ['one', f, shape]
    return case


# ---------------------------------------------------------------------------
# RECORD TOKENS THAT TOGETHER SPELL A LINE WITH A MEANING ELSEWHERE IN THE FORMAT.  A record line is the record's tokens
# joined by blanks behind the indentation (or behind "Field:" for a record on the field line).  Each token below is an
# ordinary non-empty whitespace-free token - the domain of the property - but JOINED they read like an OpenPGP armor
# line, a field line, a comment line, a line whose first token is '.', or a line starting with '-' / '+' (dash-escaping
# of clear-signed text, diff markers).  A template has one entry per sub-field column; None keeps the generated token.
LK_CLASSES = ('armor-begin-signature', 'armor-end-signature', 'armor-begin-message', 'field-line', 'comment', 'dot',
              'dash', 'plus')
LK_ARMOR = {
    'armor-begin-signature': {
        3: [['-----BEGIN', 'PGP', 'SIGNATURE-----']],
        5: [['-----BEGIN', 'PGP', 'PUBLIC', 'KEY', 'BLOCK-----'], ['-----BEGIN', 'PGP', 'SIGNATURE-----', None, None],
            [None, None, '-----BEGIN', 'PGP', 'SIGNATURE-----']]},
    'armor-end-signature': {
        3: [['-----END', 'PGP', 'SIGNATURE-----']],
        5: [['-----END', 'PGP', 'PUBLIC', 'KEY', 'BLOCK-----'], ['-----END', 'PGP', 'SIGNATURE-----', None, None],
            [None, None, '-----END', 'PGP', 'SIGNATURE-----']]},
    # '-----BEGIN PGP SIGNED MESSAGE-----' has four tokens: it fits (with one more token before / behind it, or with its
    # dashes as a token of their own) only where the field has more than three columns; the three-column fields get the
    # three-token armor header of an OpenPGP message instead
    'armor-begin-message': {
        3: [['-----BEGIN', 'PGP', 'MESSAGE-----'], ['-----END', 'PGP', 'MESSAGE-----']],
        5: [['-----BEGIN', 'PGP', 'SIGNED', 'MESSAGE-----', None], [None, '-----BEGIN', 'PGP', 'SIGNED', 'MESSAGE-----'],
            ['-----BEGIN', 'PGP', 'SIGNED', 'MESSAGE', '-----']]},
}
LK_FIRST = {
    'comment': ['#', '#x', '##', '#Files:', '#-----BEGIN'],
    'dash': ['-', '--', '---', '-----', '-x', '-1', '-----BEGIN'],
    'plus': ['+', '++', '+++', '+x', '+1'],
}
LK_SHAPES = (('text', 'single', 'only'), ('text', 'multi', 'only'), ('text', 'multi', 'first'), ('text', 'multi', 'middle'),
             ('text', 'multi', 'last'), ('text', 'mixed', 'first'), ('text', 'mixed', 'middle'), ('text', 'mixed', 'last'),
             ('build', 'list', 'only'), ('build', 'list', 'first'), ('build', 'list', 'middle'), ('build', 'list', 'last'),
             ('build', 'bare', 'only'))
LK_REPS = {'quick': 1, 'thorough': 4}           # per enumerated item (see lk_enumerated)
LK_PAR = {'quick': 160, 'thorough': 8000}      # paragraphs with several such records
LK_BASE_FORMS = ('str', 'bytes', 'lines', 'lines_nonl', 'file', 'bfile')
LK_ITER_FORMS = ('iter-str', 'iter-lines', 'iter-bfile')


def lk_templates(clsname, f, c):
    """The templates of look-alike class `c` that fit structured field `f` of the class ([] = none fits: an armor line
    needs at least three tokens)."""
    n = len(mv.DOC[clsname][f])
    rest = [None] * (n - 1)
    if c in LK_ARMOR:
        return LK_ARMOR[c].get(n, [])
    if c == 'field-line':
        other = [x for x in sorted(mv.DOC[clsname]) if x != f][0]
        firsts = ['Files:', 'Name:', mv.DISPLAY[f] + ':', mv.DISPLAY[other] + ':', mv.PLAIN[clsname][0][0] + ':', 'X-Foo:',
                  'Files:x']
        out = [[t] + rest for t in firsts]
        out.append(['Files', ':'] + [None] * (n - 2))
        return out
    if c == 'dot':
        out = [['.'] + rest, ['.'] * n, rest + ['.']]
        if n > 2:
            out.append(['.', '.'] + [None] * (n - 2))
        return out
    out = [[t] + rest for t in LK_FIRST[c]]
    if c == 'dash':
        # the shape dash-escaping gives an armor line inside clear-signed text
        out.append((['-', '-----BEGIN', 'PGP', 'SIGNATURE-----'] + [None] * n)[:n] if n != 3 else ['-', '-----BEGIN', None])
    return out


def lk_enumerated(tier):
    """(clsname, behavior, field, look-alike class, (mode, layout, position of the record), running index, rep):
    every configuration x look-alike class x shape - thorough: x every structured field the class fits; quick: the
    field rotates with the running index - x LK_REPS."""
    out = []
    k = 0
    for clsname, behavior in mv.CONFIGS:
        fields = sorted(mv.DOC[clsname])
        for c in LK_CLASSES:
            cand = [f for f in fields if lk_templates(clsname, f, c)]
            for shape in LK_SHAPES:
                for rep in range(LK_REPS[tier]):
                    for f in (cand if tier != 'quick' else [cand[(k + rep) % len(cand)]]):
                        out.append((clsname, behavior, f, c, shape, k, rep))
                k += 1
    return out


def gen_lk_case(r, item):
    clsname, behavior, f, c, (mode, layout, pos), k, rep = item
    templates = lk_templates(clsname, f, c)
    template = templates[(k + k // len(LK_SHAPES) + rep) % len(templates)]
    n = 1 if pos == 'only' else (2 if pos != 'middle' else 3) + (k + rep) % 2
    idx = 0 if pos in ('only', 'first') else n - 1 if pos == 'last' else 1 + (k % 2 if n > 3 else 0)
    others = [x for x in sorted(mv.DOC[clsname]) if x != f]
    p = (0.5, 0.0, 0.85, 1.0)[(k + rep) % 4]
    sub = [x for x in others if r.random() < p]
    if len(sub) > 3:
        sub = r.sample(sub, 3)              # PdiffIndex: keep the paragraph (read back 7..20 times) small
    forms = input_forms_of(clsname)
    case = gen_case(r, clsname, behavior, sub, mode,
                    lk={f: {'n': n, 'layout': layout, 'marks': [[idx, template, c]], 'tight': (k + rep) % 3 != 0}},
                    lk_fpos=[f, ('first', 'middle', 'last')[(k // 2 + rep) % 3]],
                    input_form=forms[(k + rep) % len(forms)], dump_via=DUMP_VIAS[(k // 2 + rep) % 3])
    case['wl'] = ['lk', f, c, '%s-%s-%s' % (mode, layout, pos)]
    return case


def gen_lk_paragraph(r, clsname, behavior):
    """A paragraph in which several records of several fields are look-alikes of (mostly different) classes; in four
    of ten the first marked record reads like an armor BEGIN line and the last one like an armor END line."""
    fields = sorted(mv.DOC[clsname])
    chosen = r.sample(fields, r.randint(2, 4) if len(fields) <= 4 else r.choice([2, 3, 4, 6, 8]))
    mode = r.choice(['text', 'text', 'text', 'build', 'build'])
    lk = {}
    marks = []
    for f in chosen:
        n = r.choice([1, 2, 2, 3, 3, 4])
        if mode == 'text':
            layout = r.choice(['single', 'multi']) if n == 1 else r.choice(['multi', 'multi', 'mixed'])
        else:
            layout = r.choice(['list', 'list', 'bare']) if n == 1 else 'list'
        lk[f] = {'n': n, 'layout': layout, 'marks': [], 'tight': r.random() < 0.7}
        for i in range(n):
            if r.random() < 0.55:
                marks.append((f, i))
    while len(marks) < 2:
        f = r.choice(chosen)
        i = r.randrange(lk[f]['n'])
        if (f, i) not in marks:
            marks.append((f, i))
        elif all((g, j) in marks for g in chosen for j in range(lk[g]['n'])):
            break
    marks.sort(key=lambda m: (chosen.index(m[0]), m[1]))
    paired = r.random() < 0.4
    for j, (f, i) in enumerate(marks):
        classes = [c for c in LK_CLASSES if lk_templates(clsname, f, c)]
        c = r.choice(classes)
        if paired and j == 0 and 'armor-begin-signature' in classes:
            c = r.choice(['armor-begin-signature', 'armor-begin-message'])
        elif paired and j == len(marks) - 1 and 'armor-end-signature' in classes:
            c = 'armor-end-signature'
        lk[f]['marks'].append([i, r.choice(lk_templates(clsname, f, c)), c])
    lk = dict((f, v) for f, v in lk.items() if v['marks'])
    others = [f for f in fields if f not in lk]
    p = r.choice([0.0, 0.3, 0.7])
    sub = [f for f in chosen if f not in lk] + [f for f in others if f not in chosen and r.random() < p]
    case = gen_case(r, clsname, behavior, sub, mode, lk=lk, lk_order=[f for f in chosen if f in lk])
    case['wl'] = ['lk-par']
    return case


def gen_mixed_paragraph(r, clsname, behavior):
    """One parsed paragraph with >= 2 structured fields, at least one of them in the mixed layout and (mostly)
    the others in the two classic layouts."""
    fields = sorted(mv.DOC[clsname])
    k = r.randint(2, 4) if len(fields) <= 4 else r.choice([2, 3, 3, 4, 5, 6, 8, 14])
    chosen = r.sample(fields, k)
    style = r.choice(['free', 'free', 'free', 'all-mixed', 'mixed+single', 'mixed+multi'])
    force = {}
    for i, f in enumerate(chosen):
        if i == 0 or style == 'all-mixed':
            form = 'mixed'
        elif style == 'mixed+single':
            form = r.choice(['single', 'single', 'mixed'])
        elif style == 'mixed+multi':
            form = r.choice(['multi', 'multi1', 'mixed'])
        else:
            form = r.choice(['single', 'multi', 'multi1', 'mixed'])
        if form == 'single':
            force[f] = ['single', 1]
        elif form == 'multi1':
            force[f] = ['multi', 1]
        else:
            force[f] = [form, r.choice([2, 2, 3, 4])]
    return gen_case(r, clsname, behavior, [], 'text', force=force)


# ---------------------------------------------------------------------------
# BUILD ROUTES: a paragraph "built from a list of records" that is NOT built by assigning one finished list.
# A route case (case['mode'] == 'route') is a list of primitive steps, run on the live object and on the record
# model side by side; every dump (intermediate ones and the final one) is judged exactly as for the finished-list
# route (dump returns, width rule, re-parse gives the model's records).
#
#   ['new', how, items]             how: 'empty' = cls() | 'mapping' = cls(m) | 'kw' = cls(sequence=m) |
#                                   'deb822dict' = cls(Deb822Dict(m)); items: [key, 'plain', value] |
#                                   [key, 'records', field, chunks] | [key, 'text', field, records, layout, value string]
#   ['behavior', value, 'attr' | 'setter']
#   ['plain', key, value, how]      how: setitem | update | setdefault
#   ['put', key, field, how, chunks, alias]   how: setitem | update-mapping | update-pairs | update-kw | setdefault;
#                                   chunks may be [] (the empty list the field starts from); alias: hand over the
#                                   very list object of another parsed paragraph
#   ['grow', key, field, access, method, chunks]   access: 'getitem' | 'get' | 'held' | ['setdefault', chunks];
#                                   method: append | extend | extend-gen | insert0 | iadd | concat | slice
#   ['hold', key, field, access]    keep the list the access returns; later 'held' grows go through it
#   ['read', key, field, how]       see ROUTE_READS_*; changes nothing in the model
#   ['update-from', source index]   obj.update(<another parsed paragraph of the same class>)
#   ['delete', key, field, 'del' | 'pop']
#   ['callerlist', key, field, chunks before, chunks after]   lst = [..]; probe[key] = lst; lst.extend(..) on a
#                                   THROW-AWAY object: counted, never judged
#   ['dump', via]                   intermediate dump (judged)
#
# chunk: ['new', tokens, rectype, int size?] (one record made by the caller) or ['src', source index, source field,
# selection, how] (records of the library's own making, taken out of another parsed paragraph: selection
# ['idx', [i..]] | ['slice', a, b, step] | ['reversed'] | ['sorted', column] | ['filter-len', column, k] | ['whole'];
# how: same (the object itself) | dict (dict(r)) | copy (r.copy()) | deb822dict (Deb822Dict(r)) | items
# (dict(r.items()))).

ROUTE_TEMPLATES = ('empty+append', 'empty+extend', 'empty+insert0', 'empty+iadd', 'empty+get.append', 'empty+held',
                   'setdefault.append', 'setdefault.extend', 'setdefault-held', 'setdefault-rec0', 'setdefault-put',
                   'update-mapping', 'update-pairs', 'update-kw', 'update-empty+append', 'first+grow', 'concat',
                   'ctor-records', 'ctor-text', 'from-paragraph', 'foreign-list', 'rebuilt-after-delete',
                   'reset-to-empty+append', 'setitem')
ROUTE_RANDOM_MENU = ROUTE_TEMPLATES + ('empty+append', 'setdefault.append', 'setdefault-held', 'setdefault-rec0',
                                       'first+grow', 'empty+held')
ROUTE_NEW_HOWS = ('mapping', 'kw', 'deb822dict')
ROUTE_RECTYPES = ('dict', 'dict', 'dict', 'deb822dict', 'deb822dict', 'dict-rev', 'deb822dict-pairs', 'deb822dict-rev',
                  'ordereddict')
ROUTE_SRC_HOWS = ('same', 'same', 'dict', 'copy', 'deb822dict', 'items')
ROUTE_READS_LIST = ('getitem', 'get', 'get-default', 'len', 'bool', 'iter', 'list-copy', 'contains')  # held as a list
ROUTE_READS_NONEMPTY = ('rec-read', 'rec-read')                                                # ... with >= 1 record
ROUTE_READS_PRESENT = ('getitem', 'get', 'get-default', 'contains')                            # any present field
ROUTE_READS_ABSENT = ('getitem-absent', 'get', 'get-default', 'contains')                      # absent field
ROUTE_READS_OBJECT = ('items', 'values', 'keys', 'len-obj', 'repr', 'dict', 'eq')              # whole paragraph
ROUTE_READS_DUMPABLE = ('get_as_string', 'str')         # only when every present structured field has >= 1 record
ROUTE_ENUM_REPS = {'quick': 2, 'thorough': 100}         # per (config, structured field, template)
ROUTE_RANDOM = {'quick': 2600, 'thorough': 140000}      # random route paragraphs (every field its own route)
ROUTE_DECOY_SIZE = '9' * 21                             # size of a record that must never show up


def route_compat(clsname, f):
    """[(class, field)] whose documented sub-field names are exactly those of `f` (records are interchangeable)."""
    names = mv.DOC[clsname][f]
    return [(c2, f2) for c2 in sorted(mv.DOC) for f2 in sorted(mv.DOC[c2]) if mv.DOC[c2][f2] == names]


def route_sel_indices(sel, recs):
    n = len(recs)
    k = sel[0]
    if k == 'idx':
        return list(sel[1])
    if k == 'slice':
        return list(range(n))[slice(sel[1], sel[2], sel[3])]
    if k == 'reversed':
        return list(range(n - 1, -1, -1))
    if k == 'sorted':
        return sorted(range(n), key=lambda i: recs[i][sel[1]])
    if k == 'filter-len':
        return [i for i in range(n) if len(recs[i][sel[1]]) <= sel[2]]
    if k == 'whole':
        return list(range(n))
    raise ValueError('unknown selection %r' % (sel,))


def route_tokens(case, chunks):
    """Model side of a chunk list: the token lists it stands for."""
    out = []
    for ch in chunks:
        if ch[0] == 'new':
            out.append(list(ch[1]))
        else:
            recs = case['srcs'][ch[1]]['expect'][ch[2]]
            out.extend(list(recs[i]) for i in route_sel_indices(ch[3], recs))
    return out


def route_model(state, step, case, outcome=None):
    """Effect of one route step on the record model."""
    recs, form = state['recs'], state['form']
    k = step[0]
    if k == 'new':
        for it in step[2]:
            if it[1] == 'records':
                recs[it[2]] = route_tokens(case, it[3])
                form[it[2]] = 'list'
            elif it[1] == 'text':
                f = it[2]
                as_parsed = outcome is None or outcome.get(f, True)
                recs[f] = [list(x) for x in it[3]]
                form[f] = 'single' if (it[4] == 'single' and as_parsed) else 'list'
                if it[4] == 'mixed' and as_parsed:
                    state['mixed'].add(f)
    elif k == 'behavior':
        state['behavior'] = step[1]
    elif k == 'put':
        f, how, chunks = step[2], step[3], step[4]
        if how == 'setdefault' and f in recs:
            return                                  # mapping contract: a present key keeps its value
        recs[f] = route_tokens(case, chunks)
        form[f] = 'list'
        state['mixed'].discard(f)
    elif k in ('grow', 'hold'):
        f, access = step[2], step[3]
        if isinstance(access, list) and f not in recs:
            recs[f] = route_tokens(case, access[1])    # setdefault on an absent key stores the default
            form[f] = 'list'
        if k == 'grow':
            new = route_tokens(case, step[5])
            if step[4] == 'insert0':
                for x in new:
                    recs[f].insert(0, x)
            else:
                recs[f].extend(new)
    elif k == 'update-from':
        s = case['srcs'][step[1]]
        for f2, rr in s['expect'].items():
            recs[f2] = [list(x) for x in rr]
            form[f2] = 'single' if s['forms'][f2] == 'single' else 'list'
            state['mixed'].discard(f2)
            if s['forms'][f2] == 'mixed':
                state['mixed'].add(f2)
    elif k == 'delete':
        del recs[step[2]]
        del form[step[2]]
        state['mixed'].discard(step[2])
    elif k in ('plain', 'read', 'callerlist', 'dump'):
        pass
    else:
        raise ValueError('unknown route step %r' % (step,))


def route_dumpable(state):
    """Inside the domain of a dump: every present structured field has >= 1 record."""
    return all(state['recs'].values())


def route_state(case):
    return {'recs': {}, 'form': {}, 'behavior': 'apt-ftparchive' if case['cls'] == 'Release' else None,
            'mixed': set(), 'route': dict(case.get('templates', {}))}


def step_tag(step):
    k = step[0]
    if k == 'put':
        return 'put:%s%s' % (step[3], '' if step[4] else ':empty-list')
    if k == 'grow':
        return 'grow:%s.%s' % (step[3] if isinstance(step[3], str) else 'setdefault', step[4])
    if k == 'hold':
        return 'hold:%s' % (step[3] if isinstance(step[3], str) else 'setdefault')
    if k in ('read', 'plain', 'delete'):
        return '%s:%s' % (k, step[3])
    if k == 'new':
        return 'new:%s' % step[1]
    return k


def _route_source(r, clsname, behavior, fields, inv_p=None):
    """One parsed paragraph (text + expected records) other records are taken from."""
    c = gen_case(r, clsname, behavior, list(fields), 'text', inv_p=inv_p)
    return {'cls': clsname, 'behavior': behavior, 'text': c['text'], 'input': c['input'], 'expect': c['expect'],
            'forms': c['forms'], 'dump_first': r.choice([None, None, 'str', 'fd_bytes'])}


def _route_new_chunk(r, names, inv_p=None):
    return ['new', [gen_token(r, sub, inv_p) for sub in names], r.choice(ROUTE_RECTYPES), r.random() < 0.25]


def _route_src_chunk(r, srcs, usable, ncols):
    si, f2 = r.choice(usable)
    recs = srcs[si]['expect'][f2]
    n = len(recs)
    k = r.random()
    if k < 0.5 or n == 1:
        sel = ['idx', [r.randrange(n)]]
    elif k < 0.6:
        sel = ['idx', r.sample(range(n), r.randint(1, n))]
    elif k < 0.7:
        sel = ['slice', r.choice([None, 0, 1, -1, -2]), r.choice([None, None, n, -1, 1, 2]),
               r.choice([None, None, 1, 2, -1])]
    elif k < 0.8:
        sel = ['reversed']
    elif k < 0.88:
        sel = ['sorted', r.randrange(ncols)]
    elif k < 0.95:
        col = r.randrange(ncols)
        sel = ['filter-len', col, r.choice(sorted(set(len(x[col]) for x in recs)))]
    else:
        sel = ['whole']
    return ['src', si, f2, sel, r.choice(ROUTE_SRC_HOWS)]


def _split_groups(r, units):
    """units -> 1..3 consecutive non-empty groups."""
    if len(units) <= 1 or r.random() < 0.4:
        return [list(units)] if units else []
    cuts = sorted(r.sample(range(1, len(units)), min(len(units) - 1, r.choice([1, 1, 2]))))
    out, prev = [], 0
    for c in cuts + [len(units)]:
        out.append(list(units[prev:c]))
        prev = c
    return out


def route_field_steps(r, f, names, units, template, list_form=True):
    """The steps that fill structured field `f` with `units` (a chunk list) along `template`."""
    key = lambda: spell(r, f)
    put = lambda how, chunks, alias=False: ['put', key(), f, how, list(chunks), alias]
    grow = lambda access, method, chunks: ['grow', key(), f, access, method, list(chunks)]
    whole_how = lambda: r.choice(['setitem', 'setitem', 'setitem', 'update-mapping', 'update-pairs', 'update-kw',
                                  'setdefault'])
    t = template
    if t == 'setitem':
        return [put('setitem', units)]
    if t in ('update-mapping', 'update-pairs', 'update-kw'):
        return [put(t, units)]
    if t == 'setdefault-put':
        return [put('setdefault', units)]
    if t == 'foreign-list':
        return [put(r.choice(['setitem', 'setitem', 'update-mapping', 'update-kw', 'setdefault']), units, True)]
    if t in ('empty+append', 'update-empty+append'):
        how0 = 'setitem' if t == 'empty+append' else r.choice(['update-mapping', 'update-pairs', 'update-kw',
                                                                'setdefault'])
        return [put(how0, [])] + [grow('getitem', 'append', [u]) for u in units]
    if t == 'empty+extend':
        return [put(whole_how(), [])] + [grow('getitem', r.choice(['extend', 'extend', 'extend-gen', 'slice']), g)
                                        for g in _split_groups(r, units)]
    if t == 'empty+insert0':
        return [put(whole_how(), [])] + [grow('getitem', 'insert0', [u]) for u in reversed(units)]
    if t == 'empty+iadd':
        return [put(whole_how(), [])] + [grow('getitem', 'iadd', g) for g in _split_groups(r, units)]
    if t == 'empty+get.append':
        return [put(whole_how(), [])] + [grow('get', r.choice(['append', 'append', 'extend']), [u]) for u in units]
    if t == 'empty+held':
        head = [put(whole_how(), []), ['hold', key(), f, r.choice(['getitem', 'getitem', 'get'])]]
        if r.random() < 0.4:
            return head + [grow('held', r.choice(['append', 'extend', 'extend-gen', 'iadd', 'slice']), g)
                           for g in _split_groups(r, units)]
        return head + [grow('held', r.choice(['append', 'append', 'insert0', 'iadd']), [u]) for u in units]
    if t == 'setdefault.append':
        return [grow(['setdefault', []], 'append', [u]) for u in units]
    if t == 'setdefault.extend':
        return [grow(['setdefault', []], r.choice(['extend', 'extend', 'extend-gen', 'iadd', 'slice', 'insert0']), g)
                for g in _split_groups(r, units)]
    if t == 'setdefault-held':
        return ([['hold', key(), f, ['setdefault', []]]] +
                [grow('held', r.choice(['append', 'append', 'append', 'extend', 'iadd']), [u]) for u in units])
    if t == 'setdefault-rec0':
        if len(units) == 1:
            return [put('setdefault', units)]
        out = [grow(['setdefault', [units[0]]], 'append', [units[1]])]
        for u in units[2:]:
            k = r.random()
            if k < 0.4:
                out.append(grow('getitem', 'append', [u]))
            elif k < 0.7:
                out.append(grow(['setdefault', []], 'append', [u]))
            else:
                # a default that must be IGNORED - the key is present by now
                decoy = ['new', ['DECOY', ROUTE_DECOY_SIZE] + ['DECOY'] * (len(names) - 2), 'dict', False]
                out.append(grow(['setdefault', [decoy]], 'append', [u]))
        return out
    if t == 'first+grow':
        out = [put(whole_how(), units[:1])]
        for g in _split_groups(r, units[1:]):
            out.append(grow(r.choice(['getitem', 'getitem', 'get']),
                            r.choice(['append', 'extend', 'extend-gen', 'iadd', 'insert0', 'slice']), g))
        return out
    if t == 'concat':
        return [put('setitem', units[:1])] + [grow(r.choice(['getitem', 'get']), 'concat', [u]) for u in units[1:]]
    if t in ('rebuilt-after-delete', 'reset-to-empty+append'):
        # the field first holds OTHER records (which must be gone afterwards), is deleted / reset to an empty
        # list, and is then filled record by record
        old = [['new', ['GONE', ROUTE_DECOY_SIZE] + ['GONE'] * (len(names) - 2), r.choice(['dict', 'deb822dict']), False]
               for _ in range(r.choice([1, 2, 3]))]
        out = [put(whole_how(), old)]
        if t == 'rebuilt-after-delete':
            out.append(['delete', key(), f, r.choice(['del', 'del', 'pop'])])
            inner = r.choice(['setdefault.append', 'setdefault.append', 'empty+append', 'setdefault-rec0', 'first+grow'])
            return out + route_field_steps(r, f, names, units, inner)
        out.append(put(r.choice(['setitem', 'setitem', 'update-mapping', 'update-kw']), []))
        return out + [grow(r.choice(['getitem', 'getitem', 'get', ['setdefault', []]]), 'append', [u]) for u in units]
    if t in ('ctor-records', 'ctor-text', 'from-paragraph'):
        # the field arrives with the 'new' / 'update-from' step; what is left here are appends behind it
        if not list_form:
            return []
        return [grow(r.choice(['getitem', 'getitem', 'get']), r.choice(['append', 'append', 'extend', 'iadd']), [u])
                for u in units]
    raise ValueError('unknown route template %r' % (t,))


def gen_route_read(r, clsname, state, prefer=None):
    """A read that must not change anything, valid for the model as it stands."""
    table = mv.DOC[clsname]
    present = sorted(state['recs'])
    absent = [f for f in sorted(table) if f not in state['recs']]
    k = r.random()
    if k < 0.2 or not (present or absent):
        menu = list(ROUTE_READS_OBJECT)
        if present and route_dumpable(state):
            menu += list(ROUTE_READS_DUMPABLE)
        how = r.choice(menu)
        f = r.choice(present) if how == 'get_as_string' else None
        return ['read', spell(r, f) if f else None, f, how]
    if (k < 0.35 and absent) or not present:
        f = r.choice(absent)
        return ['read', spell(r, f), f, r.choice(ROUTE_READS_ABSENT)]
    f = prefer if (prefer in state['recs'] and r.random() < 0.65) else r.choice(present)
    if state['form'][f] == 'list':
        menu = ROUTE_READS_LIST + (ROUTE_READS_NONEMPTY if state['recs'][f] else ())
    else:
        menu = ROUTE_READS_PRESENT
    return ['read', spell(r, f), f, r.choice(menu)]


def gen_route_case(r, clsname, behavior, present, want=None, inv_p=None):
    """One paragraph whose structured fields are filled along build routes (want: {field: template}; the other
    present fields draw theirs), steps of different fields in sequence or interleaved, reads and intermediate
    dumps in between."""
    table = mv.DOC[clsname]
    want = dict(want or {})
    present = list(present)
    for f in sorted(want):
        if f not in present:
            present.append(f)
    r.shuffle(present)
    tmpl = dict((f, want.get(f) or r.choice(ROUTE_RANDOM_MENU)) for f in present)
    stub = {'cls': clsname, 'srcs': []}
    srcs = stub['srcs']

    # -- other parsed paragraphs records are taken from
    fromp = [f for f in present if tmpl[f] == 'from-paragraph']
    if fromp:
        s = _route_source(r, clsname, r.choice(BEHAVIORS) if clsname == 'Release' else None, fromp, inv_p)
        s['whole'] = True           # handed over as a whole (update-from): never a source of single records
        srcs.append(s)
    need = [f for f in present if tmpl[f] == 'foreign-list']
    maybe = [f for f in present if tmpl[f] not in ('from-paragraph', 'ctor-text', 'foreign-list') and r.random() < 0.4]
    usable = dict((f, []) for f in present)
    if need or maybe:
        targets = need + maybe
        for _ in range(r.choice([1, 1, 2])):
            c2 = clsname
            if r.random() < 0.3:
                c2 = r.choice(sorted(set(c for f in targets for (c, _f2) in route_compat(clsname, f))))
            fields2 = sorted(set(f2 for f in targets for (c, f2) in route_compat(clsname, f) if c == c2))
            fields2 = [f2 for f2 in fields2 if r.random() < 0.8] or fields2[:1]
            srcs.append(_route_source(r, c2, r.choice(BEHAVIORS) if c2 == 'Release' else None, fields2, inv_p))
        lacking = [f for f in need if not any(
            (s['cls'], f2) in route_compat(clsname, f) for s in srcs if not s.get('whole') for f2 in s['expect'])]
        if lacking:
            srcs.append(_route_source(r, clsname, r.choice(BEHAVIORS) if clsname == 'Release' else None, lacking, inv_p))
        for f in targets:
            compat = set(route_compat(clsname, f))
            usable[f] = [(si, f2) for si, s in enumerate(srcs) if not s.get('whole')
                         for f2 in sorted(s['expect']) if (s['cls'], f2) in compat]

    # -- per field: what goes into the constructor / arrives with update-from, and the steps behind it
    seqs, ctor_items = [], []
    fromp_steps = []
    for f in present:
        names, t = table[f], tmpl[f]
        n = r.choice([1, 2, 2, 3, 3, 4]) if r.random() < 0.93 else r.randint(5, 9)
        trailing = r.choice([0, 0, 1, 2])
        if t == 'foreign-list':
            si, f2 = r.choice(usable[f])
            units = [['src', si, f2, ['whole'], 'same']]
        elif t == 'from-paragraph':
            units = [_route_new_chunk(r, names, inv_p) for _ in range(trailing)]
        elif t == 'ctor-text':
            recs = gen_records(r, names, n, inv_p)
            layout = r.choice(['single', 'multi']) if n == 1 else r.choice(['multi', 'multi', 'mixed'])
            style = r.choice(['tight', 'tight', 'aligned', 'ragged'])
            width = r.choice([16, max(len(x[1]) for x in recs), r.randint(1, 20)])
            lines = [render_line(r, rec, style, width) for rec in recs]
            if layout == 'single':
                value = lines[0]
            elif layout == 'mixed':
                value = lines[0] + ''.join('\n %s' % l for l in lines[1:])
            else:
                value = ''.join('\n %s' % l for l in lines)
            ctor_items.append([spell(r, f), 'text', f, recs, layout, value])
            units = [_route_new_chunk(r, names, inv_p) for _ in range(trailing)] if layout != 'single' else []
        else:
            units = [(_route_src_chunk(r, srcs, usable[f], len(names)) if (usable[f] and r.random() < 0.5)
                      else _route_new_chunk(r, names, inv_p)) for _ in range(n)]
            if not route_tokens(stub, units):
                units.append(_route_new_chunk(r, names, inv_p))
            if t == 'ctor-records':
                ctor_items.append([spell(r, f), 'records', f, units])
                units = [_route_new_chunk(r, names, inv_p) for _ in range(trailing)]
        list_form = True
        if t == 'from-paragraph':
            list_form = srcs[0]['forms'][f] != 'single'
        steps = route_field_steps(r, f, names, units, t, list_form)
        if t == 'from-paragraph':
            fromp_steps.extend(steps)
        elif steps:
            seqs.append(steps)
    if fromp:
        seqs.append([['update-from', 0]] + fromp_steps)

    # -- the object itself, plain fields, Release behaviour, the unjudged caller-held-list probe
    how = r.choice(ROUTE_NEW_HOWS) if (ctor_items or r.random() < 0.45) else 'empty'
    plain = r.sample(mv.PLAIN[clsname], r.randint(1, min(3, len(mv.PLAIN[clsname]))))
    items = list(ctor_items)
    for (k, v) in plain:
        if how != 'empty' and r.random() < 0.6:
            items.insert(r.randint(0, len(items)), [k, 'plain', v])
        else:
            seqs.append([['plain', k, v, r.choice(['setitem', 'setitem', 'update', 'setdefault'])]])
    front = []
    if clsname == 'Release' and (behavior != 'apt-ftparchive' or r.random() < 0.5):
        step = ['behavior', behavior, r.choice(['attr', 'attr', 'setter'])]
        if r.random() < 0.7:
            front.append(step)
        else:
            seqs.append([step])
    if r.random() < 0.15:
        f = r.choice(sorted(table))
        seqs.append([['callerlist', spell(r, f), f,
                      [_route_new_chunk(r, table[f], inv_p) for _ in range(r.choice([1, 1, 2]))],
                      [_route_new_chunk(r, table[f], inv_p) for _ in range(r.choice([1, 2]))]]])

    # -- order: field after field, or interleaved (each field's own steps keep their order)
    r.shuffle(seqs)
    merged = list(front)
    if r.random() < 0.45:
        for s in seqs:
            merged.extend(s)
    else:
        pending = [list(s) for s in seqs]
        while pending:
            s = r.choice(pending)
            merged.append(s.pop(0))
            if not s:
                pending.remove(s)

    # -- reads and intermediate dumps between the steps (placed with the model at hand)
    state = route_state(stub)
    first = ['new', how, items]
    out = [first]
    route_model(state, first, stub)
    for step in merged:
        out.append(step)
        route_model(state, step, stub)
        if r.random() < 0.4:
            for _ in range(r.choice([1, 1, 2])):
                out.append(gen_route_read(r, clsname, state, step[2] if step[0] in ('put', 'grow', 'hold', 'delete') else None))
        if state['recs'] and route_dumpable(state) and r.random() < 0.1:
            out.append(['dump', r.choice(VIAS)])
    assert route_dumpable(state), (tmpl, out)
    return {'cls': clsname, 'behavior': behavior, 'mode': 'route', 'templates': tmpl, 'srcs': srcs, 'steps': out,
            'dump_via': r.choice(VIAS)}


def route_enumerated():
    """(clsname, behavior, field, template): every structured field of every configuration x every build route."""
    out = []
    for clsname, behavior in mv.CONFIGS:
        for f in sorted(mv.DOC[clsname]):
            for t in ROUTE_TEMPLATES:
                out.append((clsname, behavior, f, t))
    return out


# ---------------------------------------------------------------------------
# CONSTRUCTOR SPELLINGS AND ARGUMENT TYPES (case['mode'] == 'ctor').  The paragraph text of the ordinary parsed
# cases reaches the class through ONE positional argument in seven forms.  Here the same kind of text (same
# generator: presence subsets, three layouts, hostile / invisible tokens, PGP armour for the .dsc-like classes) is
# handed over in every spelling the constructor signature allows and in every kind of argument it documents:
#
#   case['api'] == 'ctor'   cls(...) of ONE paragraph
#       'src'   a text source  - re-usable: str | bytes | list | list-nonl | list-bytes | tuple
#                              - ONE-SHOT : stringio | bytesio | textfile | binaryfile (open files on disk) |
#                                           gen | gen-nonl | gen-bytes (generators of lines) | iter-list | iter-bytes
#               or a MAPPING   - 'map:<type>', see CTOR_MAPS (an already parsed generic Deb822 paragraph in several
#                                makings, Deb822Dict, dict, OrderedDict, MappingProxyType, UserDict, ChainMap,
#                                defaultdict, a bare collections.abc.Mapping; same-class object = counted only)
#       'call'  pos | kw | kw+fields | fields+kw | pos+fields | pos+fields-kw | kw+encoding | pos+encoding |
#               kw+strict | kw+all | pos-all            (kw = the keyword spelling cls(sequence=...))
#   case['api'] == 'iter'   cls.iter_paragraphs(...) of a document of 1..3 paragraphs, same sources (no mappings),
#       'call'  the same spellings plus kw+apt-false | kw+apt-requested | kw+shared; 'consume': list | for | next
#
# Judgement = the ordinary one, per paragraph: records exposed == model, dump() returns, width rule, the dump
# re-parses (classic cls(str)) to the model - plus: a paragraph that comes out with NO field although the text /
# mapping had fields is reported as such; the number of paragraphs iter_paragraphs yields is the number written;
# the dumped text is parsed once more THROUGH THE SAME SPELLING and must give the model again; a mapping handed to
# the constructor still holds what it held.
CTOR_SRC_REUSABLE = ('str', 'bytes', 'list', 'list-nonl', 'list-bytes', 'tuple')
CTOR_SRC_ONESHOT = ('stringio', 'bytesio', 'textfile', 'binaryfile', 'gen', 'gen-nonl', 'gen-bytes', 'iter-list',
                    'iter-bytes')
CTOR_SRC = CTOR_SRC_REUSABLE + CTOR_SRC_ONESHOT
CTOR_CALLS = ('pos', 'kw', 'kw+fields', 'fields+kw', 'pos+fields', 'pos+fields-kw', 'kw+encoding', 'pos+encoding',
              'kw+strict', 'kw+all', 'pos-all')
ITER_CALLS = CTOR_CALLS + ('kw+apt-false', 'kw+apt-requested', 'kw+shared')
CTOR_MAPS = ('deb822', 'deb822-from-bytes', 'deb822-from-lines', 'deb822-from-file', 'deb822-from-iter_paragraphs',
             'deb822-copy', 'deb822-built', 'deb822-from-dict', 'deb822dict', 'deb822dict-from-dict',
             'deb822dict-built', 'dict', 'ordereddict', 'mappingproxy', 'mappingproxy-of-ordereddict',
             'mappingproxy-of-deb822', 'userdict', 'abc-mapping', 'chainmap', 'defaultdict', 'same-class')
MAP_CALLS = ('pos', 'kw', 'kw+fields', 'kw+encoding', 'kw+all')
ITER_CONSUME = ('list', 'for', 'next')
GPG_CLASSES = ('Dsc', 'Changes', 'BuildInfo')
CTOR_REPS = {'quick': 1, 'thorough': 40}        # per (configuration, source form, call spelling), ctor and iter each
CTOR_MAP_REPS = {'quick': 1, 'thorough': 60}    # per (configuration, mapping type, call spelling)


def call_class(call):
    return 'keyword' if call.startswith(('kw', 'fields+kw')) else 'positional'


def src_class(src):
    return 'mapping' if src.startswith('map:') else ('one-shot' if src in CTOR_SRC_ONESHOT else 're-usable')


def raw_fields(text):
    """[[field name as spelled, raw value]] of ONE paragraph text (own ten-line splitter, not the library's): the
    raw value is what follows the colon on the field line, blanks stripped, plus '\\n' + every continuation line
    verbatim - the form in which deb822 mappings hold a field as text."""
    out = []
    for line in text.split('\n'):
        if not line:
            continue
        if line[0] in ' \t':
            if out:
                out[-1][1] += '\n' + line
            continue
        key, _, rest = line.partition(':')
        out.append([key, rest.strip(' ')])
    return out


def ctor_doc(case):
    """The text handed over: lead + paragraphs joined by their separators + tail."""
    pars = case['pars']
    if case.get('signed'):
        return sign(pars[0]['text'])
    out = case.get('lead', '')
    for i, p in enumerate(pars):
        if i:
            out += case['seps'][i - 1]
        out += p['text']
    tail = case.get('tail', 'nl')
    if tail == 'nonl':
        out = out[:-1]
    elif tail == 'blank':
        out += '\n'
    return out


def ctor_enumerated():
    """(api, clsname, behavior, src, call): every configuration x every text source form x every call spelling for
    the constructor and for iter_paragraphs, and every configuration x mapping type x call spelling."""
    out = []
    for clsname, behavior in mv.CONFIGS:
        for src in CTOR_SRC:
            for call in CTOR_CALLS:
                out.append(('ctor', clsname, behavior, src, call))
            for call in ITER_CALLS:
                out.append(('iter', clsname, behavior, src, call))
    return out


def ctor_map_enumerated():
    out = []
    for clsname, behavior in mv.CONFIGS:
        for m in CTOR_MAPS:
            for call in MAP_CALLS:
                out.append(('ctor', clsname, behavior, 'map:' + m, call))
    return out


def gen_ctor_case(r, item):
    """The knobs that are not enumerated (PGP armour, number of paragraphs, separators, way of consuming the
    iterator, early close of a file, which fields are listed) are drawn."""
    api, clsname, behavior, src, call = item
    table = mv.DOC[clsname]
    fields = sorted(table)
    is_map = src.startswith('map:')
    npar = 1 if api == 'ctor' else r.choice((1, 2, 2, 3))
    signed = (not is_map) and clsname in GPG_CLASSES and r.random() < 0.2
    if signed:
        npar = 1
    inv_p = r.choice([None, None, 0.1])
    pars = []
    for _ in range(npar):
        p = r.choice([0.15, 0.5, 0.5, 0.85, 1.0])
        sub = [f for f in fields if r.random() < p]
        if not sub and r.random() < 0.8:
            sub = [r.choice(fields)]
        c = gen_case(r, clsname, behavior, sub, 'text', inv_p=inv_p, input_form='str')
        text = c['text'] if c['text'].endswith('\n') else c['text'] + '\n'
        pars.append({'text': text, 'expect': c['expect'], 'forms': c['forms']})
    case = {'cls': clsname, 'behavior': behavior, 'mode': 'ctor', 'api': api, 'src': src, 'call': call, 'pars': pars,
            'dump_via': r.choice(VIAS)}
    if signed:
        case['signed'] = True
    else:
        case['lead'] = '\n' if r.random() < 0.12 else ''
        case['seps'] = [r.choice(['\n', '\n', '\n\n']) for _ in range(npar - 1)]
        case['tail'] = r.choice(['nl', 'nl', 'nonl', 'blank'])
    if 'fields' in call:
        # lower-case names that are listed; every paragraph keeps >= 1 listed field (an iterator stops at a paragraph
        # that comes out empty); the argument holds the spellings exactly as the text has them
        style = r.choice(['all', 'structured', 'subset', 'subset'])
        listed = set()
        for p in pars:
            keys = [kv[0] for kv in raw_fields(p['text'])]
            low = [x.lower() for x in keys]
            if style == 'all':
                listed.update(low)
            elif style == 'structured':
                listed.update(x for x in low if x in table)
            else:
                listed.update(x for x in low if r.random() < 0.5)
        for p in pars:
            low = [kv[0].lower() for kv in raw_fields(p['text'])]
            if not listed.intersection(low):
                listed.add(r.choice(low))
        spelled = []
        for p in pars:
            for kv in raw_fields(p['text']):
                if kv[0].lower() in listed and kv[0] not in spelled:
                    spelled.append(kv[0])
        r.shuffle(spelled)
        case['fields'] = spelled
    if call == 'kw+strict':
        case['strict_value'] = r.random() < 0.5
    if api == 'iter':
        case['consume'] = r.choice(ITER_CONSUME)
    elif not is_map:
        case['close'] = r.choice(['early', 'late'])
    if is_map:
        case['then'] = r.choice(['none', 'change-source', 'change-object'])
    case['wl'] = ['ctor-enum', api, src, call]
    return case


# INV-FLOORS / LPOS-FLOORS: both enumerations are deterministic - demand half of what they must produce, per
# (configuration, structured field, sub-field column), per (character, position) and per (configuration,
# position of the longest size, record count), so that a run which skips SOME column / character / position
# is INCONCLUSIVE, not held.
def _enum_floors():
    import collections
    for tier in ('quick', 'thorough'):
        want = collections.Counter()
        for (clsname, behavior, f, col, ch, pos, mode, _) in inv_enumerated(tier):
            want['inv-enum:field:%s:%s:%s' % (tag_of(clsname, behavior), f, mv.DOC[clsname][f][col])] += INV_REPS[tier]
            want['inv-enum:char-pos:%s:%s' % (inv_name(ch), pos)] += INV_REPS[tier]
        for (clsname, behavior, f, n, where, mode) in lpos_enumerated():
            want['lpos:%s:%s:%s' % (tag_of(clsname, behavior), where, nrec_tag(n))] += LPOS_REPS[tier]
        for (clsname, behavior, f, t) in route_enumerated():
            want['route-enum:%s:%s' % (tag_of(clsname, behavior), t)] += ROUTE_ENUM_REPS[tier]
            want['route-enum:field:%s:%s' % (clsname, f)] += ROUTE_ENUM_REPS[tier]
        # constructor spellings: every (api, source form, call spelling), every (api, configuration), every mapping
        # type and (mapping type, call spelling) - 'driven', not 'accepted': whether a mapping is accepted is the
        # library's choice
        for (api, clsname, behavior, src, call) in ctor_enumerated():
            want['ctor-enum:%s:%s:%s' % (api, src, call)] += CTOR_REPS[tier]
            want['ctor-enum:%s:%s' % (api, tag_of(clsname, behavior))] += CTOR_REPS[tier]
        for (api, clsname, behavior, src, call) in ctor_map_enumerated():
            want['ctor-enum:%s:%s:%s' % (api, src, call)] += CTOR_MAP_REPS[tier]
            want['ctor:map:%s:driven' % src[4:]] += CTOR_MAP_REPS[tier]
            want['ctor:map-call:%s:%s' % (src[4:], call)] += CTOR_MAP_REPS[tier]
        # single-record fields: every (configuration, structured field, shape)
        for (clsname, behavior, f, shape) in one_enumerated():
            want['one:%s:%s:%s' % (tag_of(clsname, behavior), f, shape)] += ONE_REPS[tier]
        # look-alike lines: every (configuration, class), (class, shape), (class, number of columns) and every
        # structured field
        for (clsname, behavior, f, c, shape, _, _) in lk_enumerated(tier):
            want['lk-enum:%s:%s' % (tag_of(clsname, behavior), c)] += 1
            want['lk-enum:shape:%s:%s-%s-%s' % ((c,) + shape)] += 1
            want['lk-enum:columns:%s:%d' % (c, len(mv.DOC[clsname][f]))] += 1
            want['lk-enum:field:%s:%s' % (clsname, f)] += 1
        for k, v in want.items():
            FLOORS[tier]['counters'][k] = v // 2



def setup(ctx):
    ctx.extra['exhaustive_subspaces'] = [
        'presence subsets: all 16 subsets of the 4 structured fields of Dsc, Changes, BuildInfo, Release(apt-ftparchive), '
        'Release(dak), each in text and build mode',
        'presence subsets: all subsets of size <= %d of PdiffIndex\'s 14 structured fields, the full set and all 13-subsets, '
        'each in text and build mode' % PD_MAXK[ctx.tier],
        'mixed text layout (first record on the field line, further records on continuation lines): every structured '
        'field of every configuration x 2, 3 and 4 records, %d fillings each' % MIXED_REPS[ctx.tier],
        'invisible / format characters: every configuration x structured field x sub-field column x each of %d characters (%s) x '
        'position start / mid / end + one of whole / both-ends x {parsed text, built object}, %d filling(s) each'
        % (len(inv_chars(ctx.tier)), ' '.join(inv_name(c) for c in inv_chars(ctx.tier)), INV_REPS[ctx.tier]),
        'position of the strictly longest size: every configuration x structured field x 2..6 records x first-only / '
        'last-only / one-middle-only x {parsed text, built object}, %d fillings each' % LPOS_REPS[ctx.tier],
        'build routes: every configuration x structured field x each of %d routes (%s), %d paragraphs each'
        % (len(ROUTE_TEMPLATES), ' '.join(ROUTE_TEMPLATES), ROUTE_ENUM_REPS[ctx.tier]),
        'constructor spellings: every configuration x text source form (%s) x call spelling (constructor: %s; iter_paragraphs: '
        'those plus %s), %d case(s) each; every configuration x mapping type (%s) x call spelling (%s), %d case(s) each'
        % (' '.join(CTOR_SRC), ' '.join(CTOR_CALLS), ' '.join(ITER_CALLS[len(CTOR_CALLS):]), CTOR_REPS[ctx.tier],
           ' '.join(CTOR_MAPS), ' '.join(MAP_CALLS), CTOR_MAP_REPS[ctx.tier]),
        'single-record fields: every configuration x structured field x exactly one record x %s, %d case(s) each, judged for '
        'parse -> dump -> parse stability and the equality protocol' % (' / '.join(ONE_SHAPES), ONE_REPS[ctx.tier]),
        'record tokens that together spell a line with a meaning elsewhere in the format: every configuration x look-alike class '
        '(%s) x shape (%s)%s, %d case(s) each, read back through every input form, bare and clear-signed'
        % (' '.join(LK_CLASSES), ' '.join('-'.join(x) for x in LK_SHAPES),
           ' x every structured field the class fits' if ctx.tier != 'quick' else ', the structured field rotating',
           LK_REPS[ctx.tier])]


def cases(ctx):
    for i, (clsname, behavior, sub, mode, rep) in enumerate(enumerated(ctx.seed, ctx.tier)):
        if ctx.mine(i):
            yield gen_case(ctx.rng('enum', i), clsname, behavior, sub, mode, bare_p=BARE_P)
    r = ctx.rng('random')
    for i in range(ctx.size(RANDOM['quick'], RANDOM['thorough'])):
        clsname, behavior = r.choice(mv.CONFIGS)
        fields = sorted(mv.DOC[clsname])
        p = r.choice([0.15, 0.5, 0.5, 0.85])
        sub = [f for f in fields if r.random() < p]
        yield gen_case(r, clsname, behavior, sub, r.choice(['text', 'build']), big=True, bare_p=BARE_P)
    # PdiffIndex: SHA*-Current as a list of records with sizes of different lengths; parsed Index whose
    # History / Patches / Download fields carry their only record on the field line (single dump)
    r = ctx.rng('pd-extra')
    fields = sorted(mv.DOC['PdiffIndex'])
    for i in range(ctx.size(PD_EXTRA['quick'], PD_EXTRA['thorough'])):
        p = r.choice([0.0, 0.15, 0.5, 0.85])
        sub = [f for f in fields if r.random() < p]
        yield gen_case(r, 'PdiffIndex', None, sub, r.choice(['text', 'build']),
                       tweak=('pd-current-list', 'pd-single3')[i % 2])
    # mixed layout: first record on the field line, further records on continuation lines - every structured
    # field of every configuration x 2..4 records (enumerated), then paragraphs mixing the layouts across fields
    i = 0
    for (clsname, behavior, f, n) in mixed_enumerated():
        for rep in range(MIXED_REPS[ctx.tier]):
            if ctx.mine(i):
                rr = ctx.rng('mixed-enum', i)
                others = [x for x in sorted(mv.DOC[clsname]) if x != f]
                if rep % 3 == 0:
                    sub = []
                else:
                    p = rr.choice([0.15, 0.5, 0.85])
                    sub = [x for x in others if rr.random() < p]
                case = gen_case(rr, clsname, behavior, sub, 'text', force={f: ['mixed', n]})
                case['wl'] = ['mixed-enum', f, n]
                yield case
            i += 1
    r = ctx.rng('mixed-par')
    for i in range(ctx.size(MIXED_PAR['quick'], MIXED_PAR['thorough'])):
        clsname, behavior = mv.CONFIGS[i % len(mv.CONFIGS)]
        case = gen_mixed_paragraph(r, clsname, behavior)
        case['wl'] = ['mixed-par']
        yield case
    # invisible / format characters inside tokens: enumerated (column x character x position x mode), then
    # paragraphs in which many tokens carry one
    i = 0
    for item in inv_enumerated(ctx.tier):
        for rep in range(INV_REPS[ctx.tier]):
            if ctx.mine(i):
                yield gen_inv_enum_case(ctx.rng('inv-enum', i), item, rep)
            i += 1
    r = ctx.rng('inv-par')
    for i in range(ctx.size(INV_PAR['quick'], INV_PAR['thorough'])):
        clsname, behavior = mv.CONFIGS[i % len(mv.CONFIGS)]
        fields = sorted(mv.DOC[clsname])
        p = r.choice([0.15, 0.5, 0.5, 0.85, 1.0])
        sub = [f for f in fields if r.random() < p] or [r.choice(fields)]
        case = gen_case(r, clsname, behavior, sub, r.choice(['text', 'build']), inv_p=r.choice([0.15, 0.4, 0.8]))
        case['wl'] = ['inv-par']
        yield case
    # position of the strictly longest size among 2..6 records (first / last / a middle record)
    i = 0
    for (clsname, behavior, f, n, where, mode) in lpos_enumerated():
        for rep in range(LPOS_REPS[ctx.tier]):
            if ctx.mine(i):
                rr = ctx.rng('lpos', i)
                others = [x for x in sorted(mv.DOC[clsname]) if x != f]
                p = rr.choice([0.0, 0.15, 0.5, 0.85])
                sub = [x for x in others if rr.random() < p]
                case = gen_case(rr, clsname, behavior, sub, mode, lpos={f: [n, where]})
                case['wl'] = ['lpos', f, n, where]
                yield case
            i += 1
    # single-record fields: every structured field of every configuration x exactly one record x the four shapes
    # (record on the field line / on a continuation line of parsed text; a list holding one record / the bare
    # record assigned to a built object)
    i = 0
    for item in one_enumerated():
        for rep in range(ONE_REPS[ctx.tier]):
            if ctx.mine(i):
                yield gen_one_case(ctx.rng('one', i), item, rep, i)
            i += 1
    # record tokens that together spell a line with a meaning elsewhere in the format (armor / field / comment /
    # '.' / '-' / '+' look-alikes): enumerated, then paragraphs with several of them
    for i, item in enumerate(lk_enumerated(ctx.tier)):
        if ctx.mine(i):
            yield gen_lk_case(ctx.rng('lk-enum', i), item)
    r = ctx.rng('lk-par')
    for i in range(ctx.size(LK_PAR['quick'], LK_PAR['thorough'])):
        clsname, behavior = mv.CONFIGS[i % len(mv.CONFIGS)]
        yield gen_lk_paragraph(r, clsname, behavior)
    # histories: one object, several dumps
    r = ctx.rng('history')
    for i in range(ctx.size(HIST['quick'], HIST['thorough'])):
        clsname, behavior = HIST_CONFIGS[i % len(HIST_CONFIGS)]
        yield gen_history(r, clsname, behavior)
    # build routes: every structured field of every configuration x every route (enumerated), then paragraphs in
    # which every field draws its own route
    i = 0
    for (clsname, behavior, f, t) in route_enumerated():
        for rep in range(ROUTE_ENUM_REPS[ctx.tier]):
            if ctx.mine(i):
                rr = ctx.rng('route-enum', i)
                others = [x for x in sorted(mv.DOC[clsname]) if x != f]
                p = (0.0, 0.5, 1.0, 0.15, 0.85)[rep % 5]
                sub = [x for x in others if rr.random() < p]
                case = gen_route_case(rr, clsname, behavior, sub, want={f: t})
                case['wl'] = ['route-enum', f, t]
                yield case
            i += 1
    # constructor spellings / argument types: every configuration x source form x call spelling for the constructor
    # and for iter_paragraphs, every configuration x mapping type x call spelling
    i = 0
    for item in ctor_enumerated():
        for rep in range(CTOR_REPS[ctx.tier]):
            if ctx.mine(i):
                yield gen_ctor_case(ctx.rng('ctor-enum', i), item)
            i += 1
    i = 0
    for item in ctor_map_enumerated():
        for rep in range(CTOR_MAP_REPS[ctx.tier]):
            if ctx.mine(i):
                yield gen_ctor_case(ctx.rng('ctor-map-enum', i), item)
            i += 1
    r = ctx.rng('route-par')
    for i in range(ctx.size(ROUTE_RANDOM['quick'], ROUTE_RANDOM['thorough'])):
        clsname, behavior = mv.CONFIGS[i % len(mv.CONFIGS)]
        fields = sorted(mv.DOC[clsname])
        p = r.choice([0.15, 0.5, 0.5, 0.85, 1.0])
        sub = [f for f in fields if r.random() < p] or [r.choice(fields)]
        case = gen_route_case(r, clsname, behavior, sub, inv_p=r.choice([None, None, None, 0.3]))
        case['wl'] = ['route-par']
        yield case


# ---------------------------------------------------------------------------
# oracle

def as_records(value):
    """The library exposes a single-line field as one mapping, a multi-line one as a list."""
    if hasattr(value, 'keys'):
        return [value]
    return list(value)


def compare_records(obj, table, expect):
    """None if every structured field of the class shows exactly the expected records
    (documented sub-field names, values, order) and absent ones are absent; else (field, kind, message)."""
    for f in sorted(table):
        names = table[f]
        if f not in expect:
            if f in obj:
                return f, 'phantom-field', 'field %r was not written but is present: %r' % (f, obj[f])
            continue
        if f not in obj:
            return f, 'field-lost', 'field %r (%d records) is absent' % (f, len(expect[f]))
        if isinstance(obj[f], (str, bytes)):
            return f, 'not-records', 'field %r is exposed as the raw text %r, not as record(s)' % (f, obj[f])
        try:
            got = as_records(obj[f])
        except TypeError:
            return f, 'not-records', 'field %r is exposed as %r, not as record(s)' % (f, obj[f])
        want = expect[f]
        if len(got) != len(want):
            return f, 'record-count', 'field %r: %d records expected, %d exposed: %r' % (f, len(want), len(got), got)
        for i, (g, w) in enumerate(zip(got, want)):
            if not hasattr(g, 'keys'):
                return f, 'not-records', 'field %r record %d is %r, not a mapping' % (f, i, g)
            for name, tok in zip(names, w):
                try:
                    val = g[name]
                except KeyError:
                    return f, 'subfield-names', ('field %r record %d has no sub-field %r (has %r)'
                                              % (f, i, name, list(g.keys())))
                if val != tok:
                    return f, 'subfield-values', ('field %r record %d sub-field %r = %r, expected %r (record written: %r, '
                                               'exposed: %r)' % (f, i, name, val, tok, w, dict(g)))
            if len(g) != len(names):
                return f, 'subfield-names', 'field %r record %d has sub-fields %r, documented %r' % (f, i, list(g.keys()), names)
    return None


# ---------------------------------------------------------------------------
# EQUALITY PROTOCOL of the records a parse exposes.  compare_records() reads sub-field by sub-field; callers
# compare with ==.  A record that was seen to hold exactly the model's tokens under exactly the documented names
# (compare_records passed) must compare EQUAL to a plain dict holding the same sub-fields - in whatever order the
# dict holds its keys - and UNEQUAL to one that differs in one sub-field value; != is the negation; a field value
# that is a list of records equals the list of such dicts (list equality, membership and index() are CPython's
# and only call the record's ==).  Nothing is demanded for dicts whose NAMES differ in case (the unchanged tree
# compares names as spelled: unequal) beyond != being the negation of ==.

EQ_ORDERS = ('column', 'reversed', 'shuffled')


def eq_dicts(names, toks, salt):
    """The record as three plain dicts: keys in column order, reversed, and in another order (a rotation, with
    the first two keys swapped when there are >= 3; never the column order)."""
    pairs = list(zip(names, toks))
    n = len(pairs)
    k = 1 + salt % (n - 1) if n > 1 else 0
    sh = pairs[k:] + pairs[:k]
    if n > 2 and salt % 2:
        sh[0], sh[1] = sh[1], sh[0]
    return dict(pairs), dict(pairs[::-1]), dict(sh)


def _eq_fail(ctx, what, stage, msg):
    ctx.violation('record-equality/%s/%s' % (what, stage), msg)
    return False


def check_equality(ctx, deb822, clsname, obj, table, expect, stage, salt, full=True):
    """`obj` already passed compare_records(obj, table, expect).  One present field (rotating with `salt`, which
    is derived from the case so that a replay makes the same choices): the whole field value against plain dicts in
    another key order and, when `full`, the detailed protocol on one of its records.  False after a violation."""
    fields = sorted(expect)
    if not fields:
        return True
    ctx.mon('M.eq')
    ctx.count('eq:stage:%s' % stage)
    try:
        return _check_equality(ctx, deb822, clsname, obj, table, expect, stage, salt, full, fields)
    except Exception as e:
        ctx.violation('record-equality-raises/%s/%s' % (type(e).__name__, stage),
                      '%s: comparing a record / field value exposed by the library with == / != / in / index() raised %r\n%s'
                      % (clsname, e, traceback.format_exc(limit=6)))
        return False


def _check_equality(ctx, deb822, clsname, obj, table, expect, stage, salt, full, fields):
    pick = fields[salt % len(fields)]
    ncmp = 0
    for fi, f in enumerate(fields):
        if f != pick:
            continue
        names, want, value = table[f], expect[f], obj[f]
        bare = hasattr(value, 'keys')
        n = len(want)
        s = salt // len(fields) + fi           # the knobs below rotate independently of which field was picked
        variants = [eq_dicts(names, w, s + i) for i, w in enumerate(want)]
        # (a) the whole field value against plain dicts in another key order
        order = 1 + s % 2
        other = [v[order] for v in variants]
        if bare:
            other = other[0]
        left = (s // 2) % 2
        res = (value == other) if left else (other == value)
        ncmp += n
        ctx.count('eq:field-value:%s:%s-key-order:%s' % ('bare-record' if bare else 'list', EQ_ORDERS[order],
                                                       'value==dicts' if left else 'dicts==value'))
        if not res:
            return _eq_fail(ctx, 'field-value-unequal-to-the-same-records-as-dicts/%s-key-order' % EQ_ORDERS[order], stage,
                            '%s field %r: %s is %r; exposed value %r, dicts %r (same sub-fields and tokens, keys in %s order)'
                            % (clsname, f, 'value == dicts' if left else 'dicts == value', res, value, other, EQ_ORDERS[order]))
        if not full:
            continue
        # (b) one record in detail
        got = [value] if bare else value
        k = s % n
        rec = got[k]
        ctx.count('eq:record:columns:%d' % len(names))
        for oi, d in enumerate(variants[k]):
            if oi == s % 3:
                continue                            # two of the three key orders per record, rotating
            if oi == 0:
                e, ne, how = rec == d, d != rec, ('rec == d', 'd != rec')
            elif oi == 1:
                e, ne, how = d == rec, rec != d, ('d == rec', 'rec != d')
            else:
                e, ne, how = rec == d, rec != d, ('rec == d', 'rec != d')
            ncmp += 2
            ctx.count('eq:record:%s-key-order' % EQ_ORDERS[oi])
            if not e:
                return _eq_fail(ctx, 'record-unequal-to-dict-with-the-same-sub-fields/%s-key-order' % EQ_ORDERS[oi], stage,
                                '%s field %r record %d: %s is %r; rec = %r, d = %r (same names, same tokens, keys in %s '
                                'order)' % (clsname, f, k, how[0], e, rec, d, EQ_ORDERS[oi]))
            if ne:
                return _eq_fail(ctx, 'ne-is-not-the-negation-of-eq', stage,
                                '%s field %r record %d: %s is %r although the two compare equal; rec = %r, d = %r'
                                % (clsname, f, k, how[1], ne, rec, d))
        # one sub-field value different -> unequal
        c = (s // 3) % len(names)
        alt = want[k][c] + '~'
        while any(w[c] == alt for w in want):
            alt += '~'
        d1 = dict(variants[k][s % 3])
        d1[names[c]] = alt
        e1, e2 = (rec == d1, False) if (s // 2) % 2 else (False, d1 == rec)
        ne = rec != d1
        ncmp += 2
        ctx.count('eq:differs-in:%s' % ('size' if names[c] == 'size' else 'first-column' if c == 0 else
                                        'last-column' if c == len(names) - 1 else 'middle-column'))
        if e1 or e2:
            return _eq_fail(ctx, 'record-differing-in-one-sub-field-compares-equal', stage,
                            '%s field %r record %d: %s is True although sub-field %r differs; rec = %r, d = %r'
                            % (clsname, f, k, 'rec == d' if e1 else 'd == rec', names[c], rec, d1))
        if not ne:
            return _eq_fail(ctx, 'ne-is-not-the-negation-of-eq', stage,
                            '%s field %r record %d: rec != d is %r although sub-field %r differs; rec = %r, d = %r'
                            % (clsname, f, k, ne, names[c], rec, d1))
        # the field value as a list: membership, index, a list differing in one sub-field of one record
        if not bare:
            first = [tuple(w) for w in want].index(tuple(want[k]))
            d_in, d_rev = variants[k][(s + 1) % 3], variants[k][(s + 2) % 3]
            isin = d_in in value
            idx = value.index(d_rev) if isin else None
            ncmp += 2 * (first + 1)
            ctx.count('eq:list:in+index')
            if not isin or idx != first:
                return _eq_fail(ctx, 'membership-or-index-of-an-equal-dict', stage,
                                '%s field %r: d in records is %r, records.index(d) is %r, expected True and %d; d = %r / %r, '
                                'records = %r' % (clsname, f, isin, idx, first, d_in, d_rev, value))
            if s % 2:
                wrong = d1 in value
                ctx.count('eq:list:differing-dict-not-in')
            else:
                lst = [v[0] for v in variants]
                lst[k] = d1
                wrong = (value == lst) or not (value != lst)
                ctx.count('eq:list:differs-in-one-sub-field-of-one-record')
            ncmp += n
            if wrong:
                return _eq_fail(ctx, 'list-differing-in-one-sub-field-of-one-record-compares-equal', stage,
                                '%s field %r: a dict differing from record %d in sub-field %r is found in / makes a list equal '
                                'to the exposed records; d = %r, records = %r' % (clsname, f, k, names[c], d1, value))
        # another mapping type holding the same sub-fields in reversed order
        if s % 4 == 0:
            dd = deb822.Deb822Dict(list(variants[k][1].items()))
            e1, e2 = rec == dd, dd == rec
            ncmp += 2
            ctx.count('eq:record:against-Deb822Dict-from-reversed-pairs')
            if not e1 or not e2:
                return _eq_fail(ctx, 'record-unequal-to-Deb822Dict-with-the-same-sub-fields/reversed-key-order', stage,
                                '%s field %r record %d: rec == D is %r, D == rec is %r; rec = %r, D = Deb822Dict(%r)'
                                % (clsname, f, k, e1, e2, rec, list(variants[k][1].items())))
        elif s % 4 == 1:
            # names in another letter case: the library's answer is counted, only the negation is judged
            dup = dict((name.swapcase(), tok) for name, tok in variants[k][0].items())
            e, ne = rec == dup, rec != dup
            ncmp += 2
            ctx.count('eq:other-case-names:probed')
            ctx.count('eq:other-case-names:%s' % ('equal' if e else 'unequal'))        # the library's answer: no floor
            if bool(ne) == bool(e):
                return _eq_fail(ctx, 'ne-is-not-the-negation-of-eq', stage,
                                '%s field %r record %d: rec == d is %r and rec != d is %r; rec = %r, d = %r'
                                % (clsname, f, k, e, ne, rec, dup))
    ctx.mon('M.eq.cmp', ncmp)
    if full:
        ctx.mon('M.eq.full')
    return True


def check_same_records(ctx, clsname, a, b, expect, which, stage, salt=0):
    """Records of two parses (both already seen to hold the model's tokens) compare equal: a == b (or b == a) and
    not a != b for the value of one field (rotating with `salt`)."""
    ctx.mon('M.eq.two-parses')
    ctx.count('eq:two-parses:%s' % which)
    try:
        fields = sorted(expect)
        for f in fields[salt % max(1, len(fields)):][:1]:
            va, vb = a[f], b[f]
            if hasattr(va, 'keys') != hasattr(vb, 'keys'):
                va, vb = as_records(va), as_records(vb)
            e = (va == vb) if salt % 2 else (vb == va)
            ne = va != vb
            if not e or ne:
                ctx.violation('record-equality/records-of-two-parses-compare-unequal/%s/%s' % (which, stage),
                              '%s field %r: a == b / b == a is %r, a != b is %r; a = %r, b = %r (both expose the '
                              'tokens %r)' % (clsname, f, e, ne, va, vb, expect[f]))
                return False
    except Exception as e:
        ctx.violation('record-equality-raises/%s/%s' % (type(e).__name__, stage),
                      '%s: comparing the records of two parses (%s) raised %r\n%s'
                      % (clsname, which, e, traceback.format_exc(limit=6)))
        return False
    return True


def shape_of(value):
    return 'bare-record' if hasattr(value, 'keys') else 'list'


def construct(deb822, cls, text, how):
    if how in ('str', 'signed'):
        return cls(text)
    if how == 'bytes':
        return cls(text.encode('utf-8'))
    if how == 'lines':
        return cls(text.splitlines(True))
    if how == 'lines_nonl':
        return cls(text.split('\n'))
    if how == 'file':
        return cls(io.StringIO(text))
    if how == 'bfile':
        return cls(io.BytesIO(text.encode('utf-8')))
    raise ValueError(how)


def do_dump(obj, via):
    if via == 'fd_bytes':
        fd = io.BytesIO()
        obj.dump(fd)
        return fd.getvalue().decode('utf-8')
    if via == 'fd_text':
        fd = io.StringIO()
        obj.dump(fd, text_mode=True)
        return fd.getvalue()
    return obj.dump()


def tag_of(clsname, behavior):
    return clsname if not behavior else '%s-%s' % (clsname, behavior)


def dump_key(clsname, behavior, exc, absent, singles):
    tag = clsname.lower() if behavior is None else '%s-%s' % (clsname.lower(), behavior)
    if isinstance(exc, KeyError) and exc.args and str(exc.args[0]).lower() in absent:
        return '%s-dump-keyerror-when-structured-field-absent' % tag
    if isinstance(exc, TypeError) and singles:
        return '%s-dump-typeerror-on-single-line-record' % tag
    return 'dump-raises/%s/%s' % (tag, type(exc).__name__)


def check_alignment(ctx, clsname, behavior, txt, expect, suffix=''):
    blocks = mv.field_blocks(txt)
    for f, recs in sorted(expect.items()):
        block = blocks.get(f, [])
        if block and block[0].strip():
            # the record sits on the field line (single-line form): whether that form is padded is not
            # part of the documented column layout - PdiffIndex leaves it alone, Release pads it
            ctx.count('align:skipped-single-line-form')
            continue
        lines = [l for l in block if l.strip()]
        if len(lines) != len(recs):
            ctx.count('align:skipped-line-count')     # decided by the re-parse check, not here
            continue
        width = mv.expected_width(clsname, behavior, [rec[1] for rec in recs])
        where = longest_where(recs) if len(recs) >= 2 else None
        judged = 0
        for line, rec in zip(lines, recs):
            col = mv.size_column(line)
            if col is None or col[0] != rec[0] or col[2] != rec[1]:
                ctx.count('align:skipped-tokens')
                continue
            ctx.mon('M.align')
            judged += 1
            inv_size = bool(INV_RE.search(rec[1]))
            if inv_size:
                ctx.mon('M.inv.align')
            want = max(0, width - len(rec[1]))
            if col[1] != want:
                which = '16' if (clsname == 'Release' and behavior == 'apt-ftparchive') else 'longest'
                ctx.violation('size-column-not-right-aligned-to-%s%s%s'
                              % (which, '/size-with-invisible-character' if inv_size else '', suffix),
                              '%s(%s) field %r: dumped line %r pads the size %r with %d spaces, documented width %d '
                              '(in characters) needs %d; %d records, strictly longest size in: %s'
                              % (clsname, behavior, f, line, rec[1], col[1], width, want, len(recs), where))
                return False
        if where and judged == len(recs):
            # every line of a >= 2-record field judged: the position of the longest size was exercised AND judged
            ctx.mon('M.align.longest')
            ctx.count('align:longest:%s:%s' % (where, nrec_tag(len(recs))))
            ctx.count('align:longest:%s:%s' % (tag_of(clsname, behavior), where))
    return True


def build_record(deb822, names, rec, rectype, int_size):
    d = dict(zip(names, rec))
    if int_size and rec[1].isascii() and rec[1].isdigit() and str(int(rec[1])) == rec[1]:
        d['size'] = int(rec[1])
    if rectype == 'deb822dict':
        d = deb822.Deb822Dict(d)
    return d


def lib_apply(deb822, obj, op, table):
    """One mutation through the public API of the live object."""
    k = op[0]
    if k == 'behavior':
        if op[2] == 'setter':
            obj.set_size_field_behavior(op[1])
        else:
            obj.size_field_behavior = op[1]
    elif k == 'assign':
        obj[op[1]] = [build_record(deb822, table[op[2]], rec, op[4], op[5]) for rec in op[3]]
    elif k == 'delete':
        if op[3] == 'pop':
            obj.pop(op[1])
        else:
            del obj[op[1]]
    elif k == 'append':
        obj[op[1]].append(build_record(deb822, table[op[2]], op[3], op[4], op[5]))
    elif k == 'insert':
        obj[op[1]].insert(op[3], build_record(deb822, table[op[2]], op[4], op[5], op[6]))
    elif k == 'pop':
        obj[op[1]].pop(op[3])
    elif k == 'set':
        val = obj[op[1]]
        target = val if hasattr(val, 'keys') else val[op[3]]     # single-line form: the field IS the record
        tok = op[5]
        if op[6] and tok.isascii() and tok.isdigit() and str(int(tok)) == tok:
            tok = int(tok)
        target[op[4]] = tok
    else:
        raise ValueError('unknown history op %r' % (op,))


def widths_of(clsname, behavior, state):
    """Documented size-column width of every multi-line field, as the model stands."""
    return dict((f, mv.expected_width(clsname, behavior, [x[1] for x in recs]))
                for f, recs in state['recs'].items() if state['form'][f] == 'list')


def dump_and_judge(ctx, cls, clsname, obj, state, via, origin, suffix='', deep=None):
    """dump() must return text; size column per CURRENT behaviour and records; text re-parses to the
    CURRENT records; the re-parsed records obey the equality protocol (check_equality; one field only unless
    `deep`).  deep (single-dump cases): {'twice': bool} - additionally parse -> dump -> parse must be STABLE (value
    shape of every field after the re-parse = the one after the first parse, when `obj` was parsed; the dump of the
    re-parsed object = the first dump), the records of `obj` (when parsed) and of the re-parsed object compare
    equal, and with 'twice' a second parse of the dumped text gives records equal to the first.
    False after a violation."""
    table = mv.DOC[clsname]
    expect = state['recs']
    behavior = state['behavior']
    for f, recs in expect.items():
        if not recs:
            raise ValueError('case outside the domain: empty record list for %r' % f)
        for rec in recs:
            for tok in rec:
                if not mv.is_ws_free_token(tok):
                    raise ValueError('case outside the domain: token %r' % tok)
    absent = [f for f in table if f not in expect]
    singles = sorted(f for f in expect if state['form'][f] == 'single')
    if absent:
        ctx.count('has-absent-field')
    if clsname == 'PdiffIndex':
        for f in PD_CURRENT:
            if f in expect and state['form'][f] == 'list' and len(set(len(x[1]) for x in expect[f])) >= 2:
                ctx.count('pdiff:current-list-mixed-sizes')
                ctx.count('pdiff:current-list-mixed-sizes:%s' % origin)
                break
        if origin == 'parsed' and any(pd_is_3col(f) for f in singles):
            ctx.count('pdiff:parsed-single-line-3col')

    mixed = sorted(state['mixed'])
    if mixed:
        ctx.mon('M.mixed.dump')
    invf = inv_fields(expect)
    if invf:
        ctx.count('inv:dump:%s:%s' % (tag_of(clsname, behavior), origin))
        ctx.count('inv:dump-via:%s' % via)
    for f, recs in expect.items():
        if len(recs) >= 2 and state['form'][f] == 'list':
            ctx.count('longest:%s:%s:%s' % (tag_of(clsname, behavior), longest_where(recs), nrec_tag(len(recs))))
    # a quarter of the paragraphs have their FIELDS re-ordered before the dump (sort_fields(), or the first field moved
    # last): the order of the fields is no part of what a structured field dumps as - records, widths and the re-parse
    # are judged exactly as otherwise
    if sum(len(r) for r in expect.values()) % 4 == 0:
        try:
            if len(expect) % 2:
                obj.sort_fields()
                ctx.count('fields-reordered-before-dump:sort_fields')
            else:
                ks = list(obj.keys())
                if len(ks) >= 2:
                    obj.order_last(ks[0])
                ctx.count('fields-reordered-before-dump:order_last')
        except Exception as e:
            ctx.violation('field-reordering-raises/%s%s' % (type(e).__name__, suffix),
                          'sort_fields() / order_last() on a %s %s(%s) raised %r' % (origin, clsname, behavior, e))
            return False
    ctx.mon('M.dump')
    try:
        txt = do_dump(obj, via)
    except Exception as e:
        ctx.violation(dump_key(clsname, behavior, e, absent, singles) + suffix,
                      'dump() of a %s %s(%s) raised %s(%s); present=%r absent=%r single-line=%r'
                      % (origin, clsname, behavior, type(e).__name__, e, sorted(expect), sorted(absent), singles))
        return False
    if not isinstance(txt, str):
        ctx.violation('dump-returns-non-text' + suffix, 'dump() returned %r' % (txt,))
        return False
    state['last_dump'] = txt

    if clsname in mv.ALIGNED:
        if not check_alignment(ctx, clsname, behavior, txt, expect, suffix):
            return False

    ctx.mon('M.reparse')
    try:
        obj2 = cls(txt)
    except Exception as e:
        ctx.violation('reparse-raises/%s%s' % (type(e).__name__, suffix),
                      'parsing the dumped text %r raised %r' % (txt, e))
        return False
    bad = compare_records(obj2, table, expect)
    if bad:
        where = '/field-parsed-from-mixed-layout' if bad[0] in mixed else ''
        if bad[0] in invf:
            where += '/token-with-invisible-character'
        if bad[0] in state.get('route', ()):
            where += '/field-built-via:%s' % state['route'][bad[0]]
        ctx.violation('roundtrip-%s-%s%s%s' % (origin, bad[1], where, suffix),
                      '%s(%s): dump -> parse: %s; dumped=%r%s'
                      % (clsname, behavior, bad[2], txt,
                         '; fields parsed from first-record-on-field-line + continuation lines: %r' % mixed if mixed else ''))
        return False
    if invf:
        ctx.mon('M.inv.dump')
    deb822 = sys.modules[cls.__module__]
    stage = 'reparsed-dump-of-%s-object' % origin
    # the detailed protocol on the records of a parsed text runs right after that parse (run_case); here it runs on
    # the re-parse of what a BUILT object dumped
    if not check_equality(ctx, deb822, clsname, obj2, table, expect, stage, len(txt),
                          full=deep is not None and origin == 'built'):
        return False
    if deep is None:
        return True
    if origin == 'parsed' and not check_same_records(ctx, clsname, obj, obj2, expect, 'text-and-its-dump', stage, len(txt)):
        return False
    if deep.get('twice'):
        try:
            obj2b = cls(txt)
        except Exception as e:
            ctx.violation('reparse-raises/%s/second-parse' % type(e).__name__,
                          'parsing the dumped text %r a second time raised %r' % (txt, e))
            return False
        bad = compare_records(obj2b, table, expect)
        if bad:
            ctx.violation('roundtrip-%s-%s/second-parse-of-the-dump' % (origin, bad[1]),
                          '%s(%s): a second parse of the dumped text: %s; dumped=%r' % (clsname, behavior, bad[2], txt))
            return False
        if not check_same_records(ctx, clsname, obj2, obj2b, expect, 'dumped-text-twice', stage, len(txt) + 1):
            return False
    # the single-record class, every second case with a one-record field, every eighth of the others (decided by
    # the dumped text: replayable)
    if (deep.get('one') or len(txt) % (2 if any(len(v) == 1 for v in expect.values()) else 8) == 0):
        if not check_stability(ctx, clsname, obj, obj2, state, txt, origin):
            return False
        for f in expect:
            if origin == 'parsed':
                ctx.count('stable:text-layout:%s%s' % (deep['forms'][f], ':one-record' if len(expect[f]) == 1 else ''))
            else:
                ctx.count('stable:built-as:%s%s' % ('bare-record' if state['form'][f] == 'single' else 'list',
                                                  ':one-record' if len(expect[f]) == 1 else ''))
    return True


def check_stability(ctx, clsname, obj, obj2, state, txt, origin):
    """parse -> dump -> parse is stable: a field exposed as a list of one record / as a bare record by the first
    parse is exposed in the same shape by the parse of its dump (judged when `obj` was parsed; for a built object
    the shapes are counted), and the re-parsed object dumps to the text it was parsed from."""
    expect, behavior = state['recs'], state['behavior']
    ctx.mon('M.stable')
    ones = 0
    for f in sorted(expect):
        s2 = shape_of(obj2[f])
        n = len(expect[f])
        if n == 1:
            ones += 1
        if origin == 'parsed':
            s1 = shape_of(obj[f])
            if n == 1:
                ctx.mon('M.stable.one-record')
                ctx.count('stable:parsed:%s:%s' % (tag_of(clsname, behavior), s1))
            if s1 != s2:
                ctx.violation('parse-dump-parse-unstable/value-shape/%s-becomes-%s/%s'
                              % (s1, s2, 'one-record' if n == 1 else 'several-records'),
                              '%s(%s) field %r (%d record(s)): the first parse exposes %r, the parse of its dump %r; dumped=%r'
                              % (clsname, behavior, f, n, obj[f], obj2[f], txt))
                return False
        elif n == 1:
            s1 = 'bare-record' if state['form'][f] == 'single' else 'list'
            ctx.mon('M.stable.one-record')
            ctx.count('stable:built:%s:%s' % (tag_of(clsname, behavior), s1))
            ctx.count('stable:built:%s-reparsed-as-%s' % (s1, s2))           # the library's choice: counted only
    try:
        if behavior:
            obj2.size_field_behavior = behavior
        txt2 = obj2.dump()
    except Exception as e:
        ctx.violation('parse-dump-parse-unstable/dump-of-the-reparsed-object-raises/%s' % type(e).__name__,
                      '%s(%s): dump() of the object parsed from the dumped text %r raised %r' % (clsname, behavior, txt, e))
        return False
    if txt2 != txt:
        ctx.violation('parse-dump-parse-unstable/second-dump-differs%s' % ('/one-record-field-present' if ones else ''),
                      '%s(%s) %s: dump() = %r, but the object parsed from that text dumps as %r; records %r, held as %r'
                      % (clsname, behavior, origin, txt, txt2, expect, state['form']))
        return False
    if ones:
        ctx.mon('M.stable.redump-with-one-record-field')
    return True


def run_history(ctx, deb822, cls, clsname, obj, state, ops, origin):
    table = mv.DOC[clsname]
    ctx.count('hist:case')
    since = []            # mutation kinds since the previous dump
    ndump = 0
    prev_widths = None
    nontriv = False
    edited_mixed = False      # a field parsed from the mixed text layout was edited in place since the last dump
    for op in ops:
        if op[0] != 'dump':
            kind = op_kind(op, state)
            ctx.count('hist:op:%s' % kind)
            if INV_RE.search(json.dumps(op, ensure_ascii=False)):
                ctx.count('inv:hist-op:%s' % kind)
            if op[0] in ('append', 'insert', 'pop', 'set'):
                ctx.count('hist:op:in-place(any)')
                if op[2] in state['mixed']:
                    ctx.count('hist:op:in-place-on-mixed-layout-field')
                    edited_mixed = True
            try:
                lib_apply(deb822, obj, op, table)
            except Exception as e:
                ctx.violation('history-mutation-raises/%s/%s' % (kind, type(e).__name__),
                              '%s(%s) %s: public-API mutation %r raised %r; model before it: %r'
                              % (clsname, state['behavior'], origin, op, e, state['recs']))
                return
            model_apply(state, op, table)
            since.append(kind)
            continue
        ndump += 1
        ctx.count('hist:dump')
        suffix = '/after-%s' % OP_CLASS[since[-1]] if since else ('/redump-unchanged' if ndump > 1 else '')
        if ndump > 1:
            ctx.count('hist:redump')
            if not since:
                ctx.count('hist:redump-unchanged')
        for kind in set(since):
            ctx.count('hist:dump-after:%s' % kind)
        if 'behavior' in since:
            ctx.count('hist:dump-after-switch-to:%s' % state['behavior'])
        if any(OP_CLASS[k] == 'in-place-edit' for k in since):
            ctx.count('hist:dump-after-in-place-edit:%s' % origin)
        if edited_mixed:
            ctx.count('hist:dump-after-in-place-edit-on-mixed-layout-field')
            edited_mixed = False
        if state['mixed']:
            ctx.count('hist:dump-with-mixed-layout-field')
        if clsname in mv.ALIGNED:
            widths = widths_of(clsname, state['behavior'], state)
            if prev_widths is not None:
                common = [f for f in widths if f in prev_widths]
                if any(widths[f] > prev_widths[f] for f in common):
                    ctx.count('hist:redump-width-grew')
                if any(widths[f] < prev_widths[f] for f in common):
                    ctx.count('hist:redump-width-shrank')
                if any(widths[f] != prev_widths[f] for f in common):
                    ctx.count('hist:redump-width-changed:%s' % clsname)
            prev_widths = widths
        if [f for f in table if f not in state['recs']] and any(len(v) >= 2 for v in state['recs'].values()):
            nontriv = True
        if not dump_and_judge(ctx, cls, clsname, obj, state, op[1], origin, suffix):
            return
        ctx.mon('M.hist')
        since = []
    ctx.count('hist:dumps-per-case:%d' % ndump)
    if nontriv and ndump >= 2:
        ctx.nontrivial()


def count_mixed(ctx, case, mixed):
    """Coverage counters of the mixed text layout (first record on the field line, further records on
    continuation lines); `mixed` = the fields of this parsed case written that way."""
    clsname = case['cls']
    ctx.count('mixed:case')
    ctx.count('mixed:config:%s' % (clsname if not case['behavior'] else '%s-%s' % (clsname, case['behavior'])))
    ctx.count('mixed:input:%s' % case['input'])
    ctx.count('mixed:kind:%s' % ('history' if 'ops' in case else 'single-dump'))
    for f in mixed:
        n = len(case['expect'][f])
        ctx.count('mixed:field:%s:%s' % (clsname, f))
        ctx.count('mixed:records:%s' % (n if n <= 4 else '5+'))
        ctx.count('mixed:columns:%d' % len(mv.DOC[clsname][f]))
    if case.get('last_item') in mixed:
        ctx.count('mixed:is-last-field-of-paragraph')
    else:
        ctx.count('mixed:followed-by-another-field')
    layouts = set()
    for f, form in case['forms'].items():
        if form == 'multi':
            layouts.add('multi1' if len(case['expect'][f]) == 1 else 'multi')
        else:
            layouts.add(form)
    ctx.count('mixed:paragraph-layouts:%s' % '+'.join(sorted(layouts)))
    if len(layouts) >= 2:
        ctx.count('mixed:paragraph-with-other-layouts')
    if len(mixed) >= 2:
        ctx.count('mixed:paragraph-with-2+-mixed-fields')
    wl = case.get('wl')
    if wl and wl[0] == 'mixed-enum':
        ctx.count('mixed-enum:case')
        ctx.count('mixed-enum:field:%s:%s' % (clsname, wl[1]))
        ctx.count('mixed-enum:records:%d' % wl[2])
    elif wl and wl[0] == 'mixed-par':
        ctx.count('mixed-par:case')


def count_inv(ctx, case, scan):
    """Coverage counters of the invisible-character class, classified from the case itself; `scan` =
    inv_scan() of the records the case starts from."""
    clsname = case['cls']
    cfg = tag_of(clsname, case['behavior'])
    text = case['mode'] == 'text'
    ctx.count('inv:case')
    ctx.count('inv:config:%s' % cfg)
    ctx.count('inv:mode:%s' % case['mode'])
    ctx.count('inv:kind:%s' % ('history' if 'ops' in case else 'single-dump'))
    if text:
        ctx.count('inv:input:%s' % case['input'])
        ctx.count('inv:config-input:%s:%s' % (cfg, case['input']))
    else:
        ctx.count('inv:rectype:%s' % case.get('rectype'))
        if case.get('int_sizes'):
            ctx.count('inv:build-with-int-sizes')
    chars, poss, charpos, cols, layouts, recpos = set(), set(), set(), set(), set(), set()
    for (f, i, n, name, tok) in scan:
        ctx.count('inv:token')
        cs = set(tok) & INV_SET
        chars |= cs
        ps = inv_positions(tok)
        poss.update(ps)
        if len(cs) == 1:
            for c in cs:
                charpos.update((c, p) for p in ps)
        names = mv.DOC[clsname][f]
        cols.add('size' if name == 'size' else ('first-column' if name == names[0] else name.lower()))
        recpos.add('only' if n == 1 else ('first' if i == 0 else ('last' if i == n - 1 else 'middle')))
        if name == 'size' and clsname in mv.ALIGNED:
            ctx.count('inv:size-token-in-aligned-class')
        if text:
            form = case['forms'][f]
            layouts.add(form)
            on_field_line = form == 'single' or (form == 'mixed' and i == 0)
            if name == names[0] and 'start' in ps + (['start'] if ps == ['whole'] else []):
                ctx.count('inv:adjacent:line-%s-starts-with-invisible'
                          % ('after-field-name' if on_field_line else 'after-leading-space'))
            if name == names[-1] and ('end' in ps or ps == ['whole']):
                ctx.count('inv:adjacent:line-ends-with-invisible')
                if case.get('last_item') == f and i == n - 1:
                    ctx.count('inv:adjacent:paragraph-ends-with-invisible')
    ctx.count('inv:fields-with-invisible:%s' % min(len(set(x[0] for x in scan)), 3))
    for c in chars:
        ctx.count('inv:char:%s' % inv_name(c))
        ctx.count('inv:char-mode:%s:%s' % (inv_name(c), case['mode']))
        if text:
            ctx.count('inv:char-input:%s:%s' % (inv_name(c), case['input']))
    for p in poss:
        ctx.count('inv:pos:%s' % p)
        if text:
            ctx.count('inv:pos-input:%s:%s' % (p, case['input']))
    for (c, p) in charpos:
        ctx.count('inv:char-pos:%s:%s' % (inv_name(c), p))
    for c in cols:
        ctx.count('inv:column:%s' % c)
    for c in recpos:
        ctx.count('inv:record:%s' % c)
    for c in layouts:
        ctx.count('inv:layout:%s' % c)
    wl = case.get('wl')
    if wl and wl[0] == 'inv-enum':
        ctx.count('inv-enum:case')
        ctx.count('inv-enum:field:%s:%s:%s' % (cfg, wl[1], wl[2]))
        ctx.count('inv-enum:char-pos:%s:%s' % (wl[3], wl[4]))
        ctx.count('inv-enum:mode:%s' % case['mode'])
    elif wl and wl[0] == 'inv-par':
        ctx.count('inv-par:case')


# ---------------------------------------------------------------------------
# build routes: the live side

def route_record(deb822, names, tokens, rectype, int_size):
    """One record made by the caller: a plain dict (documented key order, or reversed), an OrderedDict, or the
    library's Deb822Dict (from a dict / from pairs)."""
    pairs = list(zip(names, tokens))
    tok = tokens[1]
    if int_size and tok.isascii() and tok.isdigit() and str(int(tok)) == tok:
        pairs[1] = (names[1], int(tok))
    if rectype == 'dict':
        return dict(pairs)
    if rectype == 'dict-rev':
        return dict(reversed(pairs))
    if rectype == 'ordereddict':
        import collections
        return collections.OrderedDict(reversed(pairs))
    if rectype == 'deb822dict':
        return deb822.Deb822Dict(dict(pairs))
    if rectype == 'deb822dict-pairs':
        return deb822.Deb822Dict(pairs)
    if rectype == 'deb822dict-rev':
        return deb822.Deb822Dict(list(reversed(pairs)))
    raise ValueError('unknown record type %r' % (rectype,))


def route_value(deb822, env, case, names, chunks, alias=False):
    """Live side of a chunk list."""
    if alias and len(chunks) == 1 and chunks[0][0] == 'src' and chunks[0][3] == ['whole'] and chunks[0][4] == 'same':
        val = env['srcobjs'][chunks[0][1]][chunks[0][2]]
        if not hasattr(val, 'keys'):
            env['aliased'] = True
            return val                    # the very list object the other paragraph holds
    out = []
    for ch in chunks:
        if ch[0] == 'new':
            out.append(route_record(deb822, names, ch[1], ch[2], ch[3]))
            continue
        _, si, f2, sel, how = ch
        val = env['srcobjs'][si][f2]
        lst = [val] if hasattr(val, 'keys') else val
        k = sel[0]
        if k == 'idx':
            picked = [lst[i] for i in sel[1]]
        elif k == 'slice':
            picked = lst[slice(sel[1], sel[2], sel[3])]
        elif k == 'reversed':
            picked = list(reversed(lst))
        elif k == 'sorted':
            picked = sorted(lst, key=lambda rec: rec[names[sel[1]]])
        elif k == 'filter-len':
            picked = [rec for rec in lst if len(rec[names[sel[1]]]) <= sel[2]]
        elif k == 'whole':
            picked = list(lst)
        else:
            raise ValueError('unknown selection %r' % (sel,))
        for rec in picked:
            if how == 'same':
                out.append(rec)
            elif how == 'dict':
                out.append(dict(rec))
            elif how == 'copy':
                out.append(rec.copy())
            elif how == 'deb822dict':
                out.append(deb822.Deb822Dict(rec))
            elif how == 'items':
                out.append(dict(rec.items()))
            else:
                raise ValueError('unknown way to take a record %r' % (how,))
    return out


def route_access(deb822, env, case, names, key, f, access):
    obj = env['obj']
    if access == 'getitem':
        return obj[key]
    if access == 'get':
        return obj.get(key)
    if access == 'held':
        return env['held'][f]
    if access[0] == 'setdefault':
        return obj.setdefault(key, route_value(deb822, env, case, names, access[1]))
    raise ValueError('unknown access %r' % (access,))


def route_read(deb822, cls, env, step, table):
    _, key, f, how = step
    obj = env['obj']
    if how == 'getitem':
        obj[key]
    elif how == 'getitem-absent':
        try:
            obj[key]
        except KeyError:
            pass
    elif how == 'get':
        obj.get(key)
    elif how == 'get-default':
        obj.get(key, [])
    elif how == 'len':
        len(obj[key])
    elif how == 'bool':
        bool(obj[key])
    elif how == 'iter':
        for rec in obj[key]:
            for name in table[f]:
                rec[name]
    elif how == 'contains':
        key in obj
    elif how == 'list-copy':
        list(obj[key])
        obj[key][:]
        sorted(obj[key], key=lambda rec: str(rec[table[f][1]]))
        list(reversed(obj[key]))
    elif how == 'rec-read':
        lst = obj[key]
        lst[0][table[f][1]]
        lst[-1].get(table[f][-1])
        list(lst[0].items())
        dict(lst[-1])
    elif how == 'items':
        list(obj.items())
    elif how == 'values':
        list(obj.values())
    elif how == 'keys':
        list(obj.keys())
        list(obj)
    elif how == 'len-obj':
        len(obj)
    elif how == 'repr':
        repr(obj)
    elif how == 'dict':
        dict(obj)
    elif how == 'eq':
        obj == obj
        obj != cls()
    elif how == 'get_as_string':
        obj.get_as_string(key)
    elif how == 'str':
        str(obj)
    else:
        raise ValueError('unknown read %r' % (how,))


def route_new(ctx, deb822, cls, env, step, case, table):
    """The paragraph object.  Returns (object, {text field: exposed as records?}).  A constructor that refuses a
    mapping holding record lists or record text (the unchanged tree refuses record lists with AttributeError) is
    counted, not judged: the object is then made from the plain fields and the structured ones are assigned."""
    how, items = step[1], step[2]

    def make(m):
        if how == 'mapping':
            return cls(m)
        if how == 'kw':
            return cls(sequence=m)
        if how == 'deb822dict':
            return cls(deb822.Deb822Dict(m))
        raise ValueError('unknown constructor form %r' % (how,))

    ctx.count('route:new:%s' % how)
    if how == 'empty':
        return cls(), {}
    full, plain, structured = {}, {}, []
    for it in items:
        if it[1] == 'plain':
            full[it[0]] = plain[it[0]] = it[2]
        elif it[1] == 'text':
            full[it[0]] = it[5]
            structured.append(it)
        else:
            full[it[0]] = route_value(deb822, env, case, table[it[2]], it[3])
            structured.append(it)
    kinds = sorted(set(it[1] for it in structured))
    outcome = {}
    if not structured:
        return make(full), outcome
    try:
        obj = make(full)
    except Exception as e:
        for k in kinds:
            ctx.count('route:ctor-%s-in-mapping:refused:%s' % (k, type(e).__name__))
        obj = make(plain)
        for it in structured:
            if it[1] == 'text':
                outcome[it[2]] = False
                obj[it[0]] = [route_record(deb822, table[it[2]], rec, 'dict', False) for rec in it[3]]
            else:
                obj.update({it[0]: full[it[0]]})
        return obj, outcome
    for k in kinds:
        ctx.count('route:ctor-%s-in-mapping:accepted' % k)
    for it in structured:
        if it[1] != 'text':
            continue
        f = it[2]
        if compare_records(obj, {f: table[f]}, {f: it[3]}):
            # not turned into records: nothing is demanded of record TEXT inside a mapping - assign the records
            ctx.count('route:ctor-text-in-mapping:not-exposed-as-records')
            outcome[f] = False
            obj[it[0]] = [route_record(deb822, table[f], rec, 'dict', False) for rec in it[3]]
        else:
            ctx.count('route:ctor-text-in-mapping:exposed-as-records:%s' % it[4])
    return obj, outcome


def route_apply(ctx, deb822, cls, env, step, case, table):
    """One build step through the public API of the live object."""
    obj = env['obj']
    k = step[0]
    if k == 'behavior':
        if step[2] == 'setter':
            obj.set_size_field_behavior(step[1])
        else:
            obj.size_field_behavior = step[1]
    elif k == 'plain':
        _, key, v, how = step
        if how == 'setitem':
            obj[key] = v
        elif how == 'update':
            obj.update({key: v})
        else:
            obj.setdefault(key, v)
    elif k == 'put':
        _, key, f, how, chunks, alias = step
        value = route_value(deb822, env, case, table[f], chunks, alias)
        if how == 'setitem':
            obj[key] = value
        elif how == 'update-mapping':
            obj.update({key: value})
        elif how == 'update-pairs':
            obj.update([(key, value)])
        elif how == 'update-kw':
            obj.update(**{key: value})
        elif how == 'setdefault':
            obj.setdefault(key, value)
        else:
            raise ValueError('unknown assignment form %r' % (how,))
    elif k == 'hold':
        _, key, f, access = step
        env['held'][f] = route_access(deb822, env, case, table[f], key, f, access)
    elif k == 'grow':
        _, key, f, access, method, chunks = step
        names = table[f]
        value = route_value(deb822, env, case, names, chunks)
        get = lambda: route_access(deb822, env, case, names, key, f, access)
        if not value:
            get()                         # nothing to add: the access itself (a setdefault, say) still happens
        elif method == 'append':
            for rec in value:
                get().append(rec)
        elif method == 'insert0':
            for rec in value:
                get().insert(0, rec)
        elif method == 'extend':
            get().extend(value)
        elif method == 'extend-gen':
            get().extend(rec for rec in value)
        elif method == 'slice':
            lst = get()
            lst[len(lst):] = value
        elif method == 'iadd':
            if access == 'getitem':
                obj[key] += value
            else:
                lst = get()
                lst += value
        elif method == 'concat':
            obj[key] = get() + value
        else:
            raise ValueError('unknown list method %r' % (method,))
    elif k == 'read':
        route_read(deb822, cls, env, step, table)
    elif k == 'update-from':
        obj.update(env['srcobjs'][step[1]])
    elif k == 'delete':
        if step[3] == 'pop':
            obj.pop(step[1])
        else:
            del obj[step[1]]
    else:
        raise ValueError('unknown route step %r' % (step,))


def route_callerlist(ctx, deb822, cls, env, step, case, table):
    """lst = [...]; para[field] = lst; lst.extend(...): whether the paragraph keeps the caller's list or a copy is
    the library's choice - done on a throw-away object, the outcome is counted and nothing is judged."""
    _, key, f, before, after = step
    try:
        probe = cls()
        lst = route_value(deb822, env, case, table[f], before)
        probe[key] = lst
        lst.extend(route_value(deb822, env, case, table[f], after))
        n = len(probe[key])
        if n == len(before) + len(after):
            ctx.count('route:callerlist:paragraph-shows-the-later-appends')
        elif n == len(before):
            ctx.count('route:callerlist:paragraph-keeps-what-was-assigned')
        else:
            ctx.count('route:callerlist:other')
        probe.dump()
    except Exception as e:
        ctx.count('route:callerlist:raised:%s' % type(e).__name__)


def count_route(ctx, case):
    """Coverage counters of the build-route class, classified from the case itself."""
    clsname = case['cls']
    cfg = tag_of(clsname, case['behavior'])
    table = mv.DOC[clsname]
    tmpl = case['templates']
    ctx.count('route:case')
    ctx.count('route:config:%s' % cfg)
    for f, t in tmpl.items():
        ctx.count('route:template:%s' % t)
        ctx.count('route:config-template:%s:%s' % (cfg, t))
    n = len(tmpl)
    ctx.count('route:other-structured-fields:%s' % ('none' if n <= 1 else ('all-present' if n == len(table) else 'some')))
    if len(set(tmpl.values())) >= 2:
        ctx.count('route:paragraph-with-2+-different-routes')
    wl = case.get('wl')
    if wl and wl[0] == 'route-enum':
        ctx.count('route-enum:case')
        ctx.count('route-enum:%s:%s' % (cfg, wl[2]))
        ctx.count('route-enum:field:%s:%s' % (clsname, wl[1]))
    elif wl and wl[0] == 'route-par':
        ctx.count('route-par:case')
    srcs = case.get('srcs', [])
    if srcs:
        ctx.count('route:src:case')
    for s in srcs:
        ctx.count('route:src:%s' % ('same-class' if s['cls'] == clsname else 'other-class'))
        ctx.count('route:src:input:%s' % s['input'])
        if s.get('dump_first'):
            ctx.count('route:src:dumped-before-its-records-were-taken')
    chunks_seen = []
    for step in case['steps']:
        if step[0] == 'new':
            for it in step[2]:
                if it[1] == 'records':
                    chunks_seen.extend(it[3])
        elif step[0] == 'put':
            chunks_seen.extend(step[4])
        elif step[0] == 'grow':
            chunks_seen.extend(step[5])
            if isinstance(step[3], list):
                chunks_seen.extend(step[3][1])
    for ch in chunks_seen:
        if ch[0] == 'new':
            ctx.count('route:rectype:%s' % ch[2])
            if ch[3]:
                ctx.count('route:rectype:int-size')
        else:
            ctx.count('route:src:how:%s' % ch[4])
            ctx.count('route:src:selection:%s' % ch[3][0])
            ctx.count('route:src:form:%s' % srcs[ch[1]]['forms'][ch[2]])


def run_route(ctx, deb822, cls, clsname, case):
    table = mv.DOC[clsname]
    count_route(ctx, case)
    # -- the other paragraphs (parsed as usual; a wrong parse is the ordinary parse finding)
    srcobjs = []
    for s in case.get('srcs', []):
        cls2 = getattr(deb822, s['cls'])
        try:
            so = construct(deb822, cls2, s['text'], s['input'])
        except Exception as e:
            ctx.violation('parse-raises/%s' % type(e).__name__, 'parsing %r raised %r' % (s['text'], e))
            return
        if s['behavior']:
            so.size_field_behavior = s['behavior']
        bad = compare_records(so, mv.DOC[s['cls']], s['expect'])
        if bad:
            where = '/first-record-on-field-line-plus-continuation-lines' if s['forms'].get(bad[0]) == 'mixed' else ''
            ctx.violation('parse-%s%s' % (bad[1], where), '%s(%s input): %s; text=%r' % (s['cls'], s['input'], bad[2], s['text']))
            return
        if s.get('dump_first'):
            try:
                do_dump(so, s['dump_first'])
            except Exception as e:
                absent = [f for f in mv.DOC[s['cls']] if f not in s['expect']]
                singles = sorted(f for f, v in s['forms'].items() if v == 'single')
                ctx.violation(dump_key(s['cls'], s['behavior'], e, absent, singles),
                              'dump() of a parsed %s(%s) raised %s(%s)' % (s['cls'], s['behavior'], type(e).__name__, e))
                return
        srcobjs.append(so)

    env = {'obj': None, 'held': {}, 'srcobjs': srcobjs, 'aliased': False}
    state = route_state(case)
    since = {}               # field -> what happened to it / the paragraph since its last grow
    setdefault_first = set()
    nmid = 0
    for step in case['steps']:
        k = step[0]
        tag = step_tag(step)
        ctx.count('route:step:%s' % tag)
        if k == 'dump':
            if not (state['recs'] and route_dumpable(state)):
                ctx.count('route:dump:skipped-outside-domain')
                continue
            ctx.count('route:dump:intermediate')
            if not dump_and_judge(ctx, cls, clsname, env['obj'], state, step[1], 'built',
                                  '/intermediate-dump-of-incrementally-built-paragraph'):
                return
            ctx.mon('M.route.mid')
            nmid += 1
            for f in table:
                since.setdefault(f, set()).add('dump')
            continue
        if k == 'callerlist':
            route_callerlist(ctx, deb822, cls, env, step, case, table)
            continue
        try:
            if k == 'new':
                env['obj'], outcome = route_new(ctx, deb822, cls, env, step, case, table)
                env['sibling'] = cls()
            else:
                outcome = None
                route_apply(ctx, deb822, cls, env, step, case, table)
        except Exception as e:
            ctx.violation('build-step-raises/%s/%s' % (tag, type(e).__name__),
                          '%s(%s): build step %r raised %r; records so far (model): %r'
                          % (clsname, state['behavior'], step, e, state['recs']))
            return
        if k in ('grow', 'hold') and isinstance(step[3], list) and step[2] not in state['recs']:
            if step[3][1]:
                ctx.count('route:setdefault:default-with-records-into-absent-field')
            else:
                ctx.count('route:setdefault:empty-default-into-absent-field')
            if k == 'grow':
                setdefault_first.add(step[2])
                ctx.count('route:setdefault:first-record-through-the-returned-list')
        elif k == 'grow' and isinstance(step[3], list) and step[3][1]:
            ctx.count('route:setdefault:default-on-present-field-must-be-ignored')
        if k == 'put' and step[3] == 'setdefault' and step[2] in state['recs']:
            ctx.count('route:setdefault:default-on-present-field-must-be-ignored')
        route_model(state, step, case, outcome)
        if k == 'read':
            for f in ([step[2]] if step[2] else list(table)):
                since.setdefault(f, set()).add('read:%s' % step[3])
        elif k == 'grow':
            for what in since.pop(step[2], ()):
                ctx.count('route:grow-after:%s' % what)
    if not route_dumpable(state):
        raise ValueError('case outside the domain: a structured field ends up with no record')
    if env['aliased']:
        ctx.count('route:list-object-of-another-paragraph-handed-over')
    ctx.count('route:dump:final')
    ctx.count('route:intermediate-dumps:%d' % min(nmid, 3))
    for f, recs in state['recs'].items():
        ctx.count('route:records:%s' % nrec_tag(len(recs)))
    if [f for f in table if f not in state['recs']] and any(len(v) >= 2 for v in state['recs'].values()):
        ctx.nontrivial()
    if not dump_and_judge(ctx, cls, clsname, env['obj'], state, case.get('dump_via', 'str'), 'built',
                          '/incrementally-built-paragraph'):
        return
    ctx.mon('M.route')
    if setdefault_first:
        ctx.mon('M.route.setdefault')
    # -- what went into THIS paragraph must not show in a paragraph made before it or after it
    for which, other in (('made-before', env.get('sibling')), ('made-after', cls())):
        leaked = [f for f in sorted(table) if f in other]
        if leaked:
            ctx.violation('other-paragraph-changed/empty-paragraph-%s-shows-structured-field' % which,
                          '%s: an empty %s() %s the incrementally built one shows %r = %r'
                          % (clsname, clsname, which.replace('-', ' '), leaked[0], other[leaked[0]]))
            return
        ctx.mon('M.route.others')
    if any(ch[0] == 'src' for step in case['steps'] if step[0] in ('put', 'grow')
           for ch in (step[4] if step[0] == 'put' else step[5])) or any(s.get('whole') for s in case.get('srcs', [])):
        ctx.mon('M.route.src')
    # -- taking records out of a paragraph (reading, copying, slicing) must leave that paragraph as it was
    for s, so in zip(case.get('srcs', []), srcobjs):
        if s.get('whole'):
            continue                  # its lists were handed over as a whole and may have been appended to
        bad = compare_records(so, mv.DOC[s['cls']], s['expect'])
        if bad:
            ctx.violation('source-paragraph-changed-after-its-records-were-taken/%s' % bad[1],
                          '%s: %s' % (s['cls'], bad[2]))
            return
        ctx.mon('M.route.src-unchanged')


# ---------------------------------------------------------------------------
# constructor spellings / argument types: the live side

class _BareMapping(collections.abc.Mapping):
    """A mapping that is nothing but a collections.abc.Mapping (no dict, no Deb822Dict)."""

    def __init__(self, pairs):
        self._d = dict(pairs)

    def __getitem__(self, key):
        return self._d[key]

    def __iter__(self):
        return iter(self._d)

    def __len__(self):
        return len(self._d)


_CTOR_DIR = []
MUTABLE_MAPS = frozenset(['deb822', 'deb822-from-bytes', 'deb822-from-lines', 'deb822-from-file',
                          'deb822-from-iter_paragraphs', 'deb822-copy', 'deb822-built', 'deb822-from-dict', 'deb822dict',
                          'deb822dict-from-dict', 'deb822dict-built', 'dict', 'ordereddict', 'userdict', 'chainmap',
                          'defaultdict'])


def _ctor_dir(ctx):
    if not _CTOR_DIR:
        d = tempfile.mkdtemp(prefix='vp-C12-', dir='/dev/shm' if os.path.isdir('/dev/shm') else None)
        ctx._tmpdirs.append(d)
        _CTOR_DIR.append(d)
    return _CTOR_DIR[0]


def _lines_nl(text):
    parts = text.split('\n')
    last = parts.pop()
    return [p + '\n' for p in parts] + ([last] if last else [])


def ctor_source(ctx, form, text):
    """(the argument object, close() or None) for one text source form."""
    if form == 'str':
        return text, None
    if form == 'bytes':
        return text.encode('utf-8'), None
    if form == 'list':
        return _lines_nl(text), None
    if form == 'list-nonl':
        return text.split('\n'), None
    if form == 'list-bytes':
        return [l.encode('utf-8') for l in _lines_nl(text)], None
    if form == 'tuple':
        return tuple(_lines_nl(text)), None
    if form == 'stringio':
        f = io.StringIO(text)
        return f, f.close
    if form == 'bytesio':
        f = io.BytesIO(text.encode('utf-8'))
        return f, f.close
    if form in ('textfile', 'binaryfile'):
        path = os.path.join(_ctor_dir(ctx), 'input')
        with open(path, 'wb') as f:
            f.write(text.encode('utf-8'))
        f = open(path, 'r', encoding='utf-8') if form == 'textfile' else open(path, 'rb')
        return f, f.close
    if form == 'gen':
        return (l for l in _lines_nl(text)), None
    if form == 'gen-nonl':
        return (l for l in text.split('\n')), None
    if form == 'gen-bytes':
        return (l.encode('utf-8') for l in _lines_nl(text)), None
    if form == 'iter-list':
        return iter(_lines_nl(text)), None
    if form == 'iter-bytes':
        return iter([l.encode('utf-8') for l in _lines_nl(text)]), None
    raise ValueError('unknown source form %r' % (form,))


def ctor_mapping(deb822, cls, mtype, text):
    """The mapping handed to the constructor: the fields of ONE paragraph as raw text (same-class: as records)."""
    raw = [tuple(kv) for kv in raw_fields(text)]
    if mtype == 'deb822':
        return deb822.Deb822(text)
    if mtype == 'deb822-from-bytes':
        return deb822.Deb822(text.encode('utf-8'))
    if mtype == 'deb822-from-lines':
        return deb822.Deb822(_lines_nl(text))
    if mtype == 'deb822-from-file':
        return deb822.Deb822(io.StringIO(text))
    if mtype == 'deb822-from-iter_paragraphs':
        return next(iter(deb822.Deb822.iter_paragraphs(text)))
    if mtype == 'deb822-copy':
        return deb822.Deb822(text).copy()
    if mtype == 'deb822-built':
        m = deb822.Deb822()
        for k, v in raw:
            m[k] = v
        return m
    if mtype == 'deb822-from-dict':
        return deb822.Deb822(dict(raw))
    if mtype == 'deb822dict':
        return deb822.Deb822Dict(raw)
    if mtype == 'deb822dict-from-dict':
        return deb822.Deb822Dict(dict(raw))
    if mtype == 'deb822dict-built':
        m = deb822.Deb822Dict()
        for k, v in raw:
            m[k] = v
        return m
    if mtype == 'dict':
        return dict(raw)
    if mtype == 'ordereddict':
        return collections.OrderedDict(raw)
    if mtype == 'mappingproxy':
        return types.MappingProxyType(dict(raw))
    if mtype == 'mappingproxy-of-ordereddict':
        return types.MappingProxyType(collections.OrderedDict(raw))
    if mtype == 'mappingproxy-of-deb822':
        return types.MappingProxyType(deb822.Deb822(text))
    if mtype == 'userdict':
        return collections.UserDict(raw)
    if mtype == 'abc-mapping':
        return _BareMapping(raw)
    if mtype == 'chainmap':
        return collections.ChainMap(dict(raw))
    if mtype == 'defaultdict':
        return collections.defaultdict(str, raw)
    if mtype == 'same-class':
        return cls(text)
    raise ValueError('unknown mapping type %r' % (mtype,))


def ctor_invoke(cls, api, call, x, case):
    """The call in the spelling under test; for api 'iter' the (lazy) iterator."""
    target = cls if api == 'ctor' else cls.iter_paragraphs
    F = case.get('fields')
    if call == 'pos':
        return target(x)
    if call == 'kw':
        return target(sequence=x)
    if call == 'kw+fields':
        return target(sequence=x, fields=list(F))
    if call == 'fields+kw':
        return target(fields=list(F), sequence=x)
    if call == 'pos+fields':
        return target(x, list(F))
    if call == 'pos+fields-kw':
        return target(x, fields=list(F))
    if call == 'kw+encoding':
        return target(sequence=x, encoding='utf-8')
    if call == 'pos+encoding':
        return target(x, encoding='utf-8')
    if call == 'kw+strict':
        return target(sequence=x, strict={'whitespace-separates-paragraphs': bool(case.get('strict_value'))})
    if call == 'kw+all':
        if api == 'ctor':
            return target(sequence=x, fields=None, encoding='utf-8', strict=None)
        return target(sequence=x, fields=None, use_apt_pkg=False, shared_storage=False, encoding='utf-8', strict=None)
    if call == 'pos-all':
        if api == 'ctor':
            return target(x, None, None, 'utf-8')
        return target(x, None, False, False, 'utf-8')
    if call == 'kw+apt-false':
        return target(sequence=x, use_apt_pkg=False)
    if call == 'kw+apt-requested':
        return target(sequence=x, use_apt_pkg=True)
    if call == 'kw+shared':
        return target(sequence=x, shared_storage=True)
    raise ValueError('unknown call spelling %r' % (call,))


def ctor_tag(case):
    return '%s/%s-source/%s-call' % ('constructor' if case['api'] == 'ctor' else 'iter_paragraphs',
                                     src_class(case['src']), call_class(case['call']))


def ctor_describe(case):
    return '%s %s from %s, call spelling %r%s' % (
        case['cls'], 'constructor' if case['api'] == 'ctor' else 'iter_paragraphs', case['src'], case['call'],
        ' fields=%r' % (case['fields'],) if case.get('fields') is not None else '')


def ctor_expect(case, obj, par):
    """The records demanded of one paragraph object.  Without fields= : every structured field written.  With
    fields= : the listed ones must be there; one that is not listed may have been discarded - if the object shows
    it nevertheless it must show the right records."""
    if case.get('fields') is None:
        return par['expect']
    listed = set(x.lower() for x in case['fields'])
    return dict((f, recs) for f, recs in par['expect'].items() if f in listed or f in obj)


def ctor_compare(ctx, case, obj, par, stage, tally=False):
    """None, or (kind, message): the paragraph object against the model of the paragraph written."""
    table = mv.DOC[case['cls']]
    try:
        n = len(obj)
    except Exception as e:
        return 'len-raises-%s' % type(e).__name__, 'len() of the paragraph raised %r' % (e,)
    if n == 0 and raw_fields(par['text']):
        return 'paragraph-comes-out-empty', ('the paragraph has NO field at all although %d were handed over (%s)'
                                             % (len(raw_fields(par['text'])), stage))
    expect = ctor_expect(case, obj, par)
    if case.get('fields') is not None and tally:
        listed = set(x.lower() for x in case['fields'])
        for f in par['expect']:
            ctx.count('ctor:fields:%s:structured-field-%s'
                      % (src_class(case['src']),
                         'listed' if f in listed else ('unlisted-kept' if f in expect else 'unlisted-dropped')))
    bad = compare_records(obj, table, expect)
    if bad:
        return bad[1], bad[2]
    return None


def ctor_state(case, obj, par):
    expect = ctor_expect(case, obj, par)
    return {'recs': copy.deepcopy(expect),
            'form': dict((f, 'single' if par['forms'][f] == 'single' else 'list') for f in expect),
            'behavior': case['behavior'],
            'mixed': set(f for f in expect if par['forms'][f] == 'mixed')}


def ctor_paragraph(ctx, deb822, cls, case, obj, par, stage):
    """The ordinary judgement of one paragraph object: records == model, dump returns, width rule, the dump
    re-parses to the model.  Returns the dumped text, or None after a violation."""
    clsname = case['cls']
    tag = ctor_tag(case)
    bad = ctor_compare(ctx, case, obj, par, stage, tally=True)
    if bad:
        ctx.violation('%s/%s' % (tag, bad[0]), '%s: %s; %s; handed over: %r'
                      % (ctor_describe(case), stage, bad[1], ctor_doc(case)))
        return None
    if case['behavior']:
        obj.size_field_behavior = case['behavior']
    state = ctor_state(case, obj, par)
    if not dump_and_judge(ctx, cls, clsname, obj, state, case.get('dump_via', 'str'), 'parsed', '/' + tag):
        return None
    return state['last_dump']


def count_ctor(ctx, case):
    api, src, call = case['api'], case['src'], case['call']
    cfg = tag_of(case['cls'], case['behavior'])
    ctx.count('ctor:case')
    ctx.count('ctor:api:%s' % api)
    ctx.count('ctor:%s:config:%s' % (api, cfg))
    ctx.count('ctor:%s:src:%s' % (api, src))
    ctx.count('ctor:%s:call:%s' % (api, call))
    ctx.count('ctor:%s:src-class:%s:%s-call' % (api, src_class(src), call_class(call)))
    ctx.count('ctor:%s:config-src-class:%s:%s' % (api, cfg, src_class(src)))
    if case.get('signed'):
        ctx.count('ctor:%s:signed' % api)
        ctx.count('ctor:%s:signed:%s:%s-call' % (api, src_class(src), call_class(call)))
    if api == 'iter':
        ctx.count('ctor:iter:paragraphs:%d' % len(case['pars']))
        ctx.count('ctor:iter:consume:%s' % case.get('consume'))
        ctx.count('ctor:iter:consume:%s:%s' % (case.get('consume'), src_class(src)))
    if case.get('close'):
        ctx.count('ctor:close:%s' % case['close'])
    if not case.get('signed'):
        if case.get('lead'):
            ctx.count('ctor:lead:blank-line')
        ctx.count('ctor:tail:%s' % case.get('tail'))
    for p in case['pars']:
        for f, form in p['forms'].items():
            ctx.count('ctor:layout:%s' % form)
            ctx.count('ctor:layout:%s:%s' % (form, src_class(src)))
    wl = case.get('wl')
    if wl and wl[0] == 'ctor-enum':
        ctx.count('ctor-enum:%s:%s:%s' % (api, src, call))
        ctx.count('ctor-enum:%s:%s' % (api, cfg))


def run_ctor(ctx, deb822, cls, clsname, case):
    table = mv.DOC[clsname]
    api, src, call = case['api'], case['src'], case['call']
    count_ctor(ctx, case)
    if any([f for f in table if f not in p['expect']] and any(len(v) >= 2 for v in p['expect'].values())
           for p in case['pars']):
        ctx.nontrivial()
    if src.startswith('map:'):
        run_ctor_map(ctx, deb822, cls, clsname, case)
        return
    doc = ctor_doc(case)
    tag = ctor_tag(case)
    if api == 'ctor':
        par = case['pars'][0]
        x, close = ctor_source(ctx, src, doc)
        try:
            try:
                obj = ctor_invoke(cls, api, call, x, case)
            except Exception as e:
                ctx.violation('%s/raises-%s' % (tag, type(e).__name__),
                              '%s raised %r; handed over: %r' % (ctor_describe(case), e, doc))
                return
            if close and case.get('close') == 'early':
                close()
                close = None
            txt = ctor_paragraph(ctx, deb822, cls, case, obj, par, 'constructed object')
        finally:
            if close:
                close()
        if txt is None:
            return
        ctor_monitors(ctx, case)
        # the dumped text once more through the SAME spelling
        x, close = ctor_source(ctx, src, txt)
        try:
            try:
                obj2 = ctor_invoke(cls, api, call, x, case)
            except Exception as e:
                ctx.violation('%s/raises-%s/on-the-dumped-text' % (tag, type(e).__name__),
                              '%s raised %r on the text the first object dumped: %r' % (ctor_describe(case), e, txt))
                return
            bad = ctor_compare(ctx, case, obj2, par, 'dumped text parsed through the same spelling')
        finally:
            if close:
                close()
        if bad:
            ctx.violation('%s/%s/on-the-dumped-text' % (tag, bad[0]),
                          '%s: %s; dumped text: %r' % (ctor_describe(case), bad[1], txt))
            return
        ctx.mon('M.ctor.respell')
        return
    run_ctor_iter(ctx, deb822, cls, clsname, case, doc)


def ctor_monitors(ctx, case, n=1):
    src, call = case['src'], case['call']
    ctx.mon('M.ctor' if case['api'] == 'ctor' else 'M.iter', n)
    sc = src_class(src)
    ctx.mon('M.ctor.%s' % sc, n)
    if call_class(call) == 'keyword':
        ctx.mon('M.ctor.kw', n)
        ctx.mon('M.ctor.kw.%s' % sc, n)
    if case.get('fields') is not None:
        ctx.mon('M.ctor.fields', n)


def _iterate(ctx, cls, case, doc, each):
    """Run iter_paragraphs in the spelling under test over `doc`; `each(index, obj)` returns False to stop.
    Returns None after a violation, else the number of paragraphs yielded."""
    api, src, call = 'iter', case['src'], case['call']
    tag = ctor_tag(case)
    limit = len(case['pars']) + 2
    x, close = ctor_source(ctx, src, doc)
    n = 0
    try:
        with warnings.catch_warnings(record=True) as caught:
            if call == 'kw+apt-requested':
                warnings.simplefilter('always')
            try:
                it = ctor_invoke(cls, api, call, x, case)
                how = case.get('consume', 'list')
                if how == 'list':
                    objs = list(itertools.islice(it, limit))
                    for obj in objs:
                        if not each(n, obj):
                            return None
                        n += 1
                elif how == 'for':
                    for obj in it:
                        if not each(n, obj):
                            return None
                        n += 1
                        if n >= limit:
                            break
                else:
                    it = iter(it)
                    while n < limit:
                        try:
                            obj = next(it)
                        except StopIteration:
                            break
                        if not each(n, obj):
                            return None
                        n += 1
            except Exception as e:
                ctx.violation('%s/raises-%s' % (tag, type(e).__name__),
                              '%s raised %r after %d paragraph(s); handed over: %r\n%s'
                              % (ctor_describe(case), e, n, doc, traceback.format_exc(limit=6)))
                return None
        if call == 'kw+apt-requested':
            ctx.count('ctor:iter:apt-requested:warnings:%d' % min(len(caught), 2))
    finally:
        if close:
            close()
    return n


def run_ctor_iter(ctx, deb822, cls, clsname, case, doc):
    pars = case['pars']
    tag = ctor_tag(case)
    dumps = []

    def each(i, obj):
        if i >= len(pars):
            ctx.violation('%s/more-paragraphs-than-written' % tag,
                          '%s yielded paragraph number %d (%r) from a document of %d paragraph(s): %r'
                          % (ctor_describe(case), i + 1, dict(obj), len(pars), doc))
            return False
        txt = ctor_paragraph(ctx, deb822, cls, case, obj, pars[i], 'paragraph %d of %d' % (i + 1, len(pars)))
        if txt is None:
            return False
        dumps.append(txt)
        return True

    n = _iterate(ctx, cls, case, doc, each)
    if n is None:
        return
    if n != len(pars):
        ctx.violation('%s/paragraph-lost' % tag, '%s yielded %d paragraph(s) from a document of %d: %r'
                      % (ctor_describe(case), n, len(pars), doc))
        return
    ctor_monitors(ctx, case, n)
    ctx.mon('M.iter.count')
    # the dumped paragraphs as one document, once more through the same spelling
    doc2 = '\n'.join(dumps)

    def again(i, obj):
        if i >= len(pars):
            ctx.violation('%s/more-paragraphs-than-written/on-the-dumped-text' % tag,
                          '%s yielded paragraph number %d from the %d dumped paragraph(s): %r'
                          % (ctor_describe(case), i + 1, len(pars), doc2))
            return False
        bad = ctor_compare(ctx, case, obj, pars[i], 'dumped document parsed through the same spelling')
        if bad:
            ctx.violation('%s/%s/on-the-dumped-text' % (tag, bad[0]), '%s: paragraph %d: %s; dumped document: %r'
                          % (ctor_describe(case), i + 1, bad[1], doc2))
            return False
        return True

    n2 = _iterate(ctx, cls, case, doc2, again)
    if n2 is None:
        return
    if n2 != len(pars):
        ctx.violation('%s/paragraph-lost/on-the-dumped-text' % tag,
                      '%s yielded %d paragraph(s) from the %d dumped ones: %r' % (ctor_describe(case), n2, len(pars), doc2))
        return
    ctx.mon('M.ctor.respell')


def _map_snapshot(m):
    return [(k, m[k]) for k in m]


def run_ctor_map(ctx, deb822, cls, clsname, case):
    table = mv.DOC[clsname]
    mtype = case['src'][4:]
    par = case['pars'][0]
    text = par['text']
    tag = ctor_tag(case)
    ctx.count('ctor:map:%s:driven' % mtype)
    ctx.count('ctor:map-call:%s:%s' % (mtype, case['call']))
    # control: the same text parsed directly must show the model's records - otherwise it is the ordinary finding
    try:
        direct = cls(text)
        bad = compare_records(direct, table, par['expect'])
    except Exception as e:
        ctx.violation('parse-raises/%s' % type(e).__name__, 'parsing %r raised %r' % (text, e))
        return
    if bad:
        ctx.violation('parse-%s' % bad[1], '%s(str input): %s; text=%r' % (clsname, bad[2], text))
        return
    m = ctor_mapping(deb822, cls, mtype, text)
    records_inside = mtype == 'same-class'
    snap = None if records_inside else _map_snapshot(m)
    if snap is not None and snap != [tuple(kv) for kv in raw_fields(text)]:
        # the generic paragraph does not hold the raw text the way this harness spells it: not this property's
        # business (C02 / C09 own generic paragraphs) - nothing is demanded of the case
        ctx.count('ctor:map:%s:source-does-not-hold-the-raw-text' % mtype)
        return
    try:
        obj = ctor_invoke(cls, 'ctor', case['call'], m, case)
    except Exception as e:
        ctx.count('ctor:map:%s:refused:%s' % (mtype, type(e).__name__))
        return
    ctx.count('ctor:map:%s:accepted' % mtype)
    txt = ctor_paragraph(ctx, deb822, cls, case, obj, par, 'object constructed from the mapping')
    if txt is None:
        return
    ctor_monitors(ctx, case)
    ctx.mon('M.ctor.map')
    if records_inside:
        return
    now = _map_snapshot(m)
    if now != snap:
        ctx.violation('%s/mapping-argument-changed-by-the-constructor' % tag,
                      '%s: the mapping held %r before the call and holds %r after it' % (ctor_describe(case), snap, now))
        return
    ctx.mon('M.ctor.map.source-unchanged')
    then = case.get('then', 'none')
    present = sorted(par['expect'])
    if then == 'change-source' and mtype in MUTABLE_MAPS and present:
        # the caller goes on using ITS mapping: the paragraph was made from the initial pairs
        key = [kv[0] for kv in raw_fields(text) if kv[0].lower() == present[0]][0]
        names = table[present[0]]
        if len(par['expect']) % 2:
            m[key] = '\n ' + ' '.join(['0'] * len(names))
        else:
            del m[key]
        bad = ctor_compare(ctx, case, obj, par, 'after the caller changed its own mapping')
        if bad:
            ctx.violation('%s/%s/after-the-caller-changed-its-mapping' % (tag, bad[0]),
                          '%s: %s' % (ctor_describe(case), bad[1]))
            return
        ctx.mon('M.ctor.map.independent')
    elif then == 'change-object' and present:
        key = present[0]
        if par['forms'][key] == 'single':
            del obj[key]
        else:
            obj[key].append(dict(zip(table[key], ['0'] * len(table[key]))))
        now = _map_snapshot(m)
        if now != snap:
            ctx.violation('%s/mapping-argument-changed-by-changing-the-paragraph' % tag,
                          '%s: the mapping held %r, after the paragraph was changed it holds %r'
                          % (ctor_describe(case), snap, now))
            return
        ctx.mon('M.ctor.map.independent')
    # the dumped text as a mapping of the same type, once more through the same spelling
    m2 = ctor_mapping(deb822, cls, mtype, txt)
    try:
        obj2 = ctor_invoke(cls, 'ctor', case['call'], m2, case)
    except Exception as e:
        ctx.violation('%s/raises-%s/on-the-dumped-text' % (tag, type(e).__name__),
                      '%s accepted the first mapping but raised %r on one made the same way from its dump %r'
                      % (ctor_describe(case), e, txt))
        return
    bad = ctor_compare(ctx, case, obj2, par, 'mapping made from the dumped text')
    if bad:
        ctx.violation('%s/%s/on-the-dumped-text' % (tag, bad[0]), '%s: %s; dumped text: %r'
                      % (ctor_describe(case), bad[1], txt))
        return
    ctx.mon('M.ctor.respell')


def lk_suffix(case):
    classes = sorted(set(m[3] for m in case['lk']))
    return '/record-spelling-a-%s-line' % (classes[0] if len(classes) == 1 else 'look-alike')


def lk_forms(clsname, salt):
    """(form, wrapped in clear-sign armor?) - every input form the module has plus cls.iter_paragraphs over the document
    (over str / a list of lines / a binary file, one of the three, rotating with `salt`, the length of the text); for Dsc /
    Changes / BuildInfo additionally with the document wrapped in the armor sign() writes: as str, and in two of the
    seven other forms (rotating)."""
    out = [(f, False) for f in LK_BASE_FORMS] + [(LK_ITER_FORMS[salt % 3], False)]
    if clsname in GPG_CLASSES:
        rest = LK_BASE_FORMS[1:] + LK_ITER_FORMS[:2]
        out += [('str', True)] + [(rest[(salt // 3 + j) % len(rest)], True) for j in (0, 3)]
    return out


def lk_parse(deb822, cls, text, form):
    """The paragraphs `form` makes of the one-paragraph document `text` (a list; the constructor forms give one)."""
    if form.startswith('iter-'):
        x = (text if form == 'iter-str' else text.splitlines(True) if form == 'iter-lines'
             else io.BytesIO(text.encode('utf-8')))
        return list(itertools.islice(cls.iter_paragraphs(x), 3))
    return [construct(deb822, cls, text, form)]


def check_lookalike(ctx, deb822, cls, clsname, case, state):
    """A paragraph with look-alike records, already judged the ordinary way: the generated text (parsed cases) and the
    dumped text go through EVERY input form, bare and (Dsc / Changes / BuildInfo) wrapped in clear-sign armor; each time
    exactly one paragraph must come out, exposing all records of all structured fields - those behind the look-alike
    included - and showing every field that was written."""
    table = mv.DOC[clsname]
    expect = state['recs']
    suffix = lk_suffix(case)
    ctx.count('lk:case')
    ctx.count('lk:mode:%s' % case['mode'])
    wl = case.get('wl') or [None]
    if wl[0] == 'lk':
        ctx.count('lk-enum:case')
        ctx.count('lk-enum:%s:%s' % (tag_of(clsname, case['behavior']), wl[2]))
        ctx.count('lk-enum:shape:%s:%s' % (wl[2], wl[3]))
        ctx.count('lk-enum:columns:%s:%d' % (wl[2], len(table[wl[1]])))
        ctx.count('lk-enum:field:%s:%s' % (clsname, wl[1]))
    elif wl[0] == 'lk-par':
        ctx.count('lk-par:case')
    last_struct = [n for n in case['names'] if n.lower() in table][-1].lower()
    for (f, i, n, c) in case['lk']:
        pos = 'only' if n == 1 else 'first' if i == 0 else 'last' if i == n - 1 else 'middle'
        layout = case['forms'][f] if case['mode'] == 'text' else ('bare' if f in case.get('bare', ()) else 'list')
        ctx.count('lk:class:%s' % c)
        ctx.count('lk:record:%s:%s' % (c, pos))
        ctx.count('lk:layout:%s:%s' % (c, layout))
        ctx.count('lk:columns:%s:%d' % (c, len(table[f])))
        ctx.count('lk:config:%s:%s' % (tag_of(clsname, case['behavior']), c))
        later = (i < n - 1) or f != last_struct
        ctx.count('lk:%s' % ('records-or-structured-fields-follow' if later else 'is-the-last-record-of-the-last-structured-field'))
        if case['names'][-1].lower() == f:
            ctx.count('lk:field-is-last-of-paragraph')
    if len(case['lk']) > 1:
        ctx.count('lk:marked-records:%s' % ('2' if len(case['lk']) == 2 else '3+'))
        cs = [m[3] for m in case['lk']]
        if cs[0] in ('armor-begin-signature', 'armor-begin-message') and cs[-1] == 'armor-end-signature':
            ctx.count('lk:paragraph-with-begin-then-end-look-alike')
    texts = []
    if case['mode'] == 'text':
        texts.append(('generated-text', case.get('body', case['text'])))
    texts.append(('dumped-text', state['last_dump']))
    for stage, text in texts:
        for form, wrapped in lk_forms(clsname, len(text)):
            tag = '%s%s' % ('clear-signed-' if wrapped else '', form)
            try:
                got = lk_parse(deb822, cls, sign(text) if wrapped else text, form)
            except Exception as e:
                ctx.violation('parse-raises/%s%s/%s-via-%s' % (type(e).__name__, suffix, stage, tag),
                              '%s: parsing the %s %r (%s) raised %r' % (clsname, stage, text, tag, e))
                return False
            if len(got) != 1:
                ctx.violation('paragraph-count%s/%s-via-%s' % (suffix, stage, tag),
                              '%s.iter_paragraphs over the one-paragraph %s %r (%s) yields %d%s paragraphs: %r'
                              % (clsname, stage, text, tag, len(got), '+' if len(got) > 2 else '',
                                 [dict(x) for x in got]))
                return False
            bad = compare_records(got[0], table, expect)
            if bad:
                ctx.violation('%s-%s%s/%s-via-%s' % ('parse' if stage == 'generated-text' else 'roundtrip-%s' %
                                                      ('parsed' if case['mode'] == 'text' else 'built'),
                                                      bad[1], suffix, stage, tag),
                              '%s(%s): %s read through %s: %s; text=%r; look-alike records [field, index, of, class]: %r'
                              % (clsname, case['behavior'], stage, tag, bad[2], text, case['lk']))
                return False
            lost = [n for n in case['names'] if n not in got[0]]
            if lost:
                ctx.violation('field-lost%s/%s-via-%s' % (suffix, stage, tag),
                              '%s(%s): %s read through %s: field(s) %r were written but are absent; text=%r; look-alike '
                              'records [field, index, of, class]: %r' % (clsname, case['behavior'], stage, tag, lost, text,
                                                                        case['lk']))
                return False
            ctx.mon('M.lk')
            ctx.mon('M.lk.%s' % stage)
            if wrapped:
                ctx.mon('M.lk.clear-signed')
            ctx.count('lk:via:%s:%s' % (stage, tag))
    return True


def run_case(ctx, case):
    from debian import deb822
    clsname = case['cls']
    cls = getattr(deb822, clsname)
    table = mv.DOC[clsname]
    mode = case['mode']
    ctx.mon('M')
    ctx.count('class:%s' % clsname)
    ctx.count('mode:%s' % mode)
    if case['behavior']:
        ctx.count('behavior:%s' % case['behavior'])

    if mode == 'route':
        run_route(ctx, deb822, cls, clsname, case)
        return
    if mode == 'ctor':
        run_ctor(ctx, deb822, cls, clsname, case)
        return

    if mode == 'text':
        expect = case['expect']
        ctx.count('input:%s' % case['input'])
        try:
            obj = construct(deb822, cls, case['text'], case['input'])
        except Exception as e:
            ctx.violation('parse-raises/%s' % type(e).__name__, 'parsing %r raised %r' % (case['text'], e))
            return
        if case['behavior']:
            obj.size_field_behavior = case['behavior']
        for f, form in case['forms'].items():
            ctx.count('form:%s' % form)
        ctx.mon('M.parse')
        mixed = sorted(f for f, form in case['forms'].items() if form == 'mixed')
        if mixed:
            count_mixed(ctx, case, mixed)
        scan = inv_scan(expect, table)
        if scan:
            count_inv(ctx, case, scan)
        bad = compare_records(obj, table, expect)
        if bad:
            where = '/first-record-on-field-line-plus-continuation-lines' if bad[0] in mixed else ''
            if any(x[0] == bad[0] for x in scan):
                where += '/token-with-invisible-character'
            if case.get('lk'):
                where += lk_suffix(case)
            ctx.violation('parse-%s%s' % (bad[1], where),
                          '%s(%s input): %s; text=%r' % (clsname, case['input'], bad[2], case['text']))
            return
        if mixed:
            ctx.mon('M.mixed', len(mixed))
        if scan:
            ctx.mon('M.inv', len(scan))
        if not check_equality(ctx, deb822, clsname, obj, table, expect, 'parsed', len(case['text'])):
            return
        if twice_of(case):
            # rec == other_rec for a second parse of the same text
            try:
                objb = cls(case['text'])
            except Exception as e:
                ctx.violation('parse-raises/%s/second-parse' % type(e).__name__, 'parsing %r raised %r' % (case['text'], e))
                return
            bad = compare_records(objb, table, expect)
            if bad:
                ctx.violation('parse-%s/second-parse' % bad[1], '%s(str input): %s; text=%r' % (clsname, bad[2], case['text']))
                return
            if not check_same_records(ctx, clsname, obj, objb, expect, 'same-text-twice', 'parsed', len(case['text'])):
                return
    else:
        obj = cls()
        if case['behavior']:
            obj.size_field_behavior = case['behavior']
        for it in case['items']:
            if it[1] == 'plain':
                obj[it[0]] = it[2]
                continue
            key, _, lower, recs = it
            built = [build_record(deb822, table[lower], rec, case.get('rectype'), case.get('int_sizes'))
                     for rec in recs]
            as_bare = lower in case.get('bare', ())
            try:
                obj[key] = built[0] if as_bare else built
            except Exception as e:
                ctx.violation('build-assignment-raises/%s%s' % (type(e).__name__, '/bare-record' if as_bare else ''),
                              '%s()[%r] = <%s> raised %r' % (clsname, key, 'one bare record' if as_bare else
                                                             'list of %d records' % len(built), e))
                return
        ctx.count('rectype:%s' % case.get('rectype'))
        scan = inv_scan(dict((it[2], it[3]) for it in case['items'] if it[1] == 'records'), table)
        if scan:
            count_inv(ctx, case, scan)
            ctx.mon('M.inv', len(scan))

    wl = case.get('wl')
    if wl and wl[0] == 'lpos':
        ctx.count('lpos:case')
        ctx.count('lpos:%s:%s:%s' % (tag_of(clsname, case['behavior']), wl[3], nrec_tag(wl[2])))
        ctx.count('lpos:mode:%s:%s' % (mode, wl[3]))

    state = initial_state(case)
    origin = 'parsed' if mode == 'text' else 'built'
    ctx.count('present:%d' % len(state['recs']))

    if 'ops' in case:
        ctx.count('kind:history')
        run_history(ctx, deb822, cls, clsname, obj, state, case['ops'], origin)
        return

    ctx.count('kind:single-dump')
    if [f for f in table if f not in state['recs']] and any(len(v) >= 2 for v in state['recs'].values()):
        ctx.nontrivial()
    if wl and wl[0] == 'one':
        ctx.count('one:case')
        ctx.count('one:%s:%s:%s' % (tag_of(clsname, case['behavior']), wl[1], wl[2]))
    for f in case.get('bare', ()):
        ctx.count('build:bare-record-value')
        ctx.count('build:bare-record-value:%s' % tag_of(clsname, case['behavior']))
    held = dump_and_judge(ctx, cls, clsname, obj, state, case.get('dump_via', 'str'), origin,
                          suffix=lk_suffix(case) if case.get('lk') else '',
                          deep={'twice': twice_of(case), 'forms': case.get('forms'), 'one': bool(wl and wl[0] == 'one')})
    if held and wl and wl[0] == 'one':
        ctx.mon('M.one')
    if held and case.get('lk'):
        check_lookalike(ctx, deb822, cls, clsname, case, state)


def twice_of(case):
    """Single-dump cases that also parse their text (and their dump) a SECOND time and compare the records of the
    two parses: the single-record class, every built case dumped through dump(fd, text_mode=True) and every second
    parsed one (decided by the case itself, so that a replay does the same)."""
    if (case.get('wl') or [None])[0] == 'one':
        return True
    return case.get('dump_via') == 'fd_text' and (case['mode'] != 'text' or len(case['text']) % 2 == 0)


LEVEL_TEXT = ('Runtime monitoring: for Dsc, Changes, BuildInfo, PdiffIndex and Release (both size_field_behavior values) the live '
              'classes parse generated control text and dump objects built from generated record lists; every presence subset '
              'of the 4-field classes and every subset up to size 3 (quick) / 4 (thorough) of PdiffIndex\'s 14 fields is driven, '
              'plus sampled larger ones.  A record model (independent table of documented sub-field names) checks the exposed '
              'records, that dump() returns, that dump -> parse gives the same records in order, and the size-column width on '
              'the dumped lines.  Histories keep one object alive over 2..4 dumps with public-API mutations between them (behaviour '
              'switch, field re-assigned / added / deleted, stored record list edited in place) and apply the same three judgements '
              'after every dump against the record model as mutated.  Held-on-observed, not a proof.')
LEVEL_NOTE = ('Trusted: CPython, vp.models.mvrecords (documented tables, 10-line field splitter), the generator\'s text layout '
              'bookkeeping.  Domain: non-empty whitespace-free tokens, >= 1 record per present field.')
TECHNIQUE = ('runtime monitoring: boundary oracle M (record model) on parse / dump / re-parse of the live classes over enumerated '
             'presence subsets and random record lists; column monitor on the dumped lines; model-based histories '
             '(mutate through the public API, re-dump, re-judge) on one live object')

_enum_floors()

# fields re-ordered before the dump (added last; quick measured 6815 / 9725 on seed 0; thorough scaled conservatively)
for _tier, _a, _b in (('quick', 3000, 4500), ('thorough', 60000, 90000)):
    FLOORS[_tier].setdefault('counters', {})['fields-reordered-before-dump:sort_fields'] = _a
    FLOORS[_tier]['counters']['fields-reordered-before-dump:order_last'] = _b

