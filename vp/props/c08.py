"""C08 - an accepted field value can never inject fields or split the paragraph.

Deciding monitor M (boundary, public API only): every generated value v is
assigned to a field of a live ``Deb822`` paragraph (item assignment, and the
other assignment routes that funnel into it: ``update``, ``setdefault``,
``Deb822(dict)``, ``copy()``).

* accepted  -> ``dump()`` is re-read by ``Deb822.iter_paragraphs`` from ``str``
  and from ``bytes``, with ``whitespace-separates-paragraphs=False`` always and
  with the default setting whenever no continuation line of v is blank; the
  re-read must give exactly one paragraph with exactly the field names
  ``list(d)`` (M.reread).  Independently, an accepted v must carry none of the
  three stated defects according to the reference model
  ``vp.models.deb822value`` (M.must-reject).
* rejected  -> the exception is ValueError and ``list(d)`` / ``dump()`` are what
  they were before (M.unchanged).

Auxiliary K-monitor: contract on the exceptional exit of
``Deb822.__setitem__`` (every binding): the mapping is unchanged.

No "must accept" demand is made anywhere: a value without a stated defect that
is rejected is only counted.
"""
import hashlib
import itertools

from ..models import deb822value as model

PROP = 'C08'
LEVEL = 'exploration'

TOKENS = ['a', ':', '#', ' ', '\t', '\r', '\n', '-', '.', 'B: x']
ENUM_MAXLEN = {'quick': 5, 'thorough': 7}
BLOCK_SUFFIX = 3                     # one enum case = one prefix x all 10^3 suffixes
RANDOM_TOTAL = {'quick': 24000, 'thorough': 900000}

RULE = ('Values: (1) ENUMERATED - every concatenation of <= 5 (quick) / <= 7 (thorough) tokens from '
        "['a', ':', '#', ' ', TAB, CR, LF, '-', '.', 'B: x'], each assigned to the middle field of a 3-field "
        'paragraph and (rotating with the value; for length 7 on every third value) to a sole/first/last/new field of '
        'paragraphs of 1..4 fields, some with multi-line neighbours; (2) RANDOM - seeded longer values built from lines (printable ASCII and a few '
        "non-ASCII letters, 'Key: value' look-alikes, '#' comments, PGP armour lines, whitespace-only lines) joined by "
        'LF / CR LF / CR with mostly-indented continuations, assigned through item assignment, update(), '
        'setdefault(), Deb822(dict) and re-checked after copy(), target field first/middle/last/new in paragraphs '
        'of 1..4 fields.  A value is NON-TRIVIAL when it contains a line boundary (LF or CR); distinct = distinct '
        'value string.')
ASSUMPTIONS = [
    'vp.models.deb822value (30 lines) states the three defects of the property: value ends in LF; a line after the '
    'first is empty; a line after the first does not start with space/tab.  Lines are split on LF, CR LF, CR; a '
    'terminator at the very end opens no further line.',
    'Domain as quantified: printable text, colon, hash, space, tab, CR, LF.  Exotic Unicode/ASCII line boundaries and '
    'whitespace (NBSP, VT, FF, FS/GS/RS, U+0085, U+2028...) are not generated.',
    'Field names of the paragraphs are ordinary (letters, digits, hyphen) and disjoint from every name a generated '
    'value could inject; names themselves are not under test (validate_input documents that keys are not validated).',
    'Re-read = Deb822.iter_paragraphs on the dump as str and as UTF-8 bytes (internal parser; python-apt is absent). '
    'The default parser setting is only consulted when no continuation line of the value is blank, as stated.',
    'No must-accept demand: values without a stated defect that the library rejects are counted, never reported.',
    'Deb822(dict) with a defective value: any exception counts as a rejection on that route (the statement speaks of '
    'assignment to a field of an existing paragraph); the exception types seen are recorded in coverage.ctor_reject_types.',
]
ANCHORS = ['debian.deb822:Deb822.validate_input',
           'debian.deb822:Deb822.__setitem__',
           'debian.deb822:Deb822._dump_format',
           'debian.deb822:Deb822._internal_parser',
           'debian.deb822:Deb822.split_gpg_and_payload',
           'debian.deb822:Deb822._skip_useless_lines',
           'debian.deb822:Deb822.iter_paragraphs']
MUST_REACH = ['debian.deb822:Deb822.validate_input', 'debian.deb822:Deb822.__setitem__',
              'debian.deb822:Deb822._dump_format', 'debian.deb822:Deb822._internal_parser',
              'debian.deb822:Deb822.iter_paragraphs']

# ~50% of what a run on the current tree measures; the enumeration counters are deterministic and must be complete
FLOORS = {'quick': {'nontrivial': 45000,
                    'monitors': {'M.reread': 340000, 'M.must-reject': 88000, 'M.unchanged': 89000,
                                 'K.setitem-raise': 90000},
                    'counters': {'enum-len:5': 100000, 'enum-len:4': 10000, 'accepted-multiline': 30000,
                                 'copy-checked': 1300, 'route:update': 1700, 'route:ctor': 1600,
                                 'route:setdefault': 600}},
          'thorough': {'nontrivial': 2800000,     # recording cap is 400000 per shard x 14
                       'monitors': {'M.reread': 11800000, 'M.must-reject': 3000000, 'M.unchanged': 5200000,
                                    'K.setitem-raise': 5200000},
                       'counters': {'enum-len:7': 10000000, 'enum-len:6': 1000000, 'enum-len:5': 100000,
                                    'accepted-multiline': 1300000, 'copy-checked': 49000, 'route:update': 64000,
                                    'route:ctor': 64000, 'route:setdefault': 22000}}}

WS_FALSE = {'whitespace-separates-paragraphs': False}

# ---------------------------------------------------------------------------
# paragraph layouts: (fields before assignment, target name).  Names contain none
# of the characters the enumeration alphabet can put into an injected name.

ENUM_LAYOUTS = [
    {'fields': [['Pkg', 'p1'], ['Fld', 'old'], ['Zed', 'z9']], 'target': 'Fld'},          # middle, replace
    {'fields': [], 'target': 'Fld'},                                                       # sole, new
    {'fields': [['Fld', 'old'], ['Zed', 'z9']], 'target': 'Fld'},                          # first, replace
    {'fields': [['Pkg', 'p1'], ['Ver', '1.0-1'], ['Zed', 'z9']], 'target': 'Fld'},         # last, new (4 fields)
    {'fields': [['Pkg', 'p1'], ['Fld', 'old']], 'target': 'Fld'},                          # last, replace
    {'fields': [['Pkg', 'p1\n p2'], ['Fld', 'old'], ['Zed', '\n z8\n z9']], 'target': 'Fld'},  # multi-line neighbours
    {'fields': [['Fld', 'old']], 'target': 'Fld'},                                         # sole, replace
    {'fields': [['Pkg', 'p1'], ['fld', 'old'], ['Zed', 'z9'], ['Ver', '2']], 'target': 'FLD'},  # other spelling of the name
]

NAME_POOL = ['Package', 'Version', 'Depends', 'Description', 'Homepage', 'Section', 'Maintainer', 'X-Test-Field']
NEIGHBOUR_VALUES = ['v%d', 'some text %d', '%d.0-1', '\n line %d\n more', 'first %d\n second\n .\n third', '']
INJECT = ['B: x', 'Inj: y', 'Xtra:', 'Q :z', 'K:v', 'inj-2:  spaced', 'B:\tx']
SPECIAL_LINES = ['#comment', '# Inj: y', '-----BEGIN PGP SIGNED MESSAGE-----', '-----BEGIN PGP SIGNATURE-----',
                 '-----END PGP SIGNATURE-----', '.', ':', ': x', '::', '-', 'Hash: SHA256']
BLANKS = ['', ' ', '\t', '  ', ' \t ']
PRINTABLE = ''.join(chr(c) for c in range(0x21, 0x7f)) + '      ' + u'\xe9\xdf\u5b57'
BOUNDARIES = ['\n', '\n', '\n', '\r\n', '\r']
ROUTES = ['setitem', 'setitem', 'setitem', 'update', 'setdefault', 'ctor', 'copy']


def rand_line(r):
    k = r.random()
    if k < 0.30:
        return r.choice(INJECT)
    if k < 0.45:
        return r.choice(SPECIAL_LINES)
    if k < 0.55:
        return r.choice(BLANKS)
    if k < 0.65:
        return r.choice(INJECT) + ' ' + ''.join(r.choice(PRINTABLE) for _ in range(r.randint(0, 6)))
    return ''.join(r.choice(PRINTABLE) for _ in range(r.randint(1, 12)))


def rand_value(r):
    n = r.choice([1, 2, 2, 3, 3, 4, 5, 7])
    style = r.random()
    # indentation discipline of this value: mostly well-formed (so that many long values are ACCEPTED and the
    # re-read monitor is exercised), sometimes sloppy (rejections), sometimes none
    p_indent = 1.0 if style < 0.55 else (0.85 if style < 0.85 else 0.3)
    out = [rand_line(r) if r.random() < 0.85 else '']
    for _ in range(n - 1):
        line = rand_line(r)
        if r.random() < p_indent:
            line = r.choice([' ', ' ', '\t', '  ', ' \t']) + line
        out.append(r.choice(BOUNDARIES))
        out.append(line)
    k = r.random()
    if k < 0.06:
        out.append(r.choice(['\n', '\r', '\r\n', '\n\n']))
    return ''.join(out)


def rand_case(r):
    nf = r.choice([1, 2, 3, 3, 4, 4])
    names = r.sample(NAME_POOL, nf)
    new = r.random() < 0.35
    if new:
        nf -= 1
    fields = []
    for i in range(nf):
        val = r.choice(NEIGHBOUR_VALUES)
        fields.append([names[i], val % i if '%d' in val else val])
    if new:
        target = names[-1]
    else:
        target = r.choice(fields)[0]
        if r.random() < 0.2:
            target = r.choice([target.lower(), target.upper()])
    route = r.choice(ROUTES)
    if route == 'setdefault' and not new:
        route = 'setitem'
    return {'kind': 'one', 'fields': fields, 'target': target, 'v': rand_value(r), 'route': route}


# ---------------------------------------------------------------------------

def setup(ctx):
    from debian import deb822
    from .. import contracts
    ctx.extra['ctor_reject_types'] = {}
    ctx.extra['rejected_without_stated_defect'] = 0
    ctx.extra['exhaustive_subspaces'] = [
        'all token strings of length <= %d over %r (sharded)' % (ENUM_MAXLEN[ctx.tier], TOKENS)]

    def snapshot(self, key, value):
        if not K_ACTIVE[0]:
            return None
        return (list(self), self.dump())

    def on_raise(old, exc, self, key, value):
        if old is None:
            return
        now = (list(self), self.dump())
        if now != old:
            contracts.fail('rejected-assignment-changed-paragraph',
                           'K: Deb822.__setitem__(%r, %r) raised %s but the mapping changed: %r -> %r'
                           % (key, value, type(exc).__name__, old, now))

    contracts.wrap(deb822.Deb822, '__setitem__', 'K.setitem-raise', snapshot=snapshot, on_raise=on_raise)


K_ACTIVE = [False]     # the K snapshot is taken only while the harness drives an assignment (not inside re-reads)


def finish(ctx):
    from .. import contracts
    contracts.flush_evals(ctx)


def cases(ctx):
    maxlen = ENUM_MAXLEN[ctx.tier]
    idx = 0
    for k in range(0, maxlen + 1):
        plen = max(0, k - BLOCK_SUFFIX)
        for prefix in itertools.product(range(len(TOKENS)), repeat=plen):
            if ctx.mine(idx):
                yield {'kind': 'enum', 'k': k, 'prefix': list(prefix)}
            idx += 1
    r = ctx.rng('random')
    for _ in range(ctx.size(RANDOM_TOTAL['quick'], RANDOM_TOTAL['thorough'])):
        yield rand_case(r)


# ---------------------------------------------------------------------------
# one assignment, fully checked

def build(fields):
    from debian.deb822 import Deb822
    d = Deb822()
    for name, val in fields:
        d[name] = val
    return d


def one_case(fields, target, v, route):
    return {'kind': 'one', 'fields': fields, 'target': target, 'v': v, 'route': route}


def check_reread(ctx, d, v, small, what='dump'):
    """M.reread: the accepted value's paragraph re-reads as ONE paragraph with the same names."""
    from debian.deb822 import Deb822
    keys = list(d)
    text = d.dump()
    blank = model.blank_continuation(v)
    found = {}        # mechanism key -> (first detail, [modes]) : one report per mechanism per case
    for strict, sname in ((WS_FALSE, 'ws-false'), (None, 'default')):
        if strict is None and blank:
            ctx.count('reread-default-skipped:blank-continuation')
            continue
        for form in ('str', 'bytes'):
            data = text if form == 'str' else text.encode('utf-8')
            mode = '%s/%s' % (form, sname)
            ctx.mon('M.reread')
            try:
                paras = list(Deb822.iter_paragraphs(data, strict=strict))
            except Exception as e:       # the dump of an accepted value cannot be read back at all
                found.setdefault('reread-raises', ('raised %s: %s' % (type(e).__name__, e), []))[1].append(mode)
                continue
            names = [list(p) for p in paras]
            if len(paras) == 1 and names[0] == keys:
                continue
            detail = 'gives %d paragraph(s) with fields %r' % (len(paras), names)
            if len(paras) > 1:
                key = 'accepted-value-starts-new-paragraph'
            elif len(paras) == 0:
                key = 'accepted-value-reread-empty'
            else:
                lk, lg = [x.lower() for x in keys], [x.lower() for x in names[0]]
                if [x for x in lg if x not in lk]:
                    key = 'accepted-value-adds-field'
                elif [x for x in lk if x not in lg]:
                    key = 'accepted-value-truncates-paragraph'
                else:
                    key = 'accepted-value-changes-field-names'
            found.setdefault(key, (detail, []))[1].append(mode)
    for key, (detail, modes) in sorted(found.items()):
        ctx.violation(key, '%s of accepted value %r is %r; re-read [%s] %s; expected one paragraph with fields %r'
                      % (what, v, text, ', '.join(modes), detail, keys), small)
    ok = not found
    return ok


def assign_and_check(ctx, fields, target, v, route, d=None):
    """Returns the paragraph if it is still pristine (rejected and verified unchanged) so the caller may reuse it."""
    from debian.deb822 import Deb822
    from ..core import MonitorViolation
    from .. import contracts
    small = one_case(fields, target, v, route)
    dfx = model.defects(v)
    boundary = model.has_boundary(v)
    if boundary:
        ctx.nontrivial(case={'v': v}, key=hashlib.sha1(v.encode('utf-8')).hexdigest())
    ctx.count('route:' + route)

    if route == 'ctor':
        items = {}
        seen = False
        for name, val in fields:
            if name.lower() == target.lower():
                items[name] = v
                seen = True
            else:
                items[name] = val
        if not seen:
            items[target] = v
        try:
            K_ACTIVE[0] = True
            d = Deb822(items)
        except MonitorViolation as e:
            contracts.PENDING[:] = []
            ctx.violation(e.key, e.msg, small)
            return None
        except Exception as e:
            t = type(e).__name__
            ctx.count('rejected')
            ctx.extra['ctor_reject_types'][t] = ctx.extra['ctor_reject_types'].get(t, 0) + 1
            if not dfx:
                ctx.extra['rejected_without_stated_defect'] += 1
            return None
        finally:
            K_ACTIVE[0] = False
        before = None
    else:
        if d is None:
            d = build(fields)
        before = (list(d), d.dump())
        try:
            K_ACTIVE[0] = True
            if route == 'update':
                d.update({target: v})
            elif route == 'setdefault':
                d.setdefault(target, v)
            else:
                d[target] = v
        except MonitorViolation as e:
            contracts.PENDING[:] = []
            ctx.violation(e.key, e.msg, small)
            return None
        except Exception as e:
            K_ACTIVE[0] = False
            ctx.count('rejected')
            ctx.count('rejected:' + ('+'.join(dfx) if dfx else 'no-stated-defect'))
            if not isinstance(e, ValueError):
                ctx.violation('rejection-not-ValueError',
                              'assigning %r to %r raised %s (%s), not ValueError' % (v, target, type(e).__name__, e), small)
            if not dfx:
                ctx.extra['rejected_without_stated_defect'] += 1
            ctx.mon('M.unchanged')
            after = (list(d), d.dump())
            if after != before:
                ctx.violation('rejected-assignment-changed-paragraph',
                              'assigning %r to %r was rejected (%s) but list/dump changed: %r -> %r'
                              % (v, target, type(e).__name__, before, after), small)
                return None
            return d
        finally:
            K_ACTIVE[0] = False

    # ---- accepted
    ctx.count('accepted')
    if boundary:
        ctx.count('accepted-multiline')
    ctx.mon('M.must-reject')
    if dfx:
        ctx.violation('defective-value-accepted/' + dfx[0],
                      'value %r has the stated defect(s) %s but assigning it to %r (%s) was accepted; dump is %r'
                      % (v, '+'.join(dfx), target, route, d.dump()), small)
    check_reread(ctx, d, v, small)
    if route == 'copy':
        try:
            c = d.copy()
        except ValueError:
            ctx.count('copy-rejected')      # no must-accept demand
        else:
            ctx.count('copy-checked')
            check_reread(ctx, c, v, small, what='dump of copy()')
    return None


def run_case(ctx, case):
    kind = case['kind']
    if kind == 'one':
        assign_and_check(ctx, case['fields'], case['target'], case['v'], case.get('route', 'setitem'))
        return
    if kind != 'enum':
        raise ValueError('unknown case kind %r' % kind)
    k = case['k']
    prefix = ''.join(TOKENS[i] for i in case['prefix'])
    slen = k - len(case['prefix'])
    rot = len(ENUM_LAYOUTS) - 1
    # one reusable pristine paragraph per layout (reused only after a rejection that was verified to change nothing)
    pristine = [None] * len(ENUM_LAYOUTS)
    n = sum(case['prefix']) + k
    first = True
    for suffix in itertools.product(TOKENS, repeat=slen):
        v = prefix + ''.join(suffix)
        n += 1
        if not first:
            ctx.evaluations += 1
        first = False
        ctx.count('enum-len:%d' % k)
        if k <= 5:
            chosen = (0, 1, 2 + n % (rot - 1))
        elif k == 6 or n % 3 == 0:
            chosen = (0, 1 + (n // 3 if k > 6 else n) % rot)
        else:
            chosen = (0,)
        for li in chosen:
            lay = ENUM_LAYOUTS[li]
            pristine[li] = assign_and_check(ctx, lay['fields'], lay['target'], v, 'setitem', pristine[li])


LEVEL_TEXT = ('Runtime monitoring: every string of <= 5 (quick) / <= 7 (thorough) tokens over a 10-token hostile alphabet '
              '(colon, hash, space, tab, CR, LF, hyphen, dot, a letter, a ready-made "B: x" line) and seeded longer '
              'multi-line values are assigned to fields of live Deb822 paragraphs (item assignment, update, setdefault, '
              'Deb822(dict), copy).  Each accepted assignment is dumped and re-read through Deb822.iter_paragraphs (str and '
              'bytes; whitespace-separates-paragraphs=False, and the default when no continuation line is blank) and must '
              'give one paragraph with the same field names; accepted values must be free of the three stated defects per '
              'an independent model; rejections must be ValueError and leave list()/dump() unchanged.  Held-on-observed, '
              'not a proof: reach is the enumerated space plus the sampled values.')
LEVEL_NOTE = ('Trusted: CPython, vp.models.deb822value (line model of the three stated defects), the layout table. Domain as '
              'quantified (no exotic Unicode line boundaries/whitespace); field names are ordinary and disjoint from injectable '
              'names; no must-accept demand; on the Deb822(dict) route any exception counts as rejection.')
TECHNIQUE = ('runtime monitoring: boundary oracle M.reread (dump of every accepted assignment re-read by the live parser in all '
             'stated settings: one paragraph, same field names) as deciding monitor, with reference-model monitor M.must-reject, '
             'history monitor M.unchanged on rejections and an exceptional-exit contract on Deb822.__setitem__')
