"""C08 - an accepted field value can never inject fields or split the paragraph.

Deciding monitor M (boundary, public API only): every generated value v is
assigned to a field of a live ``Deb822`` paragraph (item assignment, and the
other assignment routes that funnel into it: ``update``, ``setdefault``,
``Deb822(dict)``, ``copy()``).

* accepted  -> ``dump()`` is re-read by ``Deb822.iter_paragraphs`` from ``str``
  and from ``bytes``, with ``whitespace-separates-paragraphs=False`` always and
  with the default setting whenever no continuation line of v is blank; the
  re-read must give exactly one paragraph with exactly the field names
  ``list(d)`` (M.reread).  ``str``/``bytes`` are cut into lines by the library
  with ``splitlines()`` (a CR is a line boundary there).  The dump is therefore
  also re-read in forms whose lines are cut at LF ONLY, as when it went through
  a file (M.reread-lf, a sub-count of M.reread): ``io.StringIO``,
  ``io.BytesIO``, a real text file and a real binary file written by
  ``dump(fd)``, the list ``dump.split('\\n')`` with and without terminators -
  through ``iter_paragraphs`` and through the ``Deb822(...)`` constructor.
  Only the number of paragraphs and the field NAMES are compared, never the
  values (the statement does not promise equal values).
  Independently, an accepted v must carry none of the three stated defects
  according to the reference model ``vp.models.deb822value`` (M.must-reject).
* rejected  -> the exception is ValueError and ``list(d)`` / ``dump()`` are what
  they were before (M.unchanged).

PARSE SIDE (values also enter a paragraph by parsing): documents - lists of physical lines cut at LF only, handed
over as lists of str/bytes lines, generators, ``io.StringIO``, ``io.BytesIO``, real text/binary files - in which a
field line or a continuation line contains a lone CR (or a CR LF inside ONE list element) followed by text that would
be rejected as an assigned value are fed to ``Deb822.iter_paragraphs`` / ``Deb822(...)`` (M.parse).  If the parser
raises, nothing is demanded.  If it hands back a paragraph: (a) every value of it must be free of the three stated
defects per the same model (M.parsed-value: what the validator must reject must not be obtainable by parsing either);
(b) after ordinary accepted assignments to the paragraph its dump is re-read exactly as above and must give ONE
paragraph with the same field names (M.reread-parsed, a sub-count of M.reread).  The same history - parse, assign,
assign, dump, re-read - is driven on paragraphs parsed from ordinary documents, with hostile assigned values judged
as on the assignment side (M.must-reject / M.unchanged).

Auxiliary K-monitor: contract on the exceptional exit of
``Deb822.__setitem__`` (every binding): the mapping is unchanged.

No "must accept" demand is made anywhere: a value without a stated defect that
is rejected is only counted.
"""
import hashlib
import io
import itertools
import os
import re
import zlib

from ..models import deb822value as model

PROP = 'C08'
LEVEL = 'exploration'

TOKENS = ['a', ':', '#', ' ', '\t', '\r', '\n', '-', '.', 'B: x']
ENUM_MAXLEN = {'quick': 5, 'thorough': 7}
BLOCK_SUFFIX = 3                     # one enum case = one prefix x all 10^3 suffixes
RANDOM_TOTAL = {'quick': 24000, 'thorough': 900000}

RULE = ('Values: (1) ENUMERATED - every concatenation of <= 5 (quick) / <= 7 (thorough) tokens from '
        "['a', ':', '#', ' ', TAB, CR, LF, '-', '.', 'B: x'], each assigned to the middle field of a 3-field "
        'paragraph and (rotating with the value; for length 7 on every third value) to a sole/first/last/new field of '
        'paragraphs of 1..4 fields, some with multi-line neighbours; (2) RANDOM - seeded longer values built from lines (printable ASCII and a few '
        "non-ASCII letters, 'Key: value' look-alikes, '#' comments, PGP armour lines, whitespace-only lines) joined by "
        'LF / CR LF / CR with mostly-indented continuations, assigned through item assignment, update(), '
        'setdefault(), Deb822(dict) and re-checked after copy(), target field first/middle/last/new in paragraphs '
        'of 1..4 fields; 1 random value in 6 is CR-CENTRED (boundaries mostly bare CR / CR LF, first line often blank '
        "so that the dump reads 'Field: <blanks> CR ...', value often ending in CR).  "
        '(3) RE-READ FORMS of every accepted assignment: always str and bytes through iter_paragraphs (the library cuts '
        'them with splitlines(): CR is a boundary).  LF-ONLY forms (lines cut at LF only, as when the dump went through '
        "a file): io.StringIO(dump), io.BytesIO(dump bytes), the list dump.split('\\n') re-terminated with LF, the same "
        'list without terminators, a real text file (newline=LF, utf-8) and a real binary file written by dump(fd) and '
        'rewound (two scratch files per shard, rewritten in place); plus the text file re-opened with Python\'s default '
        'newline translation.  Each through iter_paragraphs(strict=...) and/or the Deb822(source, strict=...) '
        'constructor (first paragraph; on an iterator/file a second constructor call reads what follows and must find '
        'nothing).  Which forms a value goes through: an enumerated value CONTAINING CR of <= 6 tokens (and every 32nd of '
        '7 tokens) in the 3-field layout -> BytesIO, the list without terminators, StringIO or the re-terminated list '
        '(both hand over str lines ending in LF) and one of the two files (+ for 1 in 4 a constructor re-read / the '
        'translated text file); every other accepted CR value (other layouts: the first '
        'rotated layout only, for 7 tokens on every 2nd value; every 2nd value of 7 tokens; 1 in 2 (quick) / 3 in 4 (thorough) random ones) -> one (form, API) pair chosen '
        'by a CRC of the value out of 15 pairs (the six LF-only iter_paragraphs pairs weighing double); the remaining random CR values -> two LF-only forms + one '
        'constructor re-read; values without CR (there the LF-only cut equals the splitlines() cut) -> one pair for a '
        'rotating fraction; the dump of copy() -> one pair; a --replay runs all 18 (form, API) pairs.  '
        'A value is NON-TRIVIAL when it contains a line boundary (LF or CR); distinct = distinct value string.  '
        '(4) PARSE SIDE - documents given as physical lines cut at LF only and handed to Deb822.iter_paragraphs (3 in 4) / '
        'Deb822(...) (1 in 4), strict default or whitespace-separates-paragraphs=False, in nine LF-only input forms: list of '
        'str lines without / with LF terminators, list of bytes lines without / with terminators, a one-shot generator of '
        'lines, io.StringIO, io.BytesIO, a real text file and a real binary file.  (4a) ENUMERATED hot lines: every '
        "concatenation s of <= 4 (quick) / <= 6 (thorough) tokens from ['a', ':', ' ', TAB, CR, CR LF, '#', '-', 'B: x'] in five "
        "contexts - 'Fld: '+s, 'Fld: old'+s, 'Fld:'+s, continuation ' c1'+s after 'Fld: old', first continuation ' '+s after "
        "'Fld:' (the longest length is thinned out: quick - every string in the 1st and 4th context, every 3rd in the others; "
        'thorough - every 3rd / every 9th) - inside five rotating paragraph '
        'layouts (middle / sole / last / first field followed by a second paragraph / comments and multi-line neighbours), form, '
        'API, strict setting and the following assignments (five short histories incl. a rejected assignment and a CR '
        'value) chosen by a CRC of s; a CR LF token stays inside ONE list element in the list forms and cuts the line in '
        'the stream forms.  (4b) SEEDED HISTORIES: ordinary documents of 1..3 paragraphs (1..4 fields, multi-line values, '
        'odd colon spacing, comments, whitespace-only lines); half of them get ONE injection - a junk of CR / CR CR / CR LF / '
        "blank CR ... plus a tail ('Key: value' look-alikes, comment, PGP armour, blank, indented text) appended to or cut "
        'into a field or continuation line; 1 in 10 is an ordinary CR LF terminated file; un-injected ones are also parsed '
        'from str / bytes; 1 in 10 with a fields= filter; then 1..5 assignments (item assignment, update, setdefault; 70% '
        'hostile random values as in (2)) to present / new fields of every paragraph (first three), each judged as on the '
        'assignment side, and after at least one accepted assignment the dump is re-read (str, bytes; for half of the cases one more '
        '(form, API) pair of (3)).  A document is NON-TRIVIAL when a physical line contains CR or it has a continuation '
        'line; distinct = distinct list of lines.')
ASSUMPTIONS = [
    'vp.models.deb822value (30 lines) states the three defects of the property: value ends in LF; a line after the '
    'first is empty; a line after the first does not start with space/tab.  Lines are split on LF, CR LF, CR; a '
    'terminator at the very end opens no further line.',
    'Domain as quantified: printable text, colon, hash, space, tab, CR, LF.  Exotic Unicode/ASCII line boundaries and '
    'whitespace (NBSP, VT, FF, FS/GS/RS, U+0085, U+2028...) are not generated.',
    'Field names of the paragraphs are ordinary (letters, digits, hyphen) and disjoint from every name a generated '
    'value could inject; names themselves are not under test (validate_input documents that keys are not validated).',
    'Re-read = Deb822.iter_paragraphs on the dump as str and as UTF-8 bytes (internal parser; python-apt is absent). '
    'The default parser setting is only consulted when no continuation line of the value is blank, as stated.',
    'LF-only re-read forms: "reading it back" is taken to include reading the dump from a file or any other source '
    'that hands the parser lines cut at LF only (documented input kinds of Deb822/iter_paragraphs: file-like objects '
    'and sequences of lines, str or bytes).  CR is in the quantified domain, so an accepted value containing CR must '
    'give one paragraph with the same field names there too.  Guards: (a) only the paragraph count and the field '
    'names are compared - a value that re-reads with different content (CR kept inside a line, blanks trimmed, a '
    'whitespace-only line dropped) is not a violation; (b) what follows the final LF of the dump is not handed over '
    "as a further (empty) line, as when a file is read back; (c) the 'blank continuation line' guard of the default "
    'setting uses the model lines (cut at LF, CR LF, CR): an LF-cut line can be whitespace-only only if one of the '
    'model lines it is made of is blank, so no further guard is needed; (d) the Deb822(...) constructor reads one '
    'paragraph: its field names must be those of the paragraph, and - only when the source is an iterator or file, '
    'where the question is defined - a second constructor call on the same source must come back empty; (e) files are '
    'written by dump(fd) (binary: the paragraph\'s own utf-8 encoding; text: text_mode=True on a utf-8 file opened '
    'with newline=LF so that neither direction translates), flushed and rewound on the same handle.',
    'The text file re-opened with the default universal-newline translation turns CR and CR LF into LF before the '
    'parser sees them; that is the line model of the property (every continuation line of an accepted value is '
    'indented and non-empty), so one paragraph with the same names is demanded there too; it is counted in M.reread '
    'but not in M.reread-lf.',
    'No must-accept demand: values without a stated defect that the library rejects are counted, never reported.',
    'PARSE SIDE.  The statement guarantees that a value the paragraph holds can never inject fields, and that values '
    'which would are rejected; a value obtained by parsing is held by the paragraph like an assigned one, so (a) it must '
    'carry none of the three stated defects per the same model and (b) the paragraph must keep re-reading as one '
    'paragraph with the same field names after further accepted assignments.  Guards: (i) if the parser raises ANY '
    'exception (the present tree: ValueError from the validator) nothing is demanded, and paragraphs an iterator yielded '
    'before raising are not judged; (ii) what a parse must GIVE is not stated - the field names and values the parser '
    'produced are never compared with the input (a line it drops, a CR it eats as blank space after the colon, a CR it '
    'treats as a line boundary are all fine); (iii) only str values are judged; (iv) the history and the re-read run only '
    "on paragraphs whose every field name is ordinary (^[A-Za-z0-9][A-Za-z0-9-]*$): a CR trick can make the parser read a "
    "name such as '#' or '-', and names are outside the property; (v) the re-read is demanded only after at least one "
    'accepted assignment, compares the names list(d) holds at that moment, and consults the default parser setting only '
    'when no continuation line of ANY value of the paragraph is blank (model lines); (vi) setdefault on a present '
    'field assigns nothing and is executed as an item assignment; (vii) documents use only characters of the '
    'quantified domain, and injected look-alike names are disjoint from the ordinary names of documents and assignment '
    'targets; (viii) at most the first three paragraphs of a document are judged; (ix) for cost, an ENUMERATED document '
    'whose paragraph holds no CR in any value goes through the history and re-read for every 4th document only (a '
    '--replay always runs it, with all 18 (form, API) re-read pairs).',
    'Deb822(dict) with a defective value: any exception counts as a rejection on that route (the statement speaks of '
    'assignment to a field of an existing paragraph); the exception types seen are recorded in coverage.ctor_reject_types.',
]
ANCHORS = ['debian.deb822:Deb822.validate_input',
           'debian.deb822:Deb822.__setitem__',
           'debian.deb822:Deb822._dump_format',
           'debian.deb822:Deb822._internal_parser',
           'debian.deb822:Deb822.split_gpg_and_payload',
           'debian.deb822:Deb822._skip_useless_lines',
           'debian.deb822:Deb822.iter_paragraphs']
MUST_REACH = ['debian.deb822:Deb822.validate_input', 'debian.deb822:Deb822.__setitem__',
              'debian.deb822:Deb822._dump_format', 'debian.deb822:Deb822._internal_parser',
              'debian.deb822:Deb822.iter_paragraphs']

# ~50% of what a run on the current tree measures; the enumeration counters are deterministic and must be complete.
# The form:* / api:* / lf:* counters and M.reread-lf belong to the LF-only re-read class: a run that never exercises it
# (or never gets an accepted CR value into it) is INCONCLUSIVE, not held.  The parse:* / penum-len:* counters and
# M.parse / M.parsed-value / M.reread-parsed belong to the parse-side class, likewise.  No floor on parse:raised /
# parse:hot-raised: whether the parser refuses a hot document is the library's choice.
FLOORS = {'quick': {'nontrivial': 58000,
                    'monitors': {'M.reread': 450000, 'M.reread-lf': 80000, 'M.must-reject': 100000, 'M.unchanged': 91000,
                                 'K.setitem-raise': 93000,
                                 'M.parse': 14000, 'M.parsed-value': 34000, 'M.reread-parsed': 25000},
                    'counters': {'enum-len:5': 100000, 'enum-len:4': 10000, 'accepted-multiline': 30000,
                                 'copy-checked': 1300, 'route:update': 1700, 'route:ctor': 1600,
                                 'route:setdefault': 600,
                                 'form:stringio': 12000, 'form:lines-nl': 11500, 'form:lines-bare': 16000,
                                 'form:bytesio': 16000, 'form:textfile': 11500, 'form:binfile': 11500,
                                 'form:textfile-universal': 3700, 'api:Deb822()': 18000,
                                 'lf:cr-value': 17000, 'lf:cr-value-4-forms': 5400, 'lf:cr-after-colon-blanks': 3700,
                                 'lf:cr-at-line-end': 10000, 'lf:cr-mid-line': 6500,
                                 # parse-side class (enumeration counters are deterministic and must be complete)
                                 'penum-len:4': 19683, 'penum-len:3': 3645, 'parse:history-case': 2500,
                                 'parse:lone-cr': 6700, 'parse:hot': 5200, 'parse:hot:list': 3000,
                                 'parse:hot:stream': 2200, 'parse:crlf-inside-list-element': 1900,
                                 'parse:accepted': 12000, 'parse:accepted-cr-value': 500,
                                 'parse:history-reread': 6000, 'parse:history-reread-multi-op': 4400,
                                 'parse:op-accepted': 11500, 'parse:op-rejected': 1700,
                                 'parse:api:iter': 10500, 'parse:api:ctor': 3500,
                                 'parse:form:lines-bare': 2200, 'parse:form:lines-nl': 2200,
                                 'parse:form:lines-bytes': 1200, 'parse:form:lines-bytes-nl': 1200,
                                 'parse:form:lines-gen': 1200, 'parse:form:stringio': 1200,
                                 'parse:form:bytesio': 2200, 'parse:form:textfile': 1200,
                                 'parse:form:binfile': 1200, 'parse:form:str': 50, 'parse:form:bytes': 50}},
          'thorough': {'nontrivial': 2800000,     # recording cap is 400000 per shard x 14
                       'monitors': {'M.reread': 14900000, 'M.reread-lf': 1750000, 'M.must-reject': 3500000,
                                    'M.unchanged': 5300000, 'K.setitem-raise': 5500000,
                                    'M.parse': 510000, 'M.parsed-value': 1100000, 'M.reread-parsed': 890000},
                       'counters': {'enum-len:7': 10000000, 'enum-len:6': 1000000, 'enum-len:5': 100000,
                                    'accepted-multiline': 1300000, 'copy-checked': 49000, 'route:update': 64000,
                                    'route:ctor': 64000, 'route:setdefault': 22000,
                                    'form:stringio': 270000, 'form:lines-nl': 270000, 'form:lines-bare': 320000,
                                    'form:bytesio': 320000, 'form:textfile': 270000, 'form:binfile': 290000,
                                    'form:textfile-universal': 83000, 'api:Deb822()': 560000,
                                    'lf:cr-value': 640000, 'lf:cr-value-4-forms': 64000,
                                    'lf:cr-after-colon-blanks': 125000, 'lf:cr-at-line-end': 350000,
                                    'lf:cr-mid-line': 290000,
                                    # parse-side class
                                    'penum-len:6': 531441, 'penum-len:5': 295245, 'penum-len:4': 32805,
                                    'parse:history-case': 79000, 'parse:lone-cr': 320000, 'parse:hot': 250000,
                                    'parse:hot:list': 140000, 'parse:hot:stream': 100000,
                                    'parse:crlf-inside-list-element': 100000, 'parse:accepted': 410000,
                                    'parse:accepted-cr-value': 28000, 'parse:history-reread': 200000,
                                    'parse:history-reread-multi-op': 150000, 'parse:op-accepted': 390000,
                                    'parse:op-rejected': 59000, 'parse:api:iter': 380000, 'parse:api:ctor': 120000,
                                    'parse:form:lines-bare': 80000, 'parse:form:lines-nl': 80000,
                                    'parse:form:lines-bytes': 44000, 'parse:form:lines-bytes-nl': 44000,
                                    'parse:form:lines-gen': 44000, 'parse:form:stringio': 44000,
                                    'parse:form:bytesio': 80000, 'parse:form:textfile': 44000,
                                    'parse:form:binfile': 44000, 'parse:form:str': 1900, 'parse:form:bytes': 2000}}}

WS_FALSE = {'whitespace-separates-paragraphs': False}

# ---------------------------------------------------------------------------
# paragraph layouts: (fields before assignment, target name).  Names contain none
# of the characters the enumeration alphabet can put into an injected name.

ENUM_LAYOUTS = [
    {'fields': [['Pkg', 'p1'], ['Fld', 'old'], ['Zed', 'z9']], 'target': 'Fld'},          # middle, replace
    {'fields': [], 'target': 'Fld'},                                                       # sole, new
    {'fields': [['Fld', 'old'], ['Zed', 'z9']], 'target': 'Fld'},                          # first, replace
    {'fields': [['Pkg', 'p1'], ['Ver', '1.0-1'], ['Zed', 'z9']], 'target': 'Fld'},         # last, new (4 fields)
    {'fields': [['Pkg', 'p1'], ['Fld', 'old']], 'target': 'Fld'},                          # last, replace
    {'fields': [['Pkg', 'p1\n p2'], ['Fld', 'old'], ['Zed', '\n z8\n z9']], 'target': 'Fld'},  # multi-line neighbours
    {'fields': [['Fld', 'old']], 'target': 'Fld'},                                         # sole, replace
    {'fields': [['Pkg', 'p1'], ['fld', 'old'], ['Zed', 'z9'], ['Ver', '2']], 'target': 'FLD'},  # other spelling of the name
]

NAME_POOL = ['Package', 'Version', 'Depends', 'Description', 'Homepage', 'Section', 'Maintainer', 'X-Test-Field']
NEIGHBOUR_VALUES = ['v%d', 'some text %d', '%d.0-1', '\n line %d\n more', 'first %d\n second\n .\n third', '']
INJECT = ['B: x', 'Inj: y', 'Xtra:', 'Q :z', 'K:v', 'inj-2:  spaced', 'B:\tx']
SPECIAL_LINES = ['#comment', '# Inj: y', '-----BEGIN PGP SIGNED MESSAGE-----', '-----BEGIN PGP SIGNATURE-----',
                 '-----END PGP SIGNATURE-----', '.', ':', ': x', '::', '-', 'Hash: SHA256']
BLANKS = ['', ' ', '\t', '  ', ' \t ']
PRINTABLE = ''.join(chr(c) for c in range(0x21, 0x7f)) + '      ' + u'\xe9\xdf\u5b57'
BOUNDARIES = ['\n', '\n', '\n', '\r\n', '\r']
CR_BOUNDARIES = ['\r', '\r', '\r\n', '\r\n', '\n']
ROUTES = ['setitem', 'setitem', 'setitem', 'update', 'setdefault', 'ctor', 'copy']


def rand_line(r):
    k = r.random()
    if k < 0.30:
        return r.choice(INJECT)
    if k < 0.45:
        return r.choice(SPECIAL_LINES)
    if k < 0.55:
        return r.choice(BLANKS)
    if k < 0.65:
        return r.choice(INJECT) + ' ' + ''.join(r.choice(PRINTABLE) for _ in range(r.randint(0, 6)))
    return ''.join(r.choice(PRINTABLE) for _ in range(r.randint(1, 12)))


def rand_value(r):
    n = r.choice([1, 2, 2, 3, 3, 4, 5, 7])
    style = r.random()
    # indentation discipline of this value: mostly well-formed (so that many long values are ACCEPTED and the
    # re-read monitor is exercised), sometimes sloppy (rejections), sometimes none
    p_indent = 1.0 if style < 0.55 else (0.85 if style < 0.85 else 0.3)
    # CR-centred values (1 in 6): the boundaries are mostly bare CR / CR LF, the first line is often blank (so that the
    # dump reads 'Field: <blanks> CR ...') and the value often ends in CR - the shapes that read differently when the
    # dump is cut into lines at LF only
    cr_focus = r.random() < 1 / 6.0
    bounds = CR_BOUNDARIES if cr_focus else BOUNDARIES
    if cr_focus:
        n = max(n, 2)
        out = [r.choice(BLANKS) if r.random() < 0.6 else rand_line(r)]
    else:
        out = [rand_line(r) if r.random() < 0.85 else '']
    for _ in range(n - 1):
        line = rand_line(r)
        if r.random() < p_indent:
            line = r.choice([' ', ' ', '\t', '  ', ' \t']) + line
        out.append(r.choice(bounds))
        out.append(line)
    k = r.random()
    if k < 0.06:
        out.append(r.choice(['\n', '\r', '\r\n', '\n\n']))
    elif cr_focus and k < 0.36:
        out.append('\r')
    return ''.join(out)


def rand_case(r):
    nf = r.choice([1, 2, 3, 3, 4, 4])
    names = r.sample(NAME_POOL, nf)
    new = r.random() < 0.35
    if new:
        nf -= 1
    fields = []
    for i in range(nf):
        val = r.choice(NEIGHBOUR_VALUES)
        fields.append([names[i], val % i if '%d' in val else val])
    if new:
        target = names[-1]
    else:
        target = r.choice(fields)[0]
        if r.random() < 0.2:
            target = r.choice([target.lower(), target.upper()])
    route = r.choice(ROUTES)
    if route == 'setdefault' and not new:
        route = 'setitem'
    return {'kind': 'one', 'fields': fields, 'target': target, 'v': rand_value(r), 'route': route}



# ---------------------------------------------------------------------------
# re-read forms.  'str' and 'bytes' are cut into lines by the library with splitlines() (a CR is a line boundary
# there); the LF_FORMS hand the parser lines cut at LF ONLY, as when the dump went through a file.

MEM_LF_FORMS = ['stringio', 'bytesio', 'lines-nl', 'lines-bare']
DISK_LF_FORMS = ['textfile', 'binfile']
LF_FORMS = MEM_LF_FORMS + DISK_LF_FORMS
ALL_FORMS = ['str', 'bytes'] + LF_FORMS
UNIVERSAL = 'textfile-universal'      # the text file re-opened with Python's default newline translation (CR -> LF)
FILE_FORMS = ('textfile', 'binfile', UNIVERSAL)
# iter_paragraphs weighs double on the LF-only forms: on an iterator the constructor is the loop body of iter_paragraphs
ONE_COMBOS = ([(f, 'iter') for f in LF_FORMS] * 2 + [(f, 'ctor') for f in ALL_FORMS] + [(UNIVERSAL, 'iter')])
ALL_COMBOS = ([(f, 'iter') for f in LF_FORMS] + [(f, 'ctor') for f in ALL_FORMS]
              + [(UNIVERSAL, 'iter'), (UNIVERSAL, 'ctor')])
CR_MID = re.compile(r'[^ \t\r\n][ \t]*\r(?!\n)[ \t]')
# SUBCLASS LAYER only: the plain list of lines handed to cls(lines, strict=...) (not an iterator: one paragraph is read)
SEQ_FORMS = ('lines-nl-seq', 'lines-bare-seq')
SUB_ALL = ([(f, 'iter') for f in ALL_FORMS] + [(f, 'ctor') for f in ALL_FORMS] + [(f, 'ctor') for f in SEQ_FORMS]
           + [(UNIVERSAL, 'iter')])


def plan(depth, sel):
    """Extra (form, api) pairs beyond the always-run str/bytes x iter_paragraphs; a function of the case only."""
    if depth == 'all':
        return ALL_COMBOS
    if depth == 'full':
        # str lines with terminators from one of two equivalent sources, str lines without terminators, bytes lines,
        # one of the two files; for 1 in 4 also one constructor re-read / the translated text file
        out = [(('stringio', 'lines-nl')[(sel >> 6) & 1], 'iter'), ('lines-bare', 'iter'), ('bytesio', 'iter'),
               (DISK_LF_FORMS[sel & 1], 'iter')]
        if sel & 6 == 0:
            out.append((ALL_FORMS[(sel >> 3) % len(ALL_FORMS)], 'ctor'))
        if sel & 48 == 0:
            out.append((UNIVERSAL, 'iter'))
        return out
    if depth == 'some':            # two of the LF-only forms + one constructor re-read
        i = sel % len(LF_FORMS)
        return [(LF_FORMS[i], 'iter'), (LF_FORMS[(i + 1 + (sel >> 4) % 5) % len(LF_FORMS)], 'iter'),
                (ALL_FORMS[(sel >> 8) % len(ALL_FORMS)], 'ctor')]
    if depth == 'one':
        return [ONE_COMBOS[sel % len(ONE_COMBOS)]]
    return ()


_FILES = {}


def scratch_files(ctx):
    """Two scratch files per shard, created once and rewritten in place."""
    if not _FILES:
        d = ctx.tmpdir()
        _FILES['tpath'] = os.path.join(d, 'dump.txt')
        _FILES['t'] = open(_FILES['tpath'], 'w+', encoding='utf-8', newline='\n')   # no translation either way
        _FILES['b'] = open(os.path.join(d, 'dump.bin'), 'w+b')
    return _FILES


class Sources(object):
    """The dump of one paragraph in every re-read form (fresh source object per re-read)."""

    def __init__(self, ctx, d, text):
        self.ctx, self.d, self.text = ctx, d, text
        self._bytes = self._lines = self._nl = None
        self._written = set()

    def lines(self):
        if self._lines is None:
            parts = self.text.split('\n')
            if parts and parts[-1] == '':
                parts.pop()              # what follows the final LF is not a line (as when a file is read back)
            self._lines = parts
            self._nl = [l + '\n' for l in parts]
        return self._lines

    def _file(self, which):
        fs = scratch_files(self.ctx)
        f = fs[which]
        if which not in self._written:
            f.seek(0)
            if which == 't':
                self.d.dump(f, text_mode=True)
            else:
                self.d.dump(f)
            f.truncate()                 # cut what is left of a longer previous dump (never truncate to 0 first:
            f.flush()                    # ext4 then forces the blocks out on the next close() of any handle)
            self._written.add(which)
        f.seek(0)
        return f

    def get(self, form, api):
        """(source, is_iterator, closer)"""
        if form == 'str':
            return self.text, False, None
        if form == 'bytes' or form == 'bytesio':
            if self._bytes is None:
                self._bytes = self.text.encode('utf-8')
            if form == 'bytes':
                return self._bytes, False, None
            return io.BytesIO(self._bytes), True, None
        if form == 'stringio':
            return io.StringIO(self.text), True, None
        if form in SEQ_FORMS:            # the plain list handed to the constructor (only the first paragraph is read)
            self.lines()
            return list(self._nl if form == 'lines-nl-seq' else self._lines), False, None
        if form == 'lines-nl' or form == 'lines-bare':
            self.lines()
            seq = self._nl if form == 'lines-nl' else self._lines
            if api == 'ctor':
                return iter(seq), True, None       # an iterator, so that what follows the first paragraph can be read
            return seq, True, None
        if form == 'textfile':
            return self._file('t'), True, None
        if form == 'binfile':
            return self._file('b'), True, None
        if form == UNIVERSAL:
            self._file('t')
            f = open(scratch_files(self.ctx)['tpath'], 'r', encoding='utf-8')
            return f, True, f.close
        raise ValueError('unknown form %r' % form)

    def file_content(self, form):
        try:
            f = scratch_files(self.ctx)['b' if form == 'binfile' else 't']
            f.seek(0)
            return f.read()
        except Exception as e:           # only used to word a report
            return '<unreadable: %s>' % e


# ---------------------------------------------------------------------------
# PARSE-SIDE class: values also enter a paragraph by parsing.  A document is a list of PHYSICAL lines (cut at LF only);
# a physical line may contain a lone CR (or, when handed over as ONE list element, a CR LF) followed by text that
# would be rejected as an assigned value.  IF the parser hands back a paragraph, every value in it must be free of the
# stated defects (M.parsed-value) and, after ordinary accepted assignments, the dump must re-read as ONE paragraph
# with the same field names (M.reread-parsed).  If the parser raises, nothing is demanded.

PTOKENS = ['a', ':', ' ', '\t', '\r', '\r\n', '#', '-', 'B: x']
PENUM_MAXLEN = {'quick': 4, 'thorough': 6}
PENUM_FULL = {'quick': 3, 'thorough': 5}      # above this length the strings are thinned out:
PENUM_THIN = {'quick': (1, 3), 'thorough': (3, 9)}   # every N-th string in contexts 0 and 3 / in the other contexts
# where the enumerated string s is put: (lines of the field before the hot line, prefix of the hot line)
PCONTEXTS = [([], 'Fld: '),                    # field line, s is the whole value
             ([], 'Fld: old'),                 # field line, s after text
             ([], 'Fld:'),                     # right after the colon
             (['Fld: old'], ' c1'),            # continuation line, s after text
             (['Fld:'], ' ')]                  # first continuation of a value whose first line is empty
# (lines before the field, lines after it)
PLAYOUTS = [(['Pkg: p1'], ['Zed: z9']),                                   # middle field
            ([], []),                                                     # sole field
            (['Pkg: p1', 'Ver: 1.0-1'], []),                              # last field
            ([], ['Zed: z9', '', 'Pkg: second', 'Ver: 2']),               # first field, a second paragraph follows
            (['# comment', 'Pkg: p1', ' more', '#c2'], ['Zed:', ' z8', ' z9'])]   # comments, multi-line neighbours
POPS = [[['Zz', 'v1', 'setitem']],
        [['Pkg', 'p2', 'setitem']],
        [['Zed', 'multi\n line\n .\n more', 'setitem'], ['Zz', '', 'update']],
        [['Zz', 'bad\nB: x', 'setitem'], ['Pkg', 'p3', 'update']],
        [['zed', 'a\r b', 'setitem'], ['Zz', 'v2', 'setdefault']]]
LIST_FORMS = ['lines-bare', 'lines-nl', 'lines-bytes', 'lines-bytes-nl', 'lines-gen']
STREAM_FORMS = ['stringio', 'bytesio', 'textfile', 'binfile']
PARSE_FORMS = LIST_FORMS + STREAM_FORMS        # all hand the parser lines cut at LF only
WHOLE_FORMS = ['str', 'bytes']                 # cut by the library with splitlines(): ordinary-input histories only
PENUM_FORMS = ['lines-bare', 'stringio', 'lines-bytes', 'bytesio', 'lines-nl', 'textfile', 'lines-gen', 'binfile',
               'lines-bytes-nl', 'lines-bare', 'bytesio', 'lines-nl']
HIST_TOTAL = {'quick': 5000, 'thorough': 160000}
CR_JUNK = ['\r', '\r', '\r', '\r\r', '\r\n', ' \r', '\r \r', '\r\t\r', '\t\r', '\r\r\n']
CR_TAILS = INJECT + SPECIAL_LINES + ['', 'text', 'C: d', 'X: y',
                                     # indented tails: the parser may keep the CR inside an accepted value
                                     ' indented', '\tB: x', ' .', ' Inj: y', '  ', ' -----BEGIN PGP SIGNATURE-----',
                                     '\t# c', ' K:v', ' more\r text', ' x\r']
DOC_TEXT = ['p%d', 'some text %d', '%d.0-1', 'a (>= %d), b | c', 'http://x.example/%d', 'Name <n%d@example.org>']
DOC_CONT = [' line %d', ' more', ' .', '\tTabbed: %d', '  deeper %d', ' Key: looks like a field', ' # not a comment']


ORDINARY_NAME = re.compile(r'^[A-Za-z0-9][A-Za-z0-9-]*$')


def lone_cr(line):
    """The physical line (as the parser sees it, outer CR/LF stripped) still contains a CR."""
    return '\r' in line.strip('\r\n')


def hot_line(line):
    """The text after a CR inside the physical line would be a defective continuation of an assigned value."""
    core = line.strip('\r\n')
    return '\r' in core and bool(model.defects(core))


def rand_doc(r):
    """An ordinary control document as a list of physical lines; (lines, field names used)."""
    lines = []
    if r.random() < 0.15:
        lines.extend(r.choice([[''], ['', ''], ['#leading comment'], ['# c', '']]))
    used = []
    for pi in range(r.choice([1, 1, 1, 2, 2, 3])):
        if pi:
            lines.append('')
        names = r.sample(NAME_POOL, r.choice([1, 2, 3, 3, 4]))
        for i, name in enumerate(names):
            used.append(name)
            k = r.random()
            first = '' if k < 0.2 else (r.choice(DOC_TEXT) % r.randint(0, 99) if k < 0.9 else ''.join(
                r.choice(PRINTABLE) for _ in range(r.randint(1, 10))).strip() or 'x')
            sep = r.choice([': ', ': ', ': ', ':', ':\t', ' : ', ':  '])
            lines.append(name + (sep + first if first else r.choice([':', ': ', ':'])))
            ncont = r.choice([0, 0, 1, 2, 3]) if first else r.choice([1, 2, 3])
            for _ in range(ncont):
                c = r.choice(DOC_CONT)
                lines.append(c % r.randint(0, 99) if '%d' in c else c)
                if r.random() < 0.06:
                    lines.append(r.choice([' ', '  ', '\t', ' \t']))      # whitespace-only line inside a value
            if r.random() < 0.08:
                lines.append('#comment %d' % i)
    return lines, used


def rand_hist_case(r):
    lines, used = rand_doc(r)
    k = r.random()
    if k < 0.5:
        # one CR injection: a lone CR (or CR LF / CR CR ...) inside a field or continuation line, followed by a tail
        cand = [i for i, l in enumerate(lines) if l and not l.startswith('#')]
        i = r.choice(cand)
        junk, tail = r.choice(CR_JUNK), r.choice(CR_TAILS)
        l = lines[i]
        if r.random() < 0.25 and len(l) > 2:
            cut = r.randint(1, len(l) - 1)
            lines[i] = l[:cut] + junk + tail + (l[cut:] if r.random() < 0.5 else '')
        else:
            lines[i] = l + junk + tail
    elif k < 0.6:
        lines = [l + '\r' for l in lines]            # an ordinary CR LF terminated file
    form = r.choice(PARSE_FORMS + PARSE_FORMS + WHOLE_FORMS) if k >= 0.5 else r.choice(PARSE_FORMS)
    case = {'kind': 'parse', 'lines': lines, 'form': form, 'api': 'ctor' if r.random() < 0.25 else 'iter',
            'ws': r.random() < 0.5}
    if r.random() < 0.1 and used:
        case['fields'] = r.sample(used, r.randint(1, len(used)))
    ops = []
    if r.random() < 0.5:
        ops.append(['X-First', 'v%d' % r.randint(0, 9), 'setitem'])
    for j in range(r.choice([1, 2, 2, 3, 4])):
        if used and r.random() < 0.6:
            target = r.choice(used)
            if r.random() < 0.2:
                target = r.choice([target.lower(), target.upper()])
        else:
            target = r.choice(['X-New-%d' % j, r.choice(NAME_POOL)])
        v = rand_value(r) if r.random() < 0.7 else r.choice(['v', '', '1.0', 'plain text', 'two\n lines'])
        ops.append([target, v, r.choice(['setitem', 'setitem', 'update', 'setdefault'])])
    case['ops'] = ops
    return case


def parse_source(ctx, lines, form):
    """(source, closer): the document in one input form.  A fresh object per call."""
    if form in LIST_FORMS:
        if form == 'lines-bare':
            return list(lines)
        if form == 'lines-nl':
            return [l + '\n' for l in lines]
        if form == 'lines-bytes':
            return [l.encode('utf-8') for l in lines]
        if form == 'lines-bytes-nl':
            return [(l + '\n').encode('utf-8') for l in lines]
        return (l for l in list(lines))            # lines-gen: a one-shot iterator of str lines
    text = '\n'.join(lines) + '\n' if lines else ''
    if form == 'str':
        return text
    if form == 'bytes':
        return text.encode('utf-8')
    if form == 'stringio':
        return io.StringIO(text)
    if form == 'bytesio':
        return io.BytesIO(text.encode('utf-8'))
    if form in ('textfile', 'binfile'):
        f = scratch_files(ctx)['t' if form == 'textfile' else 'b']
        f.seek(0)
        f.write(text if form == 'textfile' else text.encode('utf-8'))
        f.truncate()
        f.flush()
        f.seek(0)
        return f
    raise ValueError('unknown parse form %r' % form)


def assign_live(ctx, d, target, v, route, small):
    """One assignment to a live (parsed) paragraph under the monitors of the assignment side.
    True: accepted; False: rejected (and verified unchanged); None: a violation was recorded, stop this paragraph."""
    from ..core import MonitorViolation
    from .. import contracts
    dfx = model.defects(v)
    if route == 'setdefault' and target in d:
        route = 'setitem'            # setdefault on a present field assigns nothing
    ctx.count('parse:op:' + route)
    before = (list(d), d.dump())
    try:
        K_ACTIVE[0] = True
        if route == 'update':
            d.update({target: v})
        elif route == 'setdefault':
            d.setdefault(target, v)
        else:
            d[target] = v
    except MonitorViolation as e:
        contracts.PENDING[:] = []
        ctx.violation(e.key, e.msg, small)
        return None
    except Exception as e:
        K_ACTIVE[0] = False
        ctx.count('parse:op-rejected')
        if not isinstance(e, ValueError):
            ctx.violation('rejection-not-ValueError',
                          'assigning %r to %r of a parsed paragraph raised %s (%s), not ValueError'
                          % (v, target, type(e).__name__, e), small)
        if not dfx:
            ctx.extra['rejected_without_stated_defect'] += 1
        ctx.mon('M.unchanged')
        after = (list(d), d.dump())
        if after != before:
            ctx.violation('rejected-assignment-changed-paragraph',
                          'assigning %r to %r of a parsed paragraph was rejected (%s) but list/dump changed: %r -> %r'
                          % (v, target, type(e).__name__, before, after), small)
            return None
        return False
    finally:
        K_ACTIVE[0] = False
    ctx.count('parse:op-accepted')
    ctx.mon('M.must-reject')
    if dfx:
        ctx.violation('defective-value-accepted/' + dfx[0],
                      'value %r has the stated defect(s) %s but assigning it to %r (%s) of a parsed paragraph was '
                      'accepted; dump is %r' % (v, '+'.join(dfx), target, route, d.dump()), small)
        return None
    return True


def run_parse(ctx, case, depth='none', sel=0, lazy=False):
    """Parse one document; judge what the parser hands back (nothing if it raises)."""
    from debian.deb822 import Deb822
    from ..core import MonitorViolation
    lines, form, api = case['lines'], case['form'], case.get('api', 'iter')
    strict = None if case.get('ws', True) else WS_FALSE
    fields = case.get('fields')
    ops = case.get('ops') or []
    ctx.mon('M.parse')
    ctx.count('parse:form:' + form)
    ctx.count('parse:api:' + api)
    cr = any(lone_cr(l) for l in lines)
    hot = cr and any(hot_line(l) for l in lines)
    if cr:
        ctx.count('parse:lone-cr')
        if form in LIST_FORMS and any('\r\n' in l.strip('\r\n') for l in lines):
            ctx.count('parse:crlf-inside-list-element')
    if hot:
        ctx.count('parse:hot')
        ctx.count('parse:hot:' + ('list' if form in LIST_FORMS else 'stream' if form in STREAM_FORMS else 'whole'))
    if cr or any(l[:1] in (' ', '\t') for l in lines):
        ctx.nontrivial(case={'lines': lines}, key=hashlib.sha1(('parse\0' + '\n'.join(lines)).encode('utf-8')).hexdigest())
    try:
        src = parse_source(ctx, lines, form)
        if api == 'iter':
            paras = list(Deb822.iter_paragraphs(src, fields=fields, strict=strict))
        else:
            first = Deb822(src, fields=fields, strict=strict)
            paras = [first] if first else []
    except MonitorViolation:
        raise
    except Exception as e:          # the parser refuses the document: nothing is demanded
        ctx.count('parse:raised')
        ctx.count('parse:raised:' + type(e).__name__)
        if hot:
            ctx.count('parse:hot-raised')
        return
    ctx.count('parse:accepted')
    if hot:
        ctx.count('parse:hot-accepted')
    if not paras:
        ctx.count('parse:no-paragraph')
    for pi, p in enumerate(paras[:3]):
        # (a) no value obtained by parsing may carry a stated defect
        values = []
        for key in list(p):
            val = p[key]
            if not isinstance(val, str):
                ctx.count('parse:non-str-value')
                continue
            values.append(val)
            ctx.mon('M.parsed-value')
            dfx = model.defects(val)
            if dfx:
                ctx.violation('parsed-value-has-stated-defect/' + dfx[0],
                              'parsing %r (form %s, %s, strict=%r) was accepted and paragraph %d holds %s = %r, which has '
                              'the stated defect(s) %s (the validator must reject this value); dump is %r'
                              % (lines, form, api, strict, pi, key, val, '+'.join(dfx), p.dump()), case)
        if any('\r' in x for x in values):
            ctx.count('parse:accepted-cr-value')
        if not all(ORDINARY_NAME.match(key) for key in p):
            ctx.count('parse:odd-field-name')     # names are not under test: no history / re-read on this paragraph
            continue
        if lazy and (sel + pi) % 4 and not any('\r' in x for x in values):
            continue                 # enumerated documents: a paragraph without CR in any value goes through the
                                     # history + re-read for every 4th document only
        # (b) history: parse, assign, assign, dump, re-read
        accepted = 0
        last = None
        aborted = False
        for target, v, route in ops:
            ok = assign_live(ctx, p, target, v, route, case)
            if ok is None:
                aborted = True
                break
            if ok:
                accepted += 1
                last = v
        if accepted and not aborted:
            ctx.count('parse:history-reread')
            if len(ops) > 1:
                ctx.count('parse:history-reread-multi-op')
            check_reread(ctx, p, last, case, what='dump of the parsed paragraph (%d of %r, form %s) after the assignments %r'
                         % (pi, lines, form, ops), depth=depth, sel=sel + pi,
                         values=[p[k] for k in p], suffix='/after-parse')


def run_penum(ctx, case):
    """One block of the enumerated parse-side documents: one context, one token prefix, all suffixes."""
    k, ci = case['k'], case['c']
    prefix = ''.join(PTOKENS[i] for i in case['prefix'])
    before, pre = PCONTEXTS[ci]
    slen = k - len(case['prefix'])
    n = sum(case['prefix']) + k + ci
    first = True
    for suffix in itertools.product(PTOKENS, repeat=slen):
        s = prefix + ''.join(suffix)
        n += 1
        if k > PENUM_FULL[ctx.tier] and n % PENUM_THIN[ctx.tier][0 if ci in (0, 3) else 1]:
            continue
        if not first:
            ctx.evaluations += 1
        first = False
        ctx.count('penum-len:%d' % k)
        h = zlib.crc32(s.encode('utf-8')) + ci
        head, tail = PLAYOUTS[n % len(PLAYOUTS)]
        doc = {'kind': 'parse', 'lines': head + before + [pre + s] + tail,
               'form': PENUM_FORMS[h % len(PENUM_FORMS)], 'api': 'ctor' if (h >> 5) % 4 == 0 else 'iter',
               'ws': bool((h >> 8) & 1), 'ops': POPS[(h >> 10) % len(POPS)]}
        depth = 'one' if '\r' in s and (h >> 13) % 4 == 0 else 'none'
        run_parse(ctx, doc, depth=depth, sel=h >> 3, lazy=True)


# ---------------------------------------------------------------------------

def setup(ctx):
    from debian import deb822
    from .. import contracts
    ctx.extra['ctor_reject_types'] = {}
    ctx.extra['rejected_without_stated_defect'] = 0
    ctx.extra['exhaustive_subspaces'] = [
        'all token strings of length <= %d over %r (sharded)' % (ENUM_MAXLEN[ctx.tier], TOKENS)]

    def snapshot(self, key, value):
        if not K_ACTIVE[0]:
            return None
        return (list(self), self.dump())

    def on_raise(old, exc, self, key, value):
        if old is None:
            return
        now = (list(self), self.dump())
        if now != old:
            contracts.fail('rejected-assignment-changed-paragraph',
                           'K: Deb822.__setitem__(%r, %r) raised %s but the mapping changed: %r -> %r'
                           % (key, value, type(exc).__name__, old, now))

    contracts.wrap(deb822.Deb822, '__setitem__', 'K.setitem-raise', snapshot=snapshot, on_raise=on_raise)


K_ACTIVE = [False]     # the K snapshot is taken only while the harness drives an assignment (not inside re-reads)


def finish(ctx):
    from .. import contracts
    contracts.flush_evals(ctx)
    for k in ('t', 'b'):
        if k in _FILES:
            _FILES[k].close()
    _FILES.clear()


def cases(ctx):
    maxlen = ENUM_MAXLEN[ctx.tier]
    idx = 0
    for k in range(0, maxlen + 1):
        plen = max(0, k - BLOCK_SUFFIX)
        for prefix in itertools.product(range(len(TOKENS)), repeat=plen):
            if ctx.mine(idx):
                yield {'kind': 'enum', 'k': k, 'prefix': list(prefix)}
            idx += 1
    r = ctx.rng('random')
    for _ in range(ctx.size(RANDOM_TOTAL['quick'], RANDOM_TOTAL['thorough'])):
        yield rand_case(r)
    # parse-side class: enumerated hot lines in five contexts, then seeded parse/assign histories
    for k in range(0, PENUM_MAXLEN[ctx.tier] + 1):
        plen = max(0, k - BLOCK_SUFFIX)
        for ci in range(len(PCONTEXTS)):
            for prefix in itertools.product(range(len(PTOKENS)), repeat=plen):
                if ctx.mine(idx):
                    yield {'kind': 'penum', 'k': k, 'c': ci, 'prefix': list(prefix)}
                idx += 1
    r = ctx.rng('parse-histories')
    for _ in range(ctx.size(HIST_TOTAL['quick'], HIST_TOTAL['thorough'])):
        yield rand_hist_case(r)


# ---------------------------------------------------------------------------
# one assignment, fully checked

def build(fields):
    from debian.deb822 import Deb822
    d = Deb822()
    for name, val in fields:
        d[name] = val
    return d


def one_case(fields, target, v, route):
    return {'kind': 'one', 'fields': fields, 'target': target, 'v': v, 'route': route}


def classify(keys, names, nparas):
    if nparas > 1:
        return 'accepted-value-starts-new-paragraph'
    if nparas == 0:
        return 'accepted-value-reread-empty'
    lk, lg = [x.lower() for x in keys], [x.lower() for x in names[0]]
    if [x for x in lg if x not in lk]:
        return 'accepted-value-adds-field'
    if [x for x in lk if x not in lg]:
        return 'accepted-value-truncates-paragraph'
    return 'accepted-value-changes-field-names'


def reread_once(src, is_iter, api, strict, cls=None):
    """Field names of the paragraphs one re-read gives.  api 'iter': cls.iter_paragraphs; api 'ctor': the
    cls(...) constructor (reads the first paragraph; on an iterator/file a second call reads what follows).
    cls: Deb822 unless the subclass layer asks for the entry points of one of the subclasses."""
    if cls is None:
        from debian.deb822 import Deb822 as cls
    if api == 'iter':
        return [list(p) for p in cls.iter_paragraphs(src, strict=strict)]
    first = cls(src, strict=strict)
    names = [list(first)] if first else []
    if is_iter:
        rest = cls(src, strict=strict)
        if rest:
            names.append(list(rest))
    return names


def check_reread(ctx, d, v, small, what='dump', depth='none', sel=0, values=None, suffix='', sub=None, sink=None,
                 followed=False):
    """M.reread: the accepted value's paragraph re-reads as ONE paragraph with the same names.
    values: all values of a PARSED paragraph (the blank-continuation guard of the default setting then looks at every
    one of them, and the re-reads are also counted as M.reread-parsed).
    sub: SUBCLASS LAYER - name of the class of d: the dump is re-read through THAT class's iter_paragraphs / constructor
    (str and bytes always, plus the forms sub_plan() selects) and once through plain Deb822; counted as M.reread-sub.
    sink: called with (key, message) instead of ctx.violation (the subclass layer picks the witness itself)."""
    keys = list(d)
    text = d.dump()
    parsed = values is not None and sub is None
    if values is not None:
        blank = any(model.blank_continuation(x) for x in values)
    else:
        blank = model.blank_continuation(v)
    rcls = None
    if sub is not None:
        rcls = sub_cls(sub)
        combos = [('str', 'iter', rcls), ('bytes', 'iter', rcls)]
        if sub != 'Deb822':
            combos.append(('str', 'iter', None))
        extra = sub_plan(depth, sel)
        combos.extend((f, a, rcls) for f, a in extra)
        # a whitespace-only continuation line in the assigned value, with further fields behind it
        ws_followed = followed and model.blank_continuation(v)
        if ws_followed:
            ctx.count('sub:ws-only-continuation-followed')
            ctx.count('sub:ws-only-continuation-followed:' + sub)
    else:
        ws_followed = False
        combos = [('str', 'iter', None), ('bytes', 'iter', None)]
        extra = plan(depth, sel)
        if extra:
            combos.extend((f, a, None) for f, a in extra)
            if parsed:
                ctx.count('parse:reread-extra-forms')
            elif '\r' in v:
                ctx.count('lf:cr-value')
                if depth in ('full', 'all'):
                    ctx.count('lf:cr-value-4-forms')
                if v.lstrip(' \t')[:1] == '\r':
                    ctx.count('lf:cr-after-colon-blanks')
                if '\r\n' in v or v[-1] == '\r':
                    ctx.count('lf:cr-at-line-end')
                if CR_MID.search(v):
                    ctx.count('lf:cr-mid-line')
    srcs = Sources(ctx, d, text)
    found = {}        # mechanism key -> (first detail, [modes]) : one report per mechanism per case
    for strict, sname in ((WS_FALSE, 'ws-false'), (None, 'default')):
        if strict is None and blank:
            ctx.count('reread-default-skipped:blank-continuation')
            continue
        for form, api, cls in combos:
            mode = '%s/%s' % (form, sname) if api == 'iter' else '%s/Deb822()/%s' % (form, sname)
            ctx.mon('M.reread')
            if sub is not None:
                cname = sub if cls is not None else 'Deb822'
                mode = '%s/%s/%s' % (form, '%s.iter_paragraphs' % cname if api == 'iter' else '%s()' % cname, sname)
                ctx.mon('M.reread-sub')
                ctx.count('sub:reread-form:' + form)
                ctx.count('sub:reread:%s:%s' % (cname, api))
                if strict is not None:
                    ctx.count('sub:reread-explicit-strict:%s:%s' % (cname, api))
                    if ws_followed:
                        ctx.count('sub:ws-reread:%s:%s' % (cname, api))
                        ctx.count('sub:ws-reread-form:' + form)
            else:
                if parsed:
                    ctx.mon('M.reread-parsed')
                if form not in ('str', 'bytes'):
                    if parsed:               # kept apart: the form:* / api:* floors speak about the assignment side
                        ctx.count('parse:reread-form:' + form)
                    else:
                        if form != UNIVERSAL:
                            ctx.mon('M.reread-lf')
                        ctx.count('form:' + form)
                if api == 'ctor' and not parsed:
                    ctx.count('api:Deb822()')
            closer = None
            try:
                src, is_iter, closer = srcs.get(form, api)
                names = reread_once(src, is_iter, api, strict, cls)
            except Exception as e:       # the dump of an accepted value cannot be read back at all
                found.setdefault('reread-raises', ('raised %s: %s' % (type(e).__name__, e), []))[1].append(mode)
                continue
            finally:
                if closer is not None:
                    closer()
            if len(names) == 1 and names[0] == keys:
                continue
            more = ' (at least)' if api == 'ctor' and len(names) > 1 else ''
            detail = 'gives %d%s paragraph(s) with fields %r' % (len(names), more, names)
            if form in FILE_FORMS:
                detail += ' [file written by dump(fd) holds %r]' % (srcs.file_content(form),)
            found.setdefault(classify(keys, names, len(names)), (detail, []))[1].append(mode)
    for key, (detail, modes) in sorted(found.items()):
        msg = ('%s of accepted value %r is %r; re-read [%s] %s; expected one paragraph with fields %r'
               % (what, v, text, ', '.join(modes), detail, keys))
        if sink is not None:
            sink(key + suffix, msg)
        else:
            ctx.violation(key + suffix, msg, small)
    ok = not found
    return ok


def assign_and_check(ctx, fields, target, v, route, d=None, depth='none', salt=0):
    """Returns the paragraph if it is still pristine (rejected and verified unchanged) so the caller may reuse it.
    depth: how many of the extra re-read forms an accepted value goes through (plan()); a replay runs them all."""
    from debian.deb822 import Deb822
    from ..core import MonitorViolation
    from .. import contracts
    small = one_case(fields, target, v, route)
    dfx = model.defects(v)
    boundary = model.has_boundary(v)
    if boundary:
        ctx.nontrivial(case={'v': v}, key=hashlib.sha1(v.encode('utf-8')).hexdigest())
    ctx.count('route:' + route)

    if route == 'ctor':
        items = {}
        seen = False
        for name, val in fields:
            if name.lower() == target.lower():
                items[name] = v
                seen = True
            else:
                items[name] = val
        if not seen:
            items[target] = v
        try:
            K_ACTIVE[0] = True
            d = Deb822(items)
        except MonitorViolation as e:
            contracts.PENDING[:] = []
            ctx.violation(e.key, e.msg, small)
            return None
        except Exception as e:
            t = type(e).__name__
            ctx.count('rejected')
            ctx.extra['ctor_reject_types'][t] = ctx.extra['ctor_reject_types'].get(t, 0) + 1
            if not dfx:
                ctx.extra['rejected_without_stated_defect'] += 1
            return None
        finally:
            K_ACTIVE[0] = False
        before = None
    else:
        if d is None:
            d = build(fields)
        before = (list(d), d.dump())
        try:
            K_ACTIVE[0] = True
            if route == 'update':
                d.update({target: v})
            elif route == 'setdefault':
                d.setdefault(target, v)
            else:
                d[target] = v
        except MonitorViolation as e:
            contracts.PENDING[:] = []
            ctx.violation(e.key, e.msg, small)
            return None
        except Exception as e:
            K_ACTIVE[0] = False
            ctx.count('rejected')
            ctx.count('rejected:' + ('+'.join(dfx) if dfx else 'no-stated-defect'))
            if not isinstance(e, ValueError):
                ctx.violation('rejection-not-ValueError',
                              'assigning %r to %r raised %s (%s), not ValueError' % (v, target, type(e).__name__, e), small)
            if not dfx:
                ctx.extra['rejected_without_stated_defect'] += 1
            ctx.mon('M.unchanged')
            after = (list(d), d.dump())
            if after != before:
                ctx.violation('rejected-assignment-changed-paragraph',
                              'assigning %r to %r was rejected (%s) but list/dump changed: %r -> %r'
                              % (v, target, type(e).__name__, before, after), small)
                return None
            return d
        finally:
            K_ACTIVE[0] = False

    # ---- accepted
    ctx.count('accepted')
    if boundary:
        ctx.count('accepted-multiline')
    ctx.mon('M.must-reject')
    if dfx:
        ctx.violation('defective-value-accepted/' + dfx[0],
                      'value %r has the stated defect(s) %s but assigning it to %r (%s) was accepted; dump is %r'
                      % (v, '+'.join(dfx), target, route, d.dump()), small)
    if ctx.replay:
        depth = 'all'
    sel = (zlib.crc32(v.encode('utf-8')) >> 3) + salt if depth != 'none' else 0
    check_reread(ctx, d, v, small, depth=depth, sel=sel)
    if route == 'copy':
        try:
            c = d.copy()
        except ValueError:
            ctx.count('copy-rejected')      # no must-accept demand
        else:
            ctx.count('copy-checked')
            check_reread(ctx, c, v, small, what='dump of copy()', depth='all' if ctx.replay else 'one', sel=sel + 5)
    return None


def run_case(ctx, case):
    kind = case['kind']
    if kind == 'one':
        v = case['v']
        h = zlib.crc32(v.encode('utf-8'))
        if '\r' not in v:
            depth = 'one' if ctx.quick or h % 4 == 1 else 'none'
        elif h % (2 if ctx.quick else 4) == 0:
            depth = 'some'
        else:
            depth = 'one'
        assign_and_check(ctx, case['fields'], case['target'], v, case.get('route', 'setitem'), depth=depth)
        return
    if kind == 'parse':
        lines = case['lines']
        h = zlib.crc32('\n'.join(lines).encode('utf-8'))
        ctx.count('parse:history-case')
        run_parse(ctx, case, depth='all' if ctx.replay else ('one' if h % 2 else 'none'), sel=h >> 3)
        return
    if kind == 'penum':
        run_penum(ctx, case)
        return
    if kind != 'enum':
        raise ValueError('unknown case kind %r' % kind)
    k = case['k']
    prefix = ''.join(TOKENS[i] for i in case['prefix'])
    slen = k - len(case['prefix'])
    rot = len(ENUM_LAYOUTS) - 1
    # one reusable pristine paragraph per layout (reused only after a rejection that was verified to change nothing)
    pristine = [None] * len(ENUM_LAYOUTS)
    n = sum(case['prefix']) + k
    first = True
    for suffix in itertools.product(TOKENS, repeat=slen):
        v = prefix + ''.join(suffix)
        n += 1
        if not first:
            ctx.evaluations += 1
        first = False
        ctx.count('enum-len:%d' % k)
        if k <= 5:
            chosen = (0, 1, 2 + n % (rot - 1))
        elif k == 6 or n % 3 == 0:
            chosen = (0, 1 + (n // 3 if k > 6 else n) % rot)
        else:
            chosen = (0,)
        cr = '\r' in v
        for li in chosen:
            lay = ENUM_LAYOUTS[li]
            if li:                   # other layouts: CR values only, on the first rotated layout (7 tokens: every 2nd)
                depth = 'one' if cr and li == chosen[1] and (k <= 6 or n % 2 == 0) else 'none'
            elif cr:
                if k <= 6 or n % 32 == 0:
                    depth = 'full'
                else:                # 7 tokens: every 2nd CR value gets one LF-only (form, API) pair
                    depth = 'one' if n % 2 else 'none'
            elif k <= 5:
                depth = 'one' if n % 8 == 0 or ('\n' in v and n % 2) else 'none'
            else:
                depth = 'one' if n % (4 if k == 6 else 32) == 1 else 'none'
            pristine[li] = assign_and_check(ctx, lay['fields'], lay['target'], v, 'setitem', pristine[li],
                                            depth=depth, salt=li)


LEVEL_TEXT = ('Runtime monitoring: every string of <= 5 (quick) / <= 7 (thorough) tokens over a 10-token hostile alphabet '
              '(colon, hash, space, tab, CR, LF, hyphen, dot, a letter, a ready-made "B: x" line) and seeded longer '
              'multi-line values are assigned to fields of live Deb822 paragraphs (item assignment, update, setdefault, '
              'Deb822(dict), copy).  Each accepted assignment is dumped and re-read through Deb822.iter_paragraphs (str and '
              'bytes; whitespace-separates-paragraphs=False, and the default when no continuation line is blank) and must '
              'give one paragraph with the same field names; accepted values containing CR (all enumerated ones of <= 5 / '
              '<= 6 tokens, a rotating share of the rest) are also re-read in forms whose lines are cut at LF only - '
              'StringIO, BytesIO, lists of lines with and without terminators, a real text and a real binary file written '
              'by dump(fd) - through iter_paragraphs and the Deb822(...) constructor, with the same demand (paragraph count '
              'and field names only, never values); accepted values must be free of the three stated defects per '
              'an independent model; rejections must be ValueError and leave list()/dump() unchanged.  Held-on-observed, '
              'not a proof: reach is the enumerated space plus the sampled values.')
LEVEL_NOTE = ('Trusted: CPython, vp.models.deb822value (line model of the three stated defects), the layout table. Domain as '
              'quantified (no exotic Unicode line boundaries/whitespace); field names are ordinary and disjoint from injectable '
              'names; no must-accept demand; on the Deb822(dict) route any exception counts as rejection.  Reading the dump '
              'back from a file / a sequence of LF-cut lines is taken to be within "reading it back"; values are never compared.')
TECHNIQUE = ('runtime monitoring: boundary oracle M.reread (dump of every accepted assignment re-read by the live parser in all '
             'stated settings and, for values containing CR, in every input form that cuts lines at LF only - in-memory streams, '
             'line lists, real text/binary files: one paragraph, same field names) as deciding monitor, with reference-model monitor M.must-reject, '
             'history monitor M.unchanged on rejections and an exceptional-exit contract on Deb822.__setitem__')
