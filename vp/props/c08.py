"""C08 - an accepted field value can never inject fields or split the paragraph.

Deciding monitor M (boundary, public API only): every generated value v is
assigned to a field of a live ``Deb822`` paragraph (item assignment, and the
other assignment routes that funnel into it: ``update``, ``setdefault``,
``Deb822(dict)``, ``copy()``).

* accepted  -> ``dump()`` is re-read by ``Deb822.iter_paragraphs`` from ``str``
  and from ``bytes``, with ``whitespace-separates-paragraphs=False`` always and
  with the default setting whenever no continuation line of v is blank; the
  re-read must give exactly one paragraph with exactly the field names
  ``list(d)`` (M.reread).  ``str``/``bytes`` are cut into lines by the library
  with ``splitlines()`` (a CR is a line boundary there).  The dump is therefore
  also re-read in forms whose lines are cut at LF ONLY, as when it went through
  a file (M.reread-lf, a sub-count of M.reread): ``io.StringIO``,
  ``io.BytesIO``, a real text file and a real binary file written by
  ``dump(fd)``, the list ``dump.split('\\n')`` with and without terminators -
  through ``iter_paragraphs`` and through the ``Deb822(...)`` constructor.
  Only the number of paragraphs and the field NAMES are compared, never the
  values (the statement does not promise equal values).
  Independently, an accepted v must carry none of the three stated defects
  according to the reference model ``vp.models.deb822value`` (M.must-reject).
* rejected  -> the exception is ValueError and ``list(d)`` / ``dump()`` are what
  they were before (M.unchanged).

Auxiliary K-monitor: contract on the exceptional exit of
``Deb822.__setitem__`` (every binding): the mapping is unchanged.

No "must accept" demand is made anywhere: a value without a stated defect that
is rejected is only counted.
"""
import hashlib
import io
import itertools
import os
import re
import zlib

from ..models import deb822value as model

PROP = 'C08'
LEVEL = 'exploration'

TOKENS = ['a', ':', '#', ' ', '\t', '\r', '\n', '-', '.', 'B: x']
ENUM_MAXLEN = {'quick': 5, 'thorough': 7}
BLOCK_SUFFIX = 3                     # one enum case = one prefix x all 10^3 suffixes
RANDOM_TOTAL = {'quick': 24000, 'thorough': 900000}

RULE = ('Values: (1) ENUMERATED - every concatenation of <= 5 (quick) / <= 7 (thorough) tokens from '
        "['a', ':', '#', ' ', TAB, CR, LF, '-', '.', 'B: x'], each assigned to the middle field of a 3-field "
        'paragraph and (rotating with the value; for length 7 on every third value) to a sole/first/last/new field of '
        'paragraphs of 1..4 fields, some with multi-line neighbours; (2) RANDOM - seeded longer values built from lines (printable ASCII and a few '
        "non-ASCII letters, 'Key: value' look-alikes, '#' comments, PGP armour lines, whitespace-only lines) joined by "
        'LF / CR LF / CR with mostly-indented continuations, assigned through item assignment, update(), '
        'setdefault(), Deb822(dict) and re-checked after copy(), target field first/middle/last/new in paragraphs '
        'of 1..4 fields; 1 random value in 6 is CR-CENTRED (boundaries mostly bare CR / CR LF, first line often blank '
        "so that the dump reads 'Field: <blanks> CR ...', value often ending in CR).  "
        '(3) RE-READ FORMS of every accepted assignment: always str and bytes through iter_paragraphs (the library cuts '
        'them with splitlines(): CR is a boundary).  LF-ONLY forms (lines cut at LF only, as when the dump went through '
        "a file): io.StringIO(dump), io.BytesIO(dump bytes), the list dump.split('\\n') re-terminated with LF, the same "
        'list without terminators, a real text file (newline=LF, utf-8) and a real binary file written by dump(fd) and '
        'rewound (two scratch files per shard, rewritten in place); plus the text file re-opened with Python\'s default '
        'newline translation.  Each through iter_paragraphs(strict=...) and/or the Deb822(source, strict=...) '
        'constructor (first paragraph; on an iterator/file a second constructor call reads what follows and must find '
        'nothing).  Which forms a value goes through: an enumerated value CONTAINING CR of <= 6 tokens (and every 32nd of '
        '7 tokens) in the 3-field layout -> BytesIO, the list without terminators, StringIO or the re-terminated list '
        '(both hand over str lines ending in LF) and one of the two files (+ for 1 in 4 a constructor re-read / the '
        'translated text file); every other accepted CR value (other layouts: the first '
        'rotated layout only, for 7 tokens on every 2nd value; every 2nd value of 7 tokens; 1 in 2 (quick) / 3 in 4 (thorough) random ones) -> one (form, API) pair chosen '
        'by a CRC of the value out of 15 pairs (the six LF-only iter_paragraphs pairs weighing double); the remaining random CR values -> two LF-only forms + one '
        'constructor re-read; values without CR (there the LF-only cut equals the splitlines() cut) -> one pair for a '
        'rotating fraction; the dump of copy() -> one pair; a --replay runs all 18 (form, API) pairs.  '
        'A value is NON-TRIVIAL when it contains a line boundary (LF or CR); distinct = distinct value string.')
ASSUMPTIONS = [
    'vp.models.deb822value (30 lines) states the three defects of the property: value ends in LF; a line after the '
    'first is empty; a line after the first does not start with space/tab.  Lines are split on LF, CR LF, CR; a '
    'terminator at the very end opens no further line.',
    'Domain as quantified: printable text, colon, hash, space, tab, CR, LF.  Exotic Unicode/ASCII line boundaries and '
    'whitespace (NBSP, VT, FF, FS/GS/RS, U+0085, U+2028...) are not generated.',
    'Field names of the paragraphs are ordinary (letters, digits, hyphen) and disjoint from every name a generated '
    'value could inject; names themselves are not under test (validate_input documents that keys are not validated).',
    'Re-read = Deb822.iter_paragraphs on the dump as str and as UTF-8 bytes (internal parser; python-apt is absent). '
    'The default parser setting is only consulted when no continuation line of the value is blank, as stated.',
    'LF-only re-read forms: "reading it back" is taken to include reading the dump from a file or any other source '
    'that hands the parser lines cut at LF only (documented input kinds of Deb822/iter_paragraphs: file-like objects '
    'and sequences of lines, str or bytes).  CR is in the quantified domain, so an accepted value containing CR must '
    'give one paragraph with the same field names there too.  Guards: (a) only the paragraph count and the field '
    'names are compared - a value that re-reads with different content (CR kept inside a line, blanks trimmed, a '
    'whitespace-only line dropped) is not a violation; (b) what follows the final LF of the dump is not handed over '
    "as a further (empty) line, as when a file is read back; (c) the 'blank continuation line' guard of the default "
    'setting uses the model lines (cut at LF, CR LF, CR): an LF-cut line can be whitespace-only only if one of the '
    'model lines it is made of is blank, so no further guard is needed; (d) the Deb822(...) constructor reads one '
    'paragraph: its field names must be those of the paragraph, and - only when the source is an iterator or file, '
    'where the question is defined - a second constructor call on the same source must come back empty; (e) files are '
    'written by dump(fd) (binary: the paragraph\'s own utf-8 encoding; text: text_mode=True on a utf-8 file opened '
    'with newline=LF so that neither direction translates), flushed and rewound on the same handle.',
    'The text file re-opened with the default universal-newline translation turns CR and CR LF into LF before the '
    'parser sees them; that is the line model of the property (every continuation line of an accepted value is '
    'indented and non-empty), so one paragraph with the same names is demanded there too; it is counted in M.reread '
    'but not in M.reread-lf.',
    'No must-accept demand: values without a stated defect that the library rejects are counted, never reported.',
    'Deb822(dict) with a defective value: any exception counts as a rejection on that route (the statement speaks of '
    'assignment to a field of an existing paragraph); the exception types seen are recorded in coverage.ctor_reject_types.',
]
ANCHORS = ['debian.deb822:Deb822.validate_input',
           'debian.deb822:Deb822.__setitem__',
           'debian.deb822:Deb822._dump_format',
           'debian.deb822:Deb822._internal_parser',
           'debian.deb822:Deb822.split_gpg_and_payload',
           'debian.deb822:Deb822._skip_useless_lines',
           'debian.deb822:Deb822.iter_paragraphs']
MUST_REACH = ['debian.deb822:Deb822.validate_input', 'debian.deb822:Deb822.__setitem__',
              'debian.deb822:Deb822._dump_format', 'debian.deb822:Deb822._internal_parser',
              'debian.deb822:Deb822.iter_paragraphs']

# ~50% of what a run on the current tree measures; the enumeration counters are deterministic and must be complete.
# The form:* / api:* / lf:* counters and M.reread-lf belong to the LF-only re-read class: a run that never exercises it
# (or never gets an accepted CR value into it) is INCONCLUSIVE, not held.
FLOORS = {'quick': {'nontrivial': 47000,
                    'monitors': {'M.reread': 430000, 'M.reread-lf': 80000, 'M.must-reject': 88000, 'M.unchanged': 89000,
                                 'K.setitem-raise': 90000},
                    'counters': {'enum-len:5': 100000, 'enum-len:4': 10000, 'accepted-multiline': 30000,
                                 'copy-checked': 1300, 'route:update': 1700, 'route:ctor': 1600,
                                 'route:setdefault': 600,
                                 'form:stringio': 12000, 'form:lines-nl': 11500, 'form:lines-bare': 16000,
                                 'form:bytesio': 16000, 'form:textfile': 11500, 'form:binfile': 11500,
                                 'form:textfile-universal': 3700, 'api:Deb822()': 18000,
                                 'lf:cr-value': 17000, 'lf:cr-value-4-forms': 5400, 'lf:cr-after-colon-blanks': 3700,
                                 'lf:cr-at-line-end': 10000, 'lf:cr-mid-line': 6500}},
          'thorough': {'nontrivial': 2800000,     # recording cap is 400000 per shard x 14
                       'monitors': {'M.reread': 13800000, 'M.reread-lf': 1750000, 'M.must-reject': 3000000,
                                    'M.unchanged': 5200000, 'K.setitem-raise': 5200000},
                       'counters': {'enum-len:7': 10000000, 'enum-len:6': 1000000, 'enum-len:5': 100000,
                                    'accepted-multiline': 1300000, 'copy-checked': 49000, 'route:update': 64000,
                                    'route:ctor': 64000, 'route:setdefault': 22000,
                                    'form:stringio': 270000, 'form:lines-nl': 270000, 'form:lines-bare': 320000,
                                    'form:bytesio': 320000, 'form:textfile': 270000, 'form:binfile': 290000,
                                    'form:textfile-universal': 83000, 'api:Deb822()': 560000,
                                    'lf:cr-value': 640000, 'lf:cr-value-4-forms': 64000,
                                    'lf:cr-after-colon-blanks': 125000, 'lf:cr-at-line-end': 350000,
                                    'lf:cr-mid-line': 290000}}}

WS_FALSE = {'whitespace-separates-paragraphs': False}

# ---------------------------------------------------------------------------
# paragraph layouts: (fields before assignment, target name).  Names contain none
# of the characters the enumeration alphabet can put into an injected name.

ENUM_LAYOUTS = [
    {'fields': [['Pkg', 'p1'], ['Fld', 'old'], ['Zed', 'z9']], 'target': 'Fld'},          # middle, replace
    {'fields': [], 'target': 'Fld'},                                                       # sole, new
    {'fields': [['Fld', 'old'], ['Zed', 'z9']], 'target': 'Fld'},                          # first, replace
    {'fields': [['Pkg', 'p1'], ['Ver', '1.0-1'], ['Zed', 'z9']], 'target': 'Fld'},         # last, new (4 fields)
    {'fields': [['Pkg', 'p1'], ['Fld', 'old']], 'target': 'Fld'},                          # last, replace
    {'fields': [['Pkg', 'p1\n p2'], ['Fld', 'old'], ['Zed', '\n z8\n z9']], 'target': 'Fld'},  # multi-line neighbours
    {'fields': [['Fld', 'old']], 'target': 'Fld'},                                         # sole, replace
    {'fields': [['Pkg', 'p1'], ['fld', 'old'], ['Zed', 'z9'], ['Ver', '2']], 'target': 'FLD'},  # other spelling of the name
]

NAME_POOL = ['Package', 'Version', 'Depends', 'Description', 'Homepage', 'Section', 'Maintainer', 'X-Test-Field']
NEIGHBOUR_VALUES = ['v%d', 'some text %d', '%d.0-1', '\n line %d\n more', 'first %d\n second\n .\n third', '']
INJECT = ['B: x', 'Inj: y', 'Xtra:', 'Q :z', 'K:v', 'inj-2:  spaced', 'B:\tx']
SPECIAL_LINES = ['#comment', '# Inj: y', '-----BEGIN PGP SIGNED MESSAGE-----', '-----BEGIN PGP SIGNATURE-----',
                 '-----END PGP SIGNATURE-----', '.', ':', ': x', '::', '-', 'Hash: SHA256']
BLANKS = ['', ' ', '\t', '  ', ' \t ']
PRINTABLE = ''.join(chr(c) for c in range(0x21, 0x7f)) + '      ' + u'\xe9\xdf\u5b57'
BOUNDARIES = ['\n', '\n', '\n', '\r\n', '\r']
CR_BOUNDARIES = ['\r', '\r', '\r\n', '\r\n', '\n']
ROUTES = ['setitem', 'setitem', 'setitem', 'update', 'setdefault', 'ctor', 'copy']


def rand_line(r):
    k = r.random()
    if k < 0.30:
        return r.choice(INJECT)
    if k < 0.45:
        return r.choice(SPECIAL_LINES)
    if k < 0.55:
        return r.choice(BLANKS)
    if k < 0.65:
        return r.choice(INJECT) + ' ' + ''.join(r.choice(PRINTABLE) for _ in range(r.randint(0, 6)))
    return ''.join(r.choice(PRINTABLE) for _ in range(r.randint(1, 12)))


def rand_value(r):
    n = r.choice([1, 2, 2, 3, 3, 4, 5, 7])
    style = r.random()
    # indentation discipline of this value: mostly well-formed (so that many long values are ACCEPTED and the
    # re-read monitor is exercised), sometimes sloppy (rejections), sometimes none
    p_indent = 1.0 if style < 0.55 else (0.85 if style < 0.85 else 0.3)
    # CR-centred values (1 in 6): the boundaries are mostly bare CR / CR LF, the first line is often blank (so that the
    # dump reads 'Field: <blanks> CR ...') and the value often ends in CR - the shapes that read differently when the
    # dump is cut into lines at LF only
    cr_focus = r.random() < 1 / 6.0
    bounds = CR_BOUNDARIES if cr_focus else BOUNDARIES
    if cr_focus:
        n = max(n, 2)
        out = [r.choice(BLANKS) if r.random() < 0.6 else rand_line(r)]
    else:
        out = [rand_line(r) if r.random() < 0.85 else '']
    for _ in range(n - 1):
        line = rand_line(r)
        if r.random() < p_indent:
            line = r.choice([' ', ' ', '\t', '  ', ' \t']) + line
        out.append(r.choice(bounds))
        out.append(line)
    k = r.random()
    if k < 0.06:
        out.append(r.choice(['\n', '\r', '\r\n', '\n\n']))
    elif cr_focus and k < 0.36:
        out.append('\r')
    return ''.join(out)


def rand_case(r):
    nf = r.choice([1, 2, 3, 3, 4, 4])
    names = r.sample(NAME_POOL, nf)
    new = r.random() < 0.35
    if new:
        nf -= 1
    fields = []
    for i in range(nf):
        val = r.choice(NEIGHBOUR_VALUES)
        fields.append([names[i], val % i if '%d' in val else val])
    if new:
        target = names[-1]
    else:
        target = r.choice(fields)[0]
        if r.random() < 0.2:
            target = r.choice([target.lower(), target.upper()])
    route = r.choice(ROUTES)
    if route == 'setdefault' and not new:
        route = 'setitem'
    return {'kind': 'one', 'fields': fields, 'target': target, 'v': rand_value(r), 'route': route}



# ---------------------------------------------------------------------------
# re-read forms.  'str' and 'bytes' are cut into lines by the library with splitlines() (a CR is a line boundary
# there); the LF_FORMS hand the parser lines cut at LF ONLY, as when the dump went through a file.

MEM_LF_FORMS = ['stringio', 'bytesio', 'lines-nl', 'lines-bare']
DISK_LF_FORMS = ['textfile', 'binfile']
LF_FORMS = MEM_LF_FORMS + DISK_LF_FORMS
ALL_FORMS = ['str', 'bytes'] + LF_FORMS
UNIVERSAL = 'textfile-universal'      # the text file re-opened with Python's default newline translation (CR -> LF)
FILE_FORMS = ('textfile', 'binfile', UNIVERSAL)
# iter_paragraphs weighs double on the LF-only forms: on an iterator the constructor is the loop body of iter_paragraphs
ONE_COMBOS = ([(f, 'iter') for f in LF_FORMS] * 2 + [(f, 'ctor') for f in ALL_FORMS] + [(UNIVERSAL, 'iter')])
ALL_COMBOS = ([(f, 'iter') for f in LF_FORMS] + [(f, 'ctor') for f in ALL_FORMS]
              + [(UNIVERSAL, 'iter'), (UNIVERSAL, 'ctor')])
CR_MID = re.compile(r'[^ \t\r\n][ \t]*\r(?!\n)[ \t]')


def plan(depth, sel):
    """Extra (form, api) pairs beyond the always-run str/bytes x iter_paragraphs; a function of the case only."""
    if depth == 'all':
        return ALL_COMBOS
    if depth == 'full':
        # str lines with terminators from one of two equivalent sources, str lines without terminators, bytes lines,
        # one of the two files; for 1 in 4 also one constructor re-read / the translated text file
        out = [(('stringio', 'lines-nl')[(sel >> 6) & 1], 'iter'), ('lines-bare', 'iter'), ('bytesio', 'iter'),
               (DISK_LF_FORMS[sel & 1], 'iter')]
        if sel & 6 == 0:
            out.append((ALL_FORMS[(sel >> 3) % len(ALL_FORMS)], 'ctor'))
        if sel & 48 == 0:
            out.append((UNIVERSAL, 'iter'))
        return out
    if depth == 'some':            # two of the LF-only forms + one constructor re-read
        i = sel % len(LF_FORMS)
        return [(LF_FORMS[i], 'iter'), (LF_FORMS[(i + 1 + (sel >> 4) % 5) % len(LF_FORMS)], 'iter'),
                (ALL_FORMS[(sel >> 8) % len(ALL_FORMS)], 'ctor')]
    if depth == 'one':
        return [ONE_COMBOS[sel % len(ONE_COMBOS)]]
    return ()


_FILES = {}


def scratch_files(ctx):
    """Two scratch files per shard, created once and rewritten in place."""
    if not _FILES:
        d = ctx.tmpdir()
        _FILES['tpath'] = os.path.join(d, 'dump.txt')
        _FILES['t'] = open(_FILES['tpath'], 'w+', encoding='utf-8', newline='\n')   # no translation either way
        _FILES['b'] = open(os.path.join(d, 'dump.bin'), 'w+b')
    return _FILES


class Sources(object):
    """The dump of one paragraph in every re-read form (fresh source object per re-read)."""

    def __init__(self, ctx, d, text):
        self.ctx, self.d, self.text = ctx, d, text
        self._bytes = self._lines = self._nl = None
        self._written = set()

    def lines(self):
        if self._lines is None:
            parts = self.text.split('\n')
            if parts and parts[-1] == '':
                parts.pop()              # what follows the final LF is not a line (as when a file is read back)
            self._lines = parts
            self._nl = [l + '\n' for l in parts]
        return self._lines

    def _file(self, which):
        fs = scratch_files(self.ctx)
        f = fs[which]
        if which not in self._written:
            f.seek(0)
            if which == 't':
                self.d.dump(f, text_mode=True)
            else:
                self.d.dump(f)
            f.truncate()                 # cut what is left of a longer previous dump (never truncate to 0 first:
            f.flush()                    # ext4 then forces the blocks out on the next close() of any handle)
            self._written.add(which)
        f.seek(0)
        return f

    def get(self, form, api):
        """(source, is_iterator, closer)"""
        if form == 'str':
            return self.text, False, None
        if form == 'bytes' or form == 'bytesio':
            if self._bytes is None:
                self._bytes = self.text.encode('utf-8')
            if form == 'bytes':
                return self._bytes, False, None
            return io.BytesIO(self._bytes), True, None
        if form == 'stringio':
            return io.StringIO(self.text), True, None
        if form == 'lines-nl' or form == 'lines-bare':
            self.lines()
            seq = self._nl if form == 'lines-nl' else self._lines
            if api == 'ctor':
                return iter(seq), True, None       # an iterator, so that what follows the first paragraph can be read
            return seq, True, None
        if form == 'textfile':
            return self._file('t'), True, None
        if form == 'binfile':
            return self._file('b'), True, None
        if form == UNIVERSAL:
            self._file('t')
            f = open(scratch_files(self.ctx)['tpath'], 'r', encoding='utf-8')
            return f, True, f.close
        raise ValueError('unknown form %r' % form)

    def file_content(self, form):
        try:
            f = scratch_files(self.ctx)['b' if form == 'binfile' else 't']
            f.seek(0)
            return f.read()
        except Exception as e:           # only used to word a report
            return '<unreadable: %s>' % e


# ---------------------------------------------------------------------------

def setup(ctx):
    from debian import deb822
    from .. import contracts
    ctx.extra['ctor_reject_types'] = {}
    ctx.extra['rejected_without_stated_defect'] = 0
    ctx.extra['exhaustive_subspaces'] = [
        'all token strings of length <= %d over %r (sharded)' % (ENUM_MAXLEN[ctx.tier], TOKENS)]

    def snapshot(self, key, value):
        if not K_ACTIVE[0]:
            return None
        return (list(self), self.dump())

    def on_raise(old, exc, self, key, value):
        if old is None:
            return
        now = (list(self), self.dump())
        if now != old:
            contracts.fail('rejected-assignment-changed-paragraph',
                           'K: Deb822.__setitem__(%r, %r) raised %s but the mapping changed: %r -> %r'
                           % (key, value, type(exc).__name__, old, now))

    contracts.wrap(deb822.Deb822, '__setitem__', 'K.setitem-raise', snapshot=snapshot, on_raise=on_raise)


K_ACTIVE = [False]     # the K snapshot is taken only while the harness drives an assignment (not inside re-reads)


def finish(ctx):
    from .. import contracts
    contracts.flush_evals(ctx)
    for k in ('t', 'b'):
        if k in _FILES:
            _FILES[k].close()
    _FILES.clear()


def cases(ctx):
    maxlen = ENUM_MAXLEN[ctx.tier]
    idx = 0
    for k in range(0, maxlen + 1):
        plen = max(0, k - BLOCK_SUFFIX)
        for prefix in itertools.product(range(len(TOKENS)), repeat=plen):
            if ctx.mine(idx):
                yield {'kind': 'enum', 'k': k, 'prefix': list(prefix)}
            idx += 1
    r = ctx.rng('random')
    for _ in range(ctx.size(RANDOM_TOTAL['quick'], RANDOM_TOTAL['thorough'])):
        yield rand_case(r)


# ---------------------------------------------------------------------------
# one assignment, fully checked

def build(fields):
    from debian.deb822 import Deb822
    d = Deb822()
    for name, val in fields:
        d[name] = val
    return d


def one_case(fields, target, v, route):
    return {'kind': 'one', 'fields': fields, 'target': target, 'v': v, 'route': route}


def classify(keys, names, nparas):
    if nparas > 1:
        return 'accepted-value-starts-new-paragraph'
    if nparas == 0:
        return 'accepted-value-reread-empty'
    lk, lg = [x.lower() for x in keys], [x.lower() for x in names[0]]
    if [x for x in lg if x not in lk]:
        return 'accepted-value-adds-field'
    if [x for x in lk if x not in lg]:
        return 'accepted-value-truncates-paragraph'
    return 'accepted-value-changes-field-names'


def reread_once(src, is_iter, api, strict):
    """Field names of the paragraphs one re-read gives.  api 'iter': Deb822.iter_paragraphs; api 'ctor': the
    Deb822(...) constructor (reads the first paragraph; on an iterator/file a second call reads what follows)."""
    from debian.deb822 import Deb822
    if api == 'iter':
        return [list(p) for p in Deb822.iter_paragraphs(src, strict=strict)]
    first = Deb822(src, strict=strict)
    names = [list(first)] if first else []
    if is_iter:
        rest = Deb822(src, strict=strict)
        if rest:
            names.append(list(rest))
    return names


def check_reread(ctx, d, v, small, what='dump', depth='none', sel=0):
    """M.reread: the accepted value's paragraph re-reads as ONE paragraph with the same names."""
    keys = list(d)
    text = d.dump()
    blank = model.blank_continuation(v)
    combos = [('str', 'iter'), ('bytes', 'iter')]
    extra = plan(depth, sel)
    if extra:
        combos.extend(extra)
        if '\r' in v:
            ctx.count('lf:cr-value')
            if depth in ('full', 'all'):
                ctx.count('lf:cr-value-4-forms')
            if v.lstrip(' \t')[:1] == '\r':
                ctx.count('lf:cr-after-colon-blanks')
            if '\r\n' in v or v[-1] == '\r':
                ctx.count('lf:cr-at-line-end')
            if CR_MID.search(v):
                ctx.count('lf:cr-mid-line')
    srcs = Sources(ctx, d, text)
    found = {}        # mechanism key -> (first detail, [modes]) : one report per mechanism per case
    for strict, sname in ((WS_FALSE, 'ws-false'), (None, 'default')):
        if strict is None and blank:
            ctx.count('reread-default-skipped:blank-continuation')
            continue
        for form, api in combos:
            mode = '%s/%s' % (form, sname) if api == 'iter' else '%s/Deb822()/%s' % (form, sname)
            ctx.mon('M.reread')
            if form not in ('str', 'bytes'):
                if form != UNIVERSAL:
                    ctx.mon('M.reread-lf')
                ctx.count('form:' + form)
            if api == 'ctor':
                ctx.count('api:Deb822()')
            closer = None
            try:
                src, is_iter, closer = srcs.get(form, api)
                names = reread_once(src, is_iter, api, strict)
            except Exception as e:       # the dump of an accepted value cannot be read back at all
                found.setdefault('reread-raises', ('raised %s: %s' % (type(e).__name__, e), []))[1].append(mode)
                continue
            finally:
                if closer is not None:
                    closer()
            if len(names) == 1 and names[0] == keys:
                continue
            more = ' (at least)' if api == 'ctor' and len(names) > 1 else ''
            detail = 'gives %d%s paragraph(s) with fields %r' % (len(names), more, names)
            if form in FILE_FORMS:
                detail += ' [file written by dump(fd) holds %r]' % (srcs.file_content(form),)
            found.setdefault(classify(keys, names, len(names)), (detail, []))[1].append(mode)
    for key, (detail, modes) in sorted(found.items()):
        ctx.violation(key, '%s of accepted value %r is %r; re-read [%s] %s; expected one paragraph with fields %r'
                      % (what, v, text, ', '.join(modes), detail, keys), small)
    ok = not found
    return ok


def assign_and_check(ctx, fields, target, v, route, d=None, depth='none', salt=0):
    """Returns the paragraph if it is still pristine (rejected and verified unchanged) so the caller may reuse it.
    depth: how many of the extra re-read forms an accepted value goes through (plan()); a replay runs them all."""
    from debian.deb822 import Deb822
    from ..core import MonitorViolation
    from .. import contracts
    small = one_case(fields, target, v, route)
    dfx = model.defects(v)
    boundary = model.has_boundary(v)
    if boundary:
        ctx.nontrivial(case={'v': v}, key=hashlib.sha1(v.encode('utf-8')).hexdigest())
    ctx.count('route:' + route)

    if route == 'ctor':
        items = {}
        seen = False
        for name, val in fields:
            if name.lower() == target.lower():
                items[name] = v
                seen = True
            else:
                items[name] = val
        if not seen:
            items[target] = v
        try:
            K_ACTIVE[0] = True
            d = Deb822(items)
        except MonitorViolation as e:
            contracts.PENDING[:] = []
            ctx.violation(e.key, e.msg, small)
            return None
        except Exception as e:
            t = type(e).__name__
            ctx.count('rejected')
            ctx.extra['ctor_reject_types'][t] = ctx.extra['ctor_reject_types'].get(t, 0) + 1
            if not dfx:
                ctx.extra['rejected_without_stated_defect'] += 1
            return None
        finally:
            K_ACTIVE[0] = False
        before = None
    else:
        if d is None:
            d = build(fields)
        before = (list(d), d.dump())
        try:
            K_ACTIVE[0] = True
            if route == 'update':
                d.update({target: v})
            elif route == 'setdefault':
                d.setdefault(target, v)
            else:
                d[target] = v
        except MonitorViolation as e:
            contracts.PENDING[:] = []
            ctx.violation(e.key, e.msg, small)
            return None
        except Exception as e:
            K_ACTIVE[0] = False
            ctx.count('rejected')
            ctx.count('rejected:' + ('+'.join(dfx) if dfx else 'no-stated-defect'))
            if not isinstance(e, ValueError):
                ctx.violation('rejection-not-ValueError',
                              'assigning %r to %r raised %s (%s), not ValueError' % (v, target, type(e).__name__, e), small)
            if not dfx:
                ctx.extra['rejected_without_stated_defect'] += 1
            ctx.mon('M.unchanged')
            after = (list(d), d.dump())
            if after != before:
                ctx.violation('rejected-assignment-changed-paragraph',
                              'assigning %r to %r was rejected (%s) but list/dump changed: %r -> %r'
                              % (v, target, type(e).__name__, before, after), small)
                return None
            return d
        finally:
            K_ACTIVE[0] = False

    # ---- accepted
    ctx.count('accepted')
    if boundary:
        ctx.count('accepted-multiline')
    ctx.mon('M.must-reject')
    if dfx:
        ctx.violation('defective-value-accepted/' + dfx[0],
                      'value %r has the stated defect(s) %s but assigning it to %r (%s) was accepted; dump is %r'
                      % (v, '+'.join(dfx), target, route, d.dump()), small)
    if ctx.replay:
        depth = 'all'
    sel = (zlib.crc32(v.encode('utf-8')) >> 3) + salt if depth != 'none' else 0
    check_reread(ctx, d, v, small, depth=depth, sel=sel)
    if route == 'copy':
        try:
            c = d.copy()
        except ValueError:
            ctx.count('copy-rejected')      # no must-accept demand
        else:
            ctx.count('copy-checked')
            check_reread(ctx, c, v, small, what='dump of copy()', depth='all' if ctx.replay else 'one', sel=sel + 5)
    return None


def run_case(ctx, case):
    kind = case['kind']
    if kind == 'one':
        v = case['v']
        h = zlib.crc32(v.encode('utf-8'))
        if '\r' not in v:
            depth = 'one' if ctx.quick or h % 4 == 1 else 'none'
        elif h % (2 if ctx.quick else 4) == 0:
            depth = 'some'
        else:
            depth = 'one'
        assign_and_check(ctx, case['fields'], case['target'], v, case.get('route', 'setitem'), depth=depth)
        return
    if kind != 'enum':
        raise ValueError('unknown case kind %r' % kind)
    k = case['k']
    prefix = ''.join(TOKENS[i] for i in case['prefix'])
    slen = k - len(case['prefix'])
    rot = len(ENUM_LAYOUTS) - 1
    # one reusable pristine paragraph per layout (reused only after a rejection that was verified to change nothing)
    pristine = [None] * len(ENUM_LAYOUTS)
    n = sum(case['prefix']) + k
    first = True
    for suffix in itertools.product(TOKENS, repeat=slen):
        v = prefix + ''.join(suffix)
        n += 1
        if not first:
            ctx.evaluations += 1
        first = False
        ctx.count('enum-len:%d' % k)
        if k <= 5:
            chosen = (0, 1, 2 + n % (rot - 1))
        elif k == 6 or n % 3 == 0:
            chosen = (0, 1 + (n // 3 if k > 6 else n) % rot)
        else:
            chosen = (0,)
        cr = '\r' in v
        for li in chosen:
            lay = ENUM_LAYOUTS[li]
            if li:                   # other layouts: CR values only, on the first rotated layout (7 tokens: every 2nd)
                depth = 'one' if cr and li == chosen[1] and (k <= 6 or n % 2 == 0) else 'none'
            elif cr:
                if k <= 6 or n % 32 == 0:
                    depth = 'full'
                else:                # 7 tokens: every 2nd CR value gets one LF-only (form, API) pair
                    depth = 'one' if n % 2 else 'none'
            elif k <= 5:
                depth = 'one' if n % 8 == 0 or ('\n' in v and n % 2) else 'none'
            else:
                depth = 'one' if n % (4 if k == 6 else 32) == 1 else 'none'
            pristine[li] = assign_and_check(ctx, lay['fields'], lay['target'], v, 'setitem', pristine[li],
                                            depth=depth, salt=li)


LEVEL_TEXT = ('Runtime monitoring: every string of <= 5 (quick) / <= 7 (thorough) tokens over a 10-token hostile alphabet '
              '(colon, hash, space, tab, CR, LF, hyphen, dot, a letter, a ready-made "B: x" line) and seeded longer '
              'multi-line values are assigned to fields of live Deb822 paragraphs (item assignment, update, setdefault, '
              'Deb822(dict), copy).  Each accepted assignment is dumped and re-read through Deb822.iter_paragraphs (str and '
              'bytes; whitespace-separates-paragraphs=False, and the default when no continuation line is blank) and must '
              'give one paragraph with the same field names; accepted values containing CR (all enumerated ones of <= 5 / '
              '<= 6 tokens, a rotating share of the rest) are also re-read in forms whose lines are cut at LF only - '
              'StringIO, BytesIO, lists of lines with and without terminators, a real text and a real binary file written '
              'by dump(fd) - through iter_paragraphs and the Deb822(...) constructor, with the same demand (paragraph count '
              'and field names only, never values); accepted values must be free of the three stated defects per '
              'an independent model; rejections must be ValueError and leave list()/dump() unchanged.  Held-on-observed, '
              'not a proof: reach is the enumerated space plus the sampled values.')
LEVEL_NOTE = ('Trusted: CPython, vp.models.deb822value (line model of the three stated defects), the layout table. Domain as '
              'quantified (no exotic Unicode line boundaries/whitespace); field names are ordinary and disjoint from injectable '
              'names; no must-accept demand; on the Deb822(dict) route any exception counts as rejection.  Reading the dump '
              'back from a file / a sequence of LF-cut lines is taken to be within "reading it back"; values are never compared.')
TECHNIQUE = ('runtime monitoring: boundary oracle M.reread (dump of every accepted assignment re-read by the live parser in all '
             'stated settings and, for values containing CR, in every input form that cuts lines at LF only - in-memory streams, '
             'line lists, real text/binary files: one paragraph, same field names) as deciding monitor, with reference-model monitor M.must-reject, '
             'history monitor M.unchanged on rejections and an exceptional-exit contract on Deb822.__setitem__')
